#!/usr/bin/env python3
"""Generic driver for the PyImath properties (C19, C20): builds the `imath` module from the current tree
(incremental), optionally an extension under /verif/py (spec["ext"]), runs spec["script"] under
/usr/bin/python3.11 with that module, and judges the report. spec["variants"][tier] may list extra
sanitizer builds ("asan", "tsan") with a script each; their reports are merged into the main one."""
import json, os, shutil, subprocess, sys
import check, pybuild


def merge(a, b, prefix):
    for k in ("counters", "classes"):
        for kk, v in b.get(k, {}).items():
            a[k][prefix + kk] = a[k].get(prefix + kk, 0) + v
    for kk, v in b.get("maxima", {}).items():
        a["maxima"][prefix + kk] = v
    for kk, v in b.get("violation_counts", {}).items():
        a["violation_counts"][prefix + kk] = a["violation_counts"].get(prefix + kk, 0) + v
    for v in b.get("violations", []):
        v = dict(v); v["site"] = prefix + v["site"]; a["violations"].append(v)
    a["stages_completed"] += [prefix + s for s in b.get("stages_completed", [])]
    a["stages_skipped"] += [prefix + s for s in b.get("stages_skipped", [])]
    a["empty_classes"] += [prefix + s for s in b.get("empty_classes", [])]
    a["exhaustive"] = a["exhaustive"] and b.get("exhaustive", False)
    a["wall_s"] = a.get("wall_s", 0) + b.get("wall_s", 0)


def run_one(spec, prop, tier, seed, variant, script, deadline, extra):
    b = pybuild.build(variant)
    env = pybuild.env_for(b, variant)
    env["VERIF_PYBUILD"] = b
    if spec.get("ext"):
        ext = __import__(spec["ext"])          # module in tools/ with build(build_dir, variant) -> dir to add to PYTHONPATH
        d = ext.build(b, variant)
        env["PYTHONPATH"] = d + ":" + env["PYTHONPATH"]
    out = os.path.join(b, "report-%s%s.json" % (prop, "-" + variant if variant else ""))
    if os.path.exists(out):
        os.remove(out)
    # sanitizer runtimes of this tool-chain map their shadow memory at fixed addresses and fail at random under
    # high-entropy ASLR (vm.mmap_rnd_bits = 28 here: "ThreadSanitizer failed to allocate ..."): run them with ASLR off
    pre = ["setarch", "x86_64", "-R"] if variant in ("tsan", "asan") and shutil.which("setarch") else []
    cmd = pre + [pybuild.PY, os.path.join(check.VERIF, "py", script), "--tier", tier, "--seed", str(seed), "--out", out, "--deadline", str(deadline)] + extra
    # hard stop: the scripts honour --deadline themselves (and kill workers that outlive it); this only guarantees that the
    # check terminates if the script itself wedges
    try:
        p = subprocess.run(cmd, env=env, cwd=check.VERIF, timeout=3 * deadline + 900, start_new_session=True)
    except subprocess.TimeoutExpired:
        subprocess.run(["pkill", "-9", "-f", os.path.join(check.VERIF, "py", script)])
        check.log("HARNESS-ERROR: %s did not terminate within %d s" % (script, 3 * deadline + 900))
        return None
    if p.returncode != 0 or not os.path.exists(out):
        check.log("HARNESS-ERROR: %s exited with %d" % (script, p.returncode))
        return None
    return json.load(open(out))


def main(prop, tier, seed, replay):
    spec = check.PROPS[prop]
    deadline = spec.get("deadline", {}).get(tier, 300 if tier == "quick" else 1500)
    extra = []
    if replay:
        rj = json.load(open(replay))
        # a site reported by a variant script carries that variant's prefix ("scalar:", "threads:", "tsan:"): replay it there
        for v in [x for vs in spec.get("variants", {}).values() for x in vs]:
            prefix = v[2] if len(v) > 2 else v[0] + ":"
            if rj["site"].startswith(prefix):
                site = rj["site"][len(prefix):]
                for s in sorted(set(c["stage"] for c in rj["cases"] if c.get("stage"))):
                    extra += ["--stage", s]
                rep = run_one(spec, prop, tier, seed, v[0], v[1], deadline, extra + ["--replay-site", site])
                if rep is None:
                    return 2
                n = rep.get("violation_counts", {}).get(site, 0)
                print(("REPLAYED: site %s fails again (%d cases)" % (rj["site"], n)) if n else ("NOT REPRODUCED: site %s holds" % rj["site"]))
                for x in rep.get("violations", []):
                    if x["site"] == site:
                        print("  input=%s expected=%s got=%s" % (x["input"], x["expected"], x["got"]))
                return 1 if n else 0
        for s in sorted(set(c["stage"] for c in rj["cases"])):
            extra += ["--stage", s]
        extra += ["--replay-site", rj["site"]]
    rep = run_one(spec, prop, tier, seed, "", spec["script"], deadline, extra)
    if rep is None:
        return 2
    if not replay:
        for v in spec.get("variants", {}).get(tier, []):
            variant, script = v[0], v[1]
            prefix = v[2] if len(v) > 2 else variant + ":"
            r2 = run_one(spec, prop, tier, seed, variant, script, deadline, [])
            if r2 is None:
                return 2
            merge(rep, r2, prefix)
    if replay:
        n = rep.get("violation_counts", {}).get(rj["site"], 0)
        print(("REPLAYED: site %s fails again (%d cases)" % (rj["site"], n)) if n else ("NOT REPRODUCED: site %s holds" % rj["site"]))
        for v in rep.get("violations", []):
            if v["site"] == rj["site"]:
                print("  input=%s expected=%s got=%s" % (v["input"], v["expected"], v["got"]))
        return 1 if n else 0
    return check.judge(prop, tier, seed, rep)
