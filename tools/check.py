#!/usr/bin/env python3
"""Single entry point for every check:  python3 tools/check.py <Cxx> <quick|thorough> [--replay FILE]

Rebuilds the harness for the property from the *current working tree* of the repository
(headers included from $VERIF_REPO/src/Imath, the library .cpp files compiled by this build,
ImathConfig.h produced by the repository's own CMake configure step), runs it, converts its
report into /verif/evidence/<Cxx>.json, prints VIOLATION / KNOWN-FINDING lines and sets the exit
status:  0 = property held on everything explored (known findings allowed), 1 = violation,
2 = the machinery itself failed (build error, harness crash, vacuous exploration).
"""
import json, os, re, subprocess, sys, time, shutil, hashlib
from concurrent.futures import ThreadPoolExecutor

VERIF = os.path.dirname(os.path.dirname(os.path.abspath(__file__)))
REPO = os.environ.get("VERIF_REPO", "/repo")
BUILD = os.path.join(VERIF, "build")
sys.path.insert(0, os.path.join(VERIF, "tools"))
from props import PROPS  # noqa: E402


def log(*a):
    print(*a, file=sys.stderr, flush=True)


def run(cmd, **kw):
    return subprocess.run(cmd, stdout=subprocess.PIPE, stderr=subprocess.STDOUT, text=True, **kw)


def repo_tag():
    return hashlib.sha1(REPO.encode()).hexdigest()[:8] if REPO != "/repo" else "main"


# Runs against a scratch copy of the repository (mutant / seeded-change runs) must not touch the
# committed evidence or replay directories.
SCRATCH = REPO != "/repo"
OUTDIR = VERIF if not SCRATCH else os.path.join(BUILD, "scratch-" + repo_tag())


def configure_repo():
    """Run the repository's own CMake configure step -> ImathConfig.h (exercises config plumbing)."""
    tag = repo_tag()
    cfg = os.path.join(BUILD, "cfg-" + tag)
    r = run(["cmake", "-G", "Ninja", "-S", REPO, "-B", cfg, "-DBUILD_TESTING=OFF", "-DCMAKE_BUILD_TYPE=RelWithDebInfo"])
    if r.returncode != 0:
        log(r.stdout)
        raise SystemExit(2)
    return os.path.join(cfg, "config")


DEFAULT_VARIANTS = [("clang-O2", {"cxx": "clang++"}), ("gcc-O0", {"opt": "-O0"})]

LIB_CPP = ["half.cpp", "ImathColorAlgo.cpp", "ImathFun.cpp", "ImathMatrixAlgo.cpp", "ImathRandom.cpp"]


def build_cpp(prop, spec, cfg_inc, variant=""):
    """Compile harness TUs + library sources in parallel, link. Always from scratch (no stale objects)."""
    bdir = os.path.join(BUILD, prop + variant + ("" if not SCRATCH else "-" + repo_tag()))
    shutil.rmtree(bdir, ignore_errors=True)
    os.makedirs(bdir)
    cxx = spec.get("cxx", "g++")
    flags = [spec.get("opt", "-O2"), "-std=c++14", "-g0", "-pthread",
             "-I" + os.path.join(REPO, "src/Imath"), "-I" + cfg_inc, "-I" + os.path.join(VERIF, "engine"),
             "-DIMATH_VERIF_HARNESS"] + spec.get("flags", [])
    srcs = [os.path.join(VERIF, "harness", s) for s in spec["sources"]]
    srcs += [os.path.join(REPO, "src/Imath", s) for s in spec.get("lib", LIB_CPP)]
    objs = []
    jobs = []
    for i, s in enumerate(srcs):
        o = os.path.join(bdir, "%02d_%s.o" % (i, os.path.basename(s).replace(".", "_")))
        objs.append(o)
        jobs.append([cxx] + flags + spec.get("source_flags", {}).get(os.path.basename(s), []) + ["-c", s, "-o", o])
    t0 = time.time()
    with ThreadPoolExecutor(max_workers=16) as ex:
        res = list(ex.map(lambda c: run(c), jobs))
    for c, r in zip(jobs, res):
        if r.returncode != 0:
            log("BUILD FAILED:", " ".join(c))
            log(r.stdout[-6000:])
            raise SystemExit(2)
    exe = os.path.join(bdir, prop.lower())
    r = run([cxx] + objs + ["-o", exe, "-pthread"] + spec.get("ldflags", []))
    if r.returncode != 0:
        log("LINK FAILED"); log(r.stdout[-6000:])
        raise SystemExit(2)
    log("built %s in %.1fs" % (exe, time.time() - t0))
    return exe


def load_known():
    p = os.path.join(VERIF, "known_findings.json")
    if not os.path.exists(p):
        return {"open": [], "fixed": []}
    return json.load(open(p))


def match_known(known, prop, site, inputs):
    site = re.sub(r"^\[[^\]]+\] ", "", site)   # "[clang-O2] site" -> "site"
    for k in known.get("open", []):
        if k["property"] != prop or k["site"] != site:
            continue
        rx = k.get("input_regex")
        if rx and not all(re.search(rx, i) for i in inputs):
            continue
        return k
    return None


def write_evidence(prop, tier, seed, rep, extra_cov=None, violations=0):
    c = rep.get("counters", {})
    classes = rep.get("classes", {})
    nontriv = c.get("distinct_nontrivial")
    if nontriv is None:
        nontriv = sum(v for k, v in classes.items() if not k.endswith(".generic"))
    spec = PROPS[prop]
    cov = {
        "states": int(c.get("states", 0)),
        "transitions": int(c.get("transitions", 0)),
        "traces_validated_against_impl": int(c.get("traces", c.get("states", 0))),
        "evaluations": int(c.get("evaluations", c.get("states", 0))),
        "distinct_nontrivial": int(nontriv),
        "rule": spec.get("rule", ""),
        "samples": rep.get("samples", [])[:24] or ["(none)"],
        "exhaustive": bool(rep.get("exhaustive", False)),
        "bound_completed": rep.get("stages_completed", []),
        "stages_skipped_deadline": rep.get("stages_skipped", []),
        "outcome_classes": classes,
        "counters": c,
        "worst_observed": rep.get("maxima", {}),
        "notes": rep.get("notes", {}),
        "violation_sites": rep.get("violation_counts", {}),
    }
    if extra_cov:
        cov.update(extra_cov)
    ev = {
        "property_id": prop, "tier": tier, "seed": int(seed), "level": "model_checking",
        "coverage": cov,
        "assumptions": sorted(set(rep.get("assumptions", []) + spec.get("assumptions", []))),
        "wall_s": round(float(rep.get("wall_s", 0.0)), 3),
        "violations": int(violations),
    }
    os.makedirs(os.path.join(OUTDIR, "evidence"), exist_ok=True)
    p = os.path.join(OUTDIR, "evidence", prop + ".json")
    tmp = p + ".tmp"
    json.dump(ev, open(tmp, "w"), indent=1)
    os.replace(tmp, p)
    return p


def judge(prop, tier, seed, rep, extra_cov=None):
    """Turn a harness report into stdout lines + evidence + exit code."""
    known = load_known()
    by_site = {}
    for v in rep.get("violations", []):
        by_site.setdefault(v["site"], []).append(v)
    status = 0
    nviol = 0
    os.makedirs(os.path.join(OUTDIR, "replay"), exist_ok=True)
    for site, cnt in sorted(rep.get("violation_counts", {}).items()):
        vs = by_site.get(site, [])
        if site.startswith("harness.") or site.startswith("oracle."):
            # the machinery failed its own self-check: broken check, never a violation of the property
            log("HARNESS-ERROR: self-check %s failed (%d): %s" % (site, cnt, vs[0] if vs else ""))
            status = 2
            continue
        k = match_known(known, prop, site, [v["input"] for v in vs])
        if k:
            print("KNOWN-FINDING: property=%s site=%s %s (%d failing cases this run; first: %s)" %
                  (prop, site, k["what"], cnt, vs[0]["input"] if vs else "?"))
            continue
        nviol += 1
        status = 1 if status != 2 else 2
        rp = os.path.join(OUTDIR, "replay", "%s-%s.json" % (prop, re.sub(r"[^A-Za-z0-9_.-]+", "_", site)[:80]))
        json.dump({"property": prop, "site": site, "count": cnt, "tier": tier, "cases": vs,
                   "replay_cmd": "python3 tools/check.py %s %s --replay %s" % (prop, tier, rp)}, open(rp, "w"), indent=1)
        v0 = vs[0] if vs else {}
        print("VIOLATION property=%s replay=%s site=%s cases=%d first_input=%s expected=%s got=%s" %
              (prop, rp, site, cnt, v0.get("input"), v0.get("expected"), v0.get("got")))
    if rep.get("empty_classes") and rep.get("exhaustive") and not rep.get("partial_ok"):
        if nviol:
            # an outcome class may be empty BECAUSE the library deviates (e.g. a class counted on a library result that is
            # now wrong): the violations stand and are what is reported; vacuity only fails a run that is otherwise clean
            log("note: outcome classes left empty in a run with violations:", rep["empty_classes"])
        else:
            log("HARNESS-ERROR: vacuous outcome classes:", rep["empty_classes"])
            status = 2
    ev = write_evidence(prop, tier, seed, rep, extra_cov, nviol)
    log("evidence ->", ev, "| exhaustive:", rep.get("exhaustive"), "| wall %.1fs" % rep.get("wall_s", 0))
    return status


def run_cpp(prop, tier, seed, replay=None):
    spec = PROPS[prop]
    cfg_inc = configure_repo()
    exe = build_cpp(prop, spec, cfg_inc)
    out = os.path.join(os.path.dirname(exe), "report.json")
    deadline = spec.get("deadline", {}).get(tier, 240 if tier == "quick" else 1500)
    cmd = [exe, "--tier", tier, "--seed", str(seed), "--out", out, "--deadline", str(deadline)]
    if replay:
        rj = json.load(open(replay))
        stages = sorted(set(c["stage"] for c in rj["cases"]))
        for s in stages:
            cmd += ["--stage", s]
        cmd += ["--replay-site", rj["site"]]
    t0 = time.time()
    try:
        p = subprocess.run(cmd, cwd=VERIF, stderr=subprocess.PIPE, text=True, timeout=3 * deadline + 900)
    except subprocess.TimeoutExpired as ex:
        # the harness honours --deadline between work items; not terminating long after it means a call never returned
        sys.stderr.write((ex.stderr or b"").decode(errors="replace") if isinstance(ex.stderr, bytes) else (ex.stderr or ""))
        log("HARNESS-ERROR: %s did not terminate within %d s (deadline %d s)" % (exe, 3 * deadline + 900, deadline))
        return 2
    sys.stderr.write(p.stderr)
    if p.returncode < 0 or p.returncode == 134:
        # The harness died on a signal (abort from an exception escaping a noexcept/unchecked library call, SIGFPE,
        # SIGSEGV ...). Every harness has been run to completion on the unchanged tree, so a crash is behaviour of the
        # library under test at the stage named last on stderr: report it as a violation, with the stderr tail as replay.
        stages = re.findall(r"^  stage ([^:]+):", p.stderr, re.M)
        site = "crash.signal%d.after-stage:%s" % (-p.returncode if p.returncode < 0 else 6, stages[-1] if stages else "<start>")
        os.makedirs(os.path.join(OUTDIR, "replay"), exist_ok=True)
        rp = os.path.join(OUTDIR, "replay", "%s-crash.json" % prop)
        json.dump({"property": prop, "site": site, "tier": tier, "stderr_tail": p.stderr[-3000:],
                   "cases": [{"site": site, "stage": "", "input": "harness process terminated", "expected": "completes", "got": p.stderr[-300:]}]}, open(rp, "w"), indent=1)
        print("VIOLATION property=%s replay=%s site=%s (the library call terminated the process: %s)" % (prop, rp, site, p.stderr.strip().splitlines()[-1][:200] if p.stderr.strip() else ""))
        return 1
    if p.returncode != 0:
        log("HARNESS-ERROR: %s exited with %d" % (exe, p.returncode))
        return 2
    rep = json.load(open(out))
    # thorough tier: repeat the quick alphabets with other compilers / optimisation levels (DESIGN 0.1): the same
    # harness and oracles, built by clang++ -O2 and by g++ -O0; their violation sites are merged with a prefix.
    if tier == "thorough" and not replay:
        for vname, vspec in spec.get("cxx_variants", DEFAULT_VARIANTS):
            sp2 = dict(spec); sp2.update(vspec)
            exe2 = build_cpp(prop, sp2, cfg_inc, variant="-" + vname)
            out2 = os.path.join(os.path.dirname(exe2), "report.json")
            p2 = subprocess.run([exe2, "--tier", "quick", "--seed", str(seed), "--out", out2, "--deadline", str(spec.get("deadline", {}).get("quick", 240))], cwd=VERIF)
            if p2.returncode != 0:
                log("HARNESS-ERROR: variant %s exited with %d" % (vname, p2.returncode))
                return 2
            r2 = json.load(open(out2))
            pre = "[%s] " % vname
            for k, v in r2.get("violation_counts", {}).items():
                rep["violation_counts"][pre + k] = v
            for v in r2.get("violations", []):
                v = dict(v); v["site"] = pre + v["site"]; rep["violations"].append(v)
            rep["stages_completed"].append("%s: quick alphabets rebuilt with %s — %d stages, %d violations [%.1fs]" %
                                           (vname, vspec, len(r2.get("stages_completed", [])), len(r2.get("violation_counts", {})), r2.get("wall_s", 0)))
            for k in ("states", "transitions", "evaluations"):
                rep["counters"][k] = rep["counters"].get(k, 0) + r2.get("counters", {}).get(k, 0)
            rep["exhaustive"] = rep.get("exhaustive", False) and r2.get("exhaustive", False)
            rep["wall_s"] = rep.get("wall_s", 0) + r2.get("wall_s", 0)
    if replay:
        want = set(c["input"] for c in rj["cases"])
        got = set(v["input"] for v in rep.get("violations", []) if v["site"] == rj["site"])
        if rep.get("violation_counts", {}).get(rj["site"]):
            print("REPLAYED: site %s fails again (%d cases; recorded inputs reproduced: %d/%d)" %
                  (rj["site"], rep["violation_counts"][rj["site"]], len(want & got), len(want)))
            for v in rep["violations"]:
                if v["site"] == rj["site"]:
                    print("  input=%s expected=%s got=%s" % (v["input"], v["expected"], v["got"]))
            return 1
        print("NOT REPRODUCED: site %s holds on the current tree" % rj["site"])
        return 0
    return judge(prop, tier, seed, rep)


def main():
    if len(sys.argv) < 3:
        print(__doc__)
        return 2
    prop, tier = sys.argv[1], sys.argv[2]
    tier = os.environ.get("VERIF_TIER", tier) if tier not in ("quick", "thorough") else tier
    seed = int(os.environ.get("VERIF_SEED", "0") or 0)
    replay = None
    if "--replay" in sys.argv:
        replay = sys.argv[sys.argv.index("--replay") + 1]
    spec = PROPS[prop]
    os.makedirs(BUILD, exist_ok=True)
    if spec.get("custom"):
        mod = __import__(spec["custom"])
        return mod.main(prop, tier, seed, replay)
    return run_cpp(prop, tier, seed, replay)


if __name__ == "__main__":
    sys.exit(main())
