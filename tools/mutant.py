#!/usr/bin/env python3
"""Apply a patch to a scratch copy of the repository (outside /repo and /verif), run a check against
it, report whether the check raised a VIOLATION, and delete the copy.

  python3 tools/mutant.py <patch.diff> <Cxx> [quick|thorough] [--suite] [--keep]

--suite additionally builds the pinned test-suite in the scratch copy and runs it (a mutant the suite
already kills is uninteresting). Exit 0 = detected (check exit 1 with VIOLATION line), 1 = missed.
"""
import os, shutil, subprocess, sys, tempfile, time

VERIF = os.path.dirname(os.path.dirname(os.path.abspath(__file__)))


def main():
    patch, prop = os.path.abspath(sys.argv[1]), sys.argv[2]
    tier = sys.argv[3] if len(sys.argv) > 3 and not sys.argv[3].startswith("--") else "quick"
    d = tempfile.mkdtemp(prefix="vmut-", dir="/tmp")
    repo = os.path.join(d, "repo")
    try:
        subprocess.check_call(["rsync", "-a", "--exclude", "_build", "--exclude", ".git", "/repo/", repo + "/"])
        r = subprocess.run(["patch", "-p1", "-s", "-d", repo, "-i", patch])
        if r.returncode:
            print("PATCH-FAILED", patch); return 2
        suite = "n/a"
        if "--suite" in sys.argv:
            b = os.path.join(d, "b")
            r = subprocess.run("cmake -G Ninja -S %s -B %s -DCMAKE_BUILD_TYPE=RelWithDebInfo -DCMAKE_CXX_FLAGS=-Wno-error >/dev/null && cmake --build %s -j16 >/dev/null 2>&1 && ctest --test-dir %s -j8 --timeout 900 2>&1 | tail -3" % (repo, b, b, b),
                               shell=True, stdout=subprocess.PIPE, text=True)
            suite = "PASS" if "100% tests passed" in r.stdout else "FAIL: " + r.stdout.strip().replace("\n", " | ")
        env = dict(os.environ, VERIF_REPO=repo)
        t0 = time.time()
        r = subprocess.run([sys.executable, os.path.join(VERIF, "tools/check.py"), prop, tier], env=env, cwd=VERIF,
                           stdout=subprocess.PIPE, stderr=subprocess.PIPE, text=True)
        viol = [l for l in r.stdout.splitlines() if l.startswith("VIOLATION")]
        detected = r.returncode == 1 and viol
        print("%s %s %s exit=%d suite=%s wall=%.0fs" % ("DETECTED" if detected else "MISSED", os.path.basename(patch), prop, r.returncode, suite, time.time() - t0))
        for l in viol[:4]:
            print("   ", l[:300])
        if not detected:
            print(r.stderr[-1500:])
        return 0 if detected else 1
    finally:
        if "--keep" not in sys.argv:
            shutil.rmtree(d, ignore_errors=True)
            # scratch build dirs of this run
            import hashlib
            tag = hashlib.sha1(repo.encode()).hexdigest()[:8]
            for n in os.listdir(os.path.join(VERIF, "build")):
                if tag in n:
                    p = os.path.join(VERIF, "build", n); shutil.rmtree(p, ignore_errors=True) if os.path.isdir(p) else os.remove(p)


if __name__ == "__main__":
    sys.exit(main())
