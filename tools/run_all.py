#!/usr/bin/env python3
"""Run every ready check (tier from argv, default quick) sequentially; print a summary table."""
import subprocess, sys, time, os
sys.path.insert(0, os.path.dirname(os.path.abspath(__file__)))
from props import PROPS
tier = sys.argv[1] if len(sys.argv) > 1 else "quick"
only = sys.argv[2:]
rows = []
for pid in sorted(PROPS):
    if only and pid not in only: continue
    if not PROPS[pid].get("ready") and not only: continue
    t0 = time.time()
    r = subprocess.run([sys.executable, os.path.join(os.path.dirname(__file__), "check.py"), pid, tier], stdout=subprocess.PIPE, stderr=subprocess.PIPE, text=True)
    lines = [l for l in r.stdout.splitlines() if l.startswith(("VIOLATION", "KNOWN-FINDING"))]
    rows.append((pid, r.returncode, time.time() - t0, lines))
    print("%s exit=%d %.0fs %s" % (pid, r.returncode, time.time() - t0, "; ".join(l[:160] for l in lines)), flush=True)
    if r.returncode == 2: print(r.stderr[-1500:])
print("SUMMARY:", " ".join("%s=%d" % (p, rc) for p, rc, _, _ in rows))
