#!/usr/bin/env python3
"""Independently confirm a seeded change and test the checks against it.

  python3 tools/seed_verify.py <src-dir with patch.diff demo.cpp run.sh meta.json> <seed-id e.g. C09-1> [--no-suite]

In a scratch git worktree of /repo (under /tmp, removed afterwards):
  1. demo on the unmodified tree must exit 0;
  2. the patch must apply; the library + the pinned 38-test suite must build and pass with it;
  3. the demo must exit non-zero with it;
  4. the property's quick check is run against the patched tree (VERIF_REPO) and must print VIOLATION.
Kept under /verif/seeded/<seed-id>/ (patch.diff, demo, run.sh, meta.json with a "verified" block) only if 1-3 hold.
"""
import json, os, shutil, subprocess, sys, time

V = os.path.dirname(os.path.dirname(os.path.abspath(__file__)))


def sh(cmd, cwd=None, env=None, timeout=7200):
    r = subprocess.run(cmd, shell=True, cwd=cwd, env=env, stdout=subprocess.PIPE, stderr=subprocess.STDOUT, text=True, timeout=timeout)
    return r.returncode, r.stdout


def main():
    src, sid = os.path.abspath(sys.argv[1]), sys.argv[2]
    prop = sid.split("-")[0]
    if "--check-prop" in sys.argv:          # the property whose check is run, when it is not the one in the seed id
        prop = sys.argv[sys.argv.index("--check-prop") + 1]
    wt = "/tmp/sv-" + sid
    sub = os.path.relpath(src, os.path.dirname(os.path.dirname(src)))  # "out/1"
    sh("git -C /repo worktree remove --force %s" % wt)
    rc, out = sh("git -C /repo worktree add --detach %s HEAD" % wt)
    if rc:
        print(out); return 2
    res = {"at_repo_commit": sh("git -C /repo rev-parse --short HEAD")[1].strip(), "when": time.strftime("%Y-%m-%d %H:%M")}
    try:
        shutil.copytree(src, os.path.join(wt, sub))
        is_py = os.path.exists(os.path.join(src, "demo.py")) and not os.path.exists(os.path.join(src, "demo.cpp"))
        suite = "--no-suite" not in sys.argv
        cfg = "cmake -G Ninja -S . -B _b -DCMAKE_BUILD_TYPE=RelWithDebInfo -DCMAKE_CXX_FLAGS=-Wno-error" + (" -DBUILD_TESTING=OFF" if not suite else "")
        rc, out = sh(cfg + " > /dev/null", cwd=wt)
        if rc:
            print(out[-2000:]); return 2
        rc, out = sh("sh %s/run.sh" % sub, cwd=wt)
        res["demo_without_change"] = "exit %d" % rc
        if rc != 0:
            print("REJECT: demo fails on the unmodified tree\n" + out[-1500:]); res["rejected"] = "demo fails on unmodified tree"
            return 1
        rc, out = sh("git apply %s/patch.diff" % sub, cwd=wt)
        if rc:
            print("REJECT: patch does not apply\n" + out[-1500:]); return 1
        if suite:
            rc, out = sh("cmake --build _b -j8 2>&1 | tail -5 && ctest --test-dir _b -j8 --timeout 900 2>&1 | tail -4", cwd=wt)
            res["suite_with_change"] = "100% passed (38)" if "100% tests passed, 0 tests failed out of 38" in out else "FAILED: " + out[-400:]
            if "100% tests passed" not in out:
                print("REJECT: suite does not pass with the change\n" + out[-1500:]); return 1
        rc, out = sh("sh %s/run.sh" % sub, cwd=wt)
        res["demo_with_change"] = "exit %d: %s" % (rc, out.strip()[-400:])
        if rc == 0:
            print("REJECT: demo passes with the change"); return 1
        # --- our check against the patched tree
        shutil.rmtree(os.path.join(wt, "_b"), ignore_errors=True)
        env = dict(os.environ, VERIF_REPO=wt)
        t0 = time.time()
        r = subprocess.run([sys.executable, os.path.join(V, "tools/check.py"), prop, "quick"], cwd=V, env=env, stdout=subprocess.PIPE, stderr=subprocess.PIPE, text=True)
        viol = [l for l in r.stdout.splitlines() if l.startswith("VIOLATION")]
        sites = [l.split("site=")[1].split(" cases=")[0] for l in viol if "site=" in l]
        res["check_quick"] = {"exit": r.returncode, "violation_lines": len(viol), "sites": sites[:12], "wall_s": round(time.time() - t0)}
        detected = r.returncode == 1 and bool(viol)
        if not detected and "--thorough-if-missed" in sys.argv:
            r = subprocess.run([sys.executable, os.path.join(V, "tools/check.py"), prop, "thorough"], cwd=V, env=env, stdout=subprocess.PIPE, stderr=subprocess.PIPE, text=True)
            viol = [l for l in r.stdout.splitlines() if l.startswith("VIOLATION")]
            res["check_thorough"] = {"exit": r.returncode, "violation_lines": len(viol), "sites": [l.split("site=")[1].split(" cases=")[0] for l in viol if "site=" in l][:12]}
        res["detected_by_quick"] = detected
        res["checked_with_property"] = prop
        dst = os.path.join(V, "seeded", sid)
        shutil.rmtree(dst, ignore_errors=True)
        os.makedirs(dst)
        for f in os.listdir(src):
            if f in ("patch.diff", "demo.cpp", "demo.py", "run.sh", "meta.json") or f.endswith((".cpp", ".py", ".sh", ".md")):
                shutil.copy2(os.path.join(src, f), os.path.join(dst, f))
        meta = {}
        try:
            meta = json.load(open(os.path.join(src, "meta.json")))
        except Exception:
            pass
        meta["verified"] = res
        json.dump(meta, open(os.path.join(dst, "meta.json"), "w"), indent=1)
        print("%s %s quick_exit=%s sites=%s" % ("DETECTED" if detected else "MISSED", sid, res["check_quick"]["exit"], sites[:3]))
        if not detected:
            print(r.stderr[-800:])
        return 0 if detected else 3
    finally:
        sh("git -C /repo worktree remove --force %s" % wt)
        import hashlib
        tag = hashlib.sha1(wt.encode()).hexdigest()[:8]
        for n in os.listdir(os.path.join(V, "build")):
            if tag in n:
                p = os.path.join(V, "build", n)
                shutil.rmtree(p, ignore_errors=True) if os.path.isdir(p) else os.remove(p)


if __name__ == "__main__":
    sys.exit(main())
