#!/usr/bin/env python3
"""C02 driver: build half.h's two conversion functions, from the *current tree*, once per build
configuration, and compare all of them on every input.

  configurations = {g++, clang++} x {C++14, C++17, C++20} x {lookup table (links the repo's half.cpp),
                   -DIMATH_HALF_NO_LOOKUP_TABLE, IMATH_HALF_USE_LOOKUP_TABLE switched off through the
                   repo's own CMake option (second configure dir)}
                 + {gcc, clang} x {C99, C11} x {extern table, no table, cmake option off}
                 + -mf16c builds of both languages (only if the CPU has F16C)
                 + -O0 / -O3 variants
                 + -DIMATH_HALF_ENABLE_FP_EXCEPTIONS builds ("fpexc": the extra early return and the two feraiseexcept
                   calls inside imath_float_to_half) of {g++ C++14, gcc C99} x {table, no table}
  quick   : one configuration per #if branch per language per compiler family, all 2^32 + 2^16 inputs; the four fpexc
            objects on the boundary subset of float inputs (harness/c01_boundary.hpp) and all 2^16 half inputs; the
            ambient-state sweep (3 rounding modes, MXCSR DAZ / FTZ / DAZ+FTZ) on all 2^16 half inputs of every object and
            on all 2^32 float inputs of one C and one C++ software object
  thorough: the full matrix, all 2^32 + 2^16 inputs; one C and one C++ fpexc object on all 2^32 float inputs as well; the
            float-input ambient-state sweep on one software object per branch per language per compiler

Per-configuration attributes handed to the comparing program (5th column of configs.tsv):
  fpexc          compiled with -DIMATH_HALF_ENABLE_FP_EXCEPTIONS
  boundary-only  float->half is swept over the boundary subset only (not over all 2^32)
  ambient        float->half is swept over all 2^32 inputs under every non-default ambient state as well

Every configuration is harness/c02_block.c compiled into its own shared object; harness/c02_driver.cpp
dlopen()s them all and compares bitwise with the reference configuration (g++ -std=c++14 -O2, lookup
table: the repository's default build). It also checks toFloat.cpp's output == toFloat.h == definition.

Before anything is run, each object is inspected (nm / objdump) to make sure that it really selected
the #if branch its name says: the table symbol is referenced iff it is a table build, vcvtps2ph /
vcvtph2ps occur iff it is an F16C build. A configuration that is not what it claims is a machinery
failure (exit 2), not a verdict.
"""
import json, os, shutil, subprocess, sys, time
from concurrent.futures import ThreadPoolExecutor

import check
from check import BUILD, REPO, VERIF, log

CXX_OF = {"gcc": "g++", "clang": "clang++", "g++": "g++", "clang++": "clang++"}
STD_VALUE = {"c++14": "201402L", "c++17": "201703L", "c++20": "202002L", "c99": "199901L", "c11": "201112L"}
KIND = {"table": "table", "notable": "bitshift-macro", "cfgoff": "bitshift-cmake-option-off", "f16c": "f16c"}


def run(cmd, **kw):
    return subprocess.run(cmd, stdout=subprocess.PIPE, stderr=subprocess.STDOUT, text=True, **kw)


def cpu_has_f16c():
    try:
        for l in open("/proc/cpuinfo"):
            if l.startswith("flags"):
                return " f16c" in l
    except OSError:
        pass
    return False


def cfg(compiler, std, backend, opt="O2", fpexc=False, attrs=()):
    return {"compiler": compiler, "std": std, "backend": backend, "opt": opt, "fpexc": fpexc,
            "attrs": set(attrs) | ({"fpexc"} if fpexc else set()),
            "name": "%s-%s-%s%s-%s" % (compiler, std, backend, "+fpexc" if fpexc else "", opt)}


def matrix(tier, f16c):
    """First entry is the reference configuration."""
    m = [cfg("g++", "c++14", "table")]
    if tier == "quick":
        # one per #if branch per language, plus the other compiler once per language
        m += [cfg("g++", "c++14", "notable"), cfg("g++", "c++14", "cfgoff"),
              cfg("gcc", "c99", "table"), cfg("gcc", "c99", "notable", attrs=["ambient"]), cfg("gcc", "c99", "cfgoff"),
              cfg("clang++", "c++20", "notable", attrs=["ambient"]), cfg("clang++", "c++17", "table"), cfg("clang", "c11", "table")]
        if f16c:
            m += [cfg("g++", "c++14", "f16c"), cfg("gcc", "c99", "f16c")]
        for cc, std in (("g++", "c++14"), ("gcc", "c99")):
            for b in ("table", "notable"):
                m.append(cfg(cc, std, b, fpexc=True, attrs=["boundary-only"]))
        return m
    seen = {m[0]["name"]}

    def add(c):
        if c["name"] not in seen:
            seen.add(c["name"])
            m.append(c)
    backs = ["table", "notable", "cfgoff"] + (["f16c"] if f16c else [])
    for cc in ("g++", "clang++"):
        for std in ("c++14", "c++17", "c++20"):
            for b in backs:
                add(cfg(cc, std, b))
    for cc in ("gcc", "clang"):
        for std in ("c99", "c11"):
            for b in backs:
                add(cfg(cc, std, b))
    for opt in ("O0", "O3"):
        for cc, std in (("g++", "c++14"), ("clang++", "c++14"), ("gcc", "c99"), ("clang", "c99")):
            for b in ["table", "notable"] + (["f16c"] if f16c else []):
                add(cfg(cc, std, b, opt))
    # fpexc variants: imath_float_to_half does not depend on the table selection, so one C and one C++ object are swept
    # over all 2^32 float inputs (feraiseexcept makes such a sweep ~300 CPU-seconds per entry point), the other two over
    # the boundary subset
    add(cfg("g++", "c++14", "notable", fpexc=True))
    add(cfg("gcc", "c99", "table", fpexc=True))
    add(cfg("g++", "c++14", "table", fpexc=True, attrs=["boundary-only"]))
    add(cfg("gcc", "c99", "notable", fpexc=True, attrs=["boundary-only"]))
    # float-input ambient-state sweep: one software object per #if branch per language per compiler
    amb = {"g++-c++14-notable-O2", "g++-c++14-cfgoff-O2", "clang++-c++14-table-O2", "clang++-c++14-notable-O2",
           "gcc-c99-table-O2", "gcc-c99-notable-O2", "gcc-c99-cfgoff-O2", "clang-c99-table-O2", "clang-c99-notable-O2"}
    for c in m:
        if c["name"] in amb:
            c["attrs"].add("ambient")
    assert amb <= set(c["name"] for c in m)
    return m


def expected_describe(c, ):
    is_cxx = c["std"].startswith("c++")
    return "lang=%s std=%s compiler=%s optimize=%d f16c=%d use_lut=%d no_lut=%d fpexc=%d" % (
        "c++" if is_cxx else "c", STD_VALUE[c["std"]], "clang" if "clang" in c["compiler"] else "gcc",
        0 if c["opt"] == "O0" else 1, 1 if c["backend"] == "f16c" else 0,
        0 if c["backend"] == "cfgoff" else 1, 1 if c["backend"] == "notable" else 0, 1 if c["fpexc"] else 0)


class BuildError(Exception):
    pass


def build_one(c, bdir, cfg_on, cfg_off):
    """Compile one configuration into <bdir>/<name>.so; verify which branch the object selected."""
    is_cxx = c["std"].startswith("c++")
    inc = cfg_off if c["backend"] == "cfgoff" else cfg_on
    common = ["-" + c["opt"], "-g0", "-fPIC", "-I" + os.path.join(REPO, "src/Imath"), "-I" + inc]
    if c["backend"] == "notable":
        common.append("-DIMATH_HALF_NO_LOOKUP_TABLE")
    if c["backend"] == "f16c":
        common.append("-mf16c")
    if c["fpexc"]:
        common.append("-DIMATH_HALF_ENABLE_FP_EXCEPTIONS")
    src = os.path.join(VERIF, "harness", "c02_block.c")
    tu = os.path.join(bdir, c["name"] + ".tu.o")
    cmd = [c["compiler"], "-std=" + c["std"]] + (["-x", "c++"] if is_cxx else []) + common + ["-c", src, "-o", tu]
    r = run(cmd)
    if r.returncode:
        raise BuildError("compile failed: %s\n%s" % (" ".join(cmd), r.stdout[-4000:]))
    objs = [tu]
    cxx = CXX_OF[c["compiler"]]
    linker = c["compiler"]
    if c["backend"] == "table":
        # the lookup-table build links the repository's half.cpp (which #includes toFloat.h)
        ho = os.path.join(bdir, c["name"] + ".half.o")
        cmd = [cxx, "-std=" + (c["std"] if is_cxx else "c++14")] + common + ["-c", os.path.join(REPO, "src/Imath/half.cpp"), "-o", ho]
        r = run(cmd)
        if r.returncode:
            raise BuildError("compile failed: %s\n%s" % (" ".join(cmd), r.stdout[-4000:]))
        objs.append(ho)
        linker = cxx
    so = os.path.join(bdir, c["name"] + ".so")
    cmd = [linker, "-shared", "-o", so] + objs + ["-Wl,-Bsymbolic", "-Wl,-z,defs"] + (["-lm"] if c["fpexc"] else [])
    r = run(cmd)
    if r.returncode:
        raise BuildError("link failed: %s\n%s" % (" ".join(cmd), r.stdout[-4000:]))
    # which branch did the object really select? (independent of the macro ladder)
    nm = run(["nm", tu]).stdout
    refs_table = any(l.split()[-2:] == ["U", "imath_half_to_float_table"] for l in nm.splitlines() if l.strip())
    dis = run(["objdump", "-d", "--no-show-raw-insn", tu]).stdout
    uses_hw = ("vcvtps2ph" in dis, "vcvtph2ps" in dis)
    want_table = c["backend"] == "table"
    want_hw = c["backend"] == "f16c"
    if refs_table != want_table:
        raise BuildError("configuration %s: object %s the lookup table, expected the opposite" % (c["name"], "references" if refs_table else "does not reference"))
    if uses_hw != (want_hw, want_hw):
        raise BuildError("configuration %s: F16C instructions present=%s, expected %s" % (c["name"], uses_hw, want_hw))
    raises = any(l.split()[-2:] == ["U", "feraiseexcept"] for l in nm.splitlines() if l.strip())
    if raises != c["fpexc"]:
        raise BuildError("configuration %s: object %s feraiseexcept, expected the opposite" % (c["name"], "calls" if raises else "does not call"))
    c["so"] = so
    return c


def configure_off():
    """Second configure step of the repository's own CMake project with the lookup-table option off."""
    d = os.path.join(BUILD, "cfg-nolut-" + check.repo_tag())
    r = run(["cmake", "-G", "Ninja", "-S", REPO, "-B", d, "-DBUILD_TESTING=OFF", "-DCMAKE_BUILD_TYPE=RelWithDebInfo",
             "-DIMATH_HALF_USE_LOOKUP_TABLE=OFF"])
    if r.returncode:
        log(r.stdout)
        raise SystemExit(2)
    inc = os.path.join(d, "config")
    txt = open(os.path.join(inc, "ImathConfig.h")).read()
    if "#define IMATH_HALF_USE_LOOKUP_TABLE" in txt:
        log("HARNESS-ERROR: -DIMATH_HALF_USE_LOOKUP_TABLE=OFF did not switch the option off in", inc)
        raise SystemExit(2)
    return inc


def main(prop, tier, seed, replay=None):
    spec = check.PROPS[prop]
    t0 = time.time()
    with ThreadPoolExecutor(max_workers=2) as ex:
        f_on, f_off = ex.submit(check.configure_repo), ex.submit(configure_off)
        cfg_on, cfg_off = f_on.result(), f_off.result()
    if "#define IMATH_HALF_USE_LOOKUP_TABLE" not in open(os.path.join(cfg_on, "ImathConfig.h")).read():
        log("HARNESS-ERROR: default configuration does not define IMATH_HALF_USE_LOOKUP_TABLE")
        return 2
    bdir = os.path.join(BUILD, prop + ("" if not check.SCRATCH else "-" + check.repo_tag()))
    shutil.rmtree(bdir, ignore_errors=True)
    os.makedirs(bdir)
    f16c = cpu_has_f16c()
    cfgs = matrix(tier, f16c)

    # --- build everything in parallel: the configurations, the comparing program, the generator
    exe = os.path.join(bdir, "c02_driver")
    gen_exe = os.path.join(bdir, "toFloat")
    gen_out = os.path.join(bdir, "toFloat.out")

    def build_exe():
        r = run(["g++", "-O2", "-std=c++14", "-g0", "-pthread", "-I" + os.path.join(VERIF, "engine"),
                 os.path.join(VERIF, "harness", "c02_driver.cpp"), "-o", exe, "-ldl"])
        if r.returncode:
            raise BuildError("driver build failed:\n" + r.stdout[-6000:])

    def build_gen():
        r = run(["g++", "-O1", "-std=c++14", os.path.join(REPO, "src/Imath/toFloat.cpp"), "-o", gen_exe])
        if r.returncode:
            raise BuildError("toFloat.cpp build failed:\n" + r.stdout[-6000:])
        with open(gen_out, "w") as f:
            p = subprocess.run([gen_exe], stdout=f, stderr=subprocess.PIPE, text=True, timeout=120)
        if p.returncode:
            raise BuildError("toFloat generator exited with %d: %s" % (p.returncode, p.stderr[-2000:]))

    try:
        with ThreadPoolExecutor(max_workers=16) as ex:
            futs = [ex.submit(build_exe), ex.submit(build_gen)] + [ex.submit(build_one, c, bdir, cfg_on, cfg_off) for c in cfgs]
            for f in futs:
                f.result()
    except (BuildError, subprocess.TimeoutExpired) as e:
        log("BUILD FAILED:", e)
        return 2
    log("built %d configurations + driver in %.1fs" % (len(cfgs), time.time() - t0))

    lst = os.path.join(bdir, "configs.tsv")
    with open(lst, "w") as f:
        for c in cfgs:
            f.write("\t".join([c["name"], KIND[c["backend"]], c["so"], expected_describe(c), ",".join(sorted(c["attrs"])) or "-"]) + "\n")
    out = os.path.join(bdir, "report.json")
    deadline = spec.get("deadline", {}).get(tier, 240 if tier == "quick" else 900)
    deadline = max(30, deadline - (time.time() - t0))  # the build is part of the budget
    cmd = [exe, "--tier", tier, "--seed", str(seed), "--out", out, "--deadline", "%d" % deadline,
           "--configs", lst, "--gen", gen_out, "--hdr", os.path.join(REPO, "src/Imath/toFloat.h")]
    if replay:
        rj = json.load(open(replay))
        for s in sorted(set(c["stage"] for c in rj["cases"])):
            cmd += ["--stage", s]
        cmd += ["--replay-site", rj["site"]]
    p = subprocess.run(cmd, cwd=VERIF)
    if p.returncode != 0:
        log("HARNESS-ERROR: %s exited with %d" % (exe, p.returncode))
        return 2
    rep = json.load(open(out))
    rep["wall_s"] = time.time() - t0  # includes the builds
    if replay:
        want = set(c["input"] for c in rj["cases"])
        got = set(v["input"] for v in rep.get("violations", []) if v["site"] == rj["site"])
        if rep.get("violation_counts", {}).get(rj["site"]):
            print("REPLAYED: site %s fails again (%d cases; recorded inputs reproduced: %d/%d)" %
                  (rj["site"], rep["violation_counts"][rj["site"]], len(want & got), len(want)))
            for v in rep["violations"]:
                if v["site"] == rj["site"]:
                    print("  input=%s expected=%s got=%s" % (v["input"], v["expected"], v["got"]))
            return 1
        print("NOT REPRODUCED: site %s holds on the current tree" % rj["site"])
        return 0
    extra = {"configurations": [{"name": c["name"], "branch": KIND[c["backend"]], "compiled_as": expected_describe(c), "attributes": sorted(c["attrs"])} for c in cfgs],
             "f16c_cpu": f16c}
    return check.judge(prop, tier, seed, rep, extra)


if __name__ == "__main__":
    sys.exit(main("C02", sys.argv[1] if len(sys.argv) > 1 else "quick", 0))
