#!/usr/bin/env python3
"""Builds the Boost.Python `imath` module from the current working tree of the repository
(incremental ninja build in /verif/build/pyimath-<tag>[-asan|-tsan]) and returns the environment
needed to import it under /usr/bin/python3.11 (the interpreter Boost.Python 1.83 was built for).

  python3 tools/pybuild.py [--warm] [--variant asan|tsan]
"""
import hashlib, os, subprocess, sys, time, glob

VERIF = os.path.dirname(os.path.dirname(os.path.abspath(__file__)))
REPO = os.environ.get("VERIF_REPO", "/repo")
PY = "/usr/bin/python3.11"


def tag():
    return "main" if REPO == "/repo" else hashlib.sha1(REPO.encode()).hexdigest()[:8]


def build(variant="", quiet=True):
    b = os.path.join(VERIF, "build", "pyimath-" + tag() + ("-" + variant if variant else ""))
    flags = {"": "", "asan": "-fsanitize=address -fno-omit-frame-pointer", "tsan": "-fsanitize=thread -fno-omit-frame-pointer"}[variant]
    cfg = ["cmake", "-G", "Ninja", "-S", REPO, "-B", b, "-DPYTHON=ON", "-DBUILD_TESTING=OFF", "-DCMAKE_BUILD_TYPE=Release",
           "-DPython_EXECUTABLE=" + PY, "-DPython3_EXECUTABLE=" + PY, "-DPython_ROOT_DIR=/usr", "-DPython3_ROOT_DIR=/usr",
           "-DPython_FIND_STRATEGY=LOCATION", "-DPython3_FIND_STRATEGY=LOCATION"]
    if flags:
        cfg += ["-DCMAKE_CXX_FLAGS=" + flags, "-DCMAKE_SHARED_LINKER_FLAGS=" + flags, "-DCMAKE_MODULE_LINKER_FLAGS=" + flags]
    t0 = time.time()
    import fcntl
    os.makedirs(os.path.join(VERIF, "build"), exist_ok=True)
    lock = open(b + ".lock", "w")
    fcntl.flock(lock, fcntl.LOCK_EX)  # concurrent checks share this build directory
    r = subprocess.run(cfg, stdout=subprocess.PIPE, stderr=subprocess.STDOUT, text=True)
    if r.returncode:
        sys.stderr.write(r.stdout[-4000:]); raise SystemExit(2)
    r = subprocess.run(["cmake", "--build", b, "-j16"], stdout=subprocess.PIPE, stderr=subprocess.STDOUT, text=True)
    if r.returncode:
        sys.stderr.write(r.stdout[-8000:]); raise SystemExit(2)
    sys.stderr.write("pyimath%s built in %.1fs -> %s\n" % ("-" + variant if variant else "", time.time() - t0, b))
    return b


def env_for(b, variant=""):
    e = dict(os.environ)
    e["LD_LIBRARY_PATH"] = os.path.join(b, "src/Imath") + ":" + os.path.join(b, "src/python/PyImath")
    pp = [d for d in glob.glob(os.path.join(b, "python3*")) if os.path.isdir(d)]
    e["PYTHONPATH"] = ":".join(pp + [os.path.join(VERIF, "py")])
    e.pop("PYTHONHOME", None)
    if variant == "asan":
        # libstdc++ must be preloaded too: stock CPython does not link it, and ASan's __cxa_throw interceptor aborts
        # ("real___cxa_throw != 0") on the first C++ exception if it cannot find the real symbol at start-up
        e["LD_PRELOAD"] = (subprocess.check_output(["gcc", "-print-file-name=libasan.so"], text=True).strip() + ":" +
                           subprocess.check_output(["gcc", "-print-file-name=libstdc++.so.6"], text=True).strip())
        e["ASAN_OPTIONS"] = "detect_leaks=0:halt_on_error=1:abort_on_error=1"
    if variant == "tsan":
        e["LD_PRELOAD"] = (subprocess.check_output(["gcc", "-print-file-name=libtsan.so"], text=True).strip() + ":" +
                           subprocess.check_output(["gcc", "-print-file-name=libstdc++.so.6"], text=True).strip())
        for f in glob.glob(os.path.join(b, "tsan-log*")):
            os.remove(f)
        e["TSAN_OPTIONS"] = "halt_on_error=0:report_signal_unsafe=0:log_path=" + os.path.join(b, "tsan-log")
    return e


if __name__ == "__main__":
    v = ""
    if "--variant" in sys.argv:
        v = sys.argv[sys.argv.index("--variant") + 1]
    b = build(v)
    e = env_for(b, v)
    r = subprocess.run([PY, "-c", "import imath; print('imath ok', imath.V3f(1,2,3))"], env=e)
    sys.exit(r.returncode)
