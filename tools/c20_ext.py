"""Builds py/verifpool.cpp against the freshly built libPyImath (used by tools/py_driver.py via spec["ext"]),
py/verifdigest.cpp, and (plain variant only) every py/verifref_*.cpp -> <out>/verifref_<family>.so: the reference modules
of py/c20_scalar.py, which call the Imath library directly and link only against libImath and Boost.Python."""
import glob, hashlib, os, subprocess, sys
import check


def _verifref_cmds(b, out):
    """[(cmd, target)] for the reference modules that are out of date (sources, shared headers, the library's headers,
    ImathConfig.h or the command line changed since the .so was written)."""
    srcs = sorted(glob.glob(os.path.join(check.VERIF, "py", "verifref_*.cpp")))
    if not srcs:
        return []
    imlib = os.path.join(b, "src/Imath")
    deps = glob.glob(os.path.join(check.VERIF, "py", "verifref_*.hpp")) + glob.glob(os.path.join(check.REPO, "src/Imath", "*.h")) + \
        [os.path.join(b, "config", "ImathConfig.h")] + glob.glob(os.path.join(imlib, "libImath*.so*"))
    newest_dep = max(os.path.getmtime(f) for f in deps if os.path.exists(f))
    cmds = []
    for src in srcs:
        name = os.path.basename(src)[:-4]
        tgt = os.path.join(out, name + ".so")
        cmd = ["g++", "-O1", "-std=c++14", "-shared", "-fPIC", "-pthread", "-w", src, "-o", tgt,
               "-I/usr/include/python3.11", "-I" + os.path.join(check.VERIF, "py"), "-I" + os.path.join(b, "config"),
               "-I" + os.path.join(check.REPO, "src/Imath"), "-L" + imlib, "-lImath", "-lboost_python311", "-Wl,-rpath," + imlib]
        stamp = tgt + ".cmd"
        sig = hashlib.sha1(" ".join(cmd).encode()).hexdigest()
        fresh = (os.path.exists(tgt) and os.path.exists(stamp) and open(stamp).read() == sig and
                 os.path.getmtime(tgt) > max(newest_dep, os.path.getmtime(src)))
        if not fresh:
            cmds.append((cmd, tgt, stamp, sig))
    # modules whose source has been removed must not linger on the import path
    keep = {os.path.basename(s)[:-4] + ".so" for s in srcs}
    for f in glob.glob(os.path.join(out, "verifref_*.so")):
        if os.path.basename(f) not in keep:
            os.remove(f)
    return cmds


def build(b, variant=""):
    out = os.path.join(b, "verifpool")
    os.makedirs(out, exist_ok=True)
    libdir = os.path.join(b, "src/python/PyImath")
    libs = glob.glob(os.path.join(libdir, "libPyImath_Python3_11*.so"))
    if not libs:
        raise SystemExit("libPyImath not found in " + libdir)
    lib = os.path.basename(sorted(libs, key=len)[0])[3:-3]
    flags = {"": [], "asan": ["-fsanitize=address"], "tsan": ["-fsanitize=thread"]}[variant]
    cmd = ["g++", "-O2", "-std=c++14", "-shared", "-fPIC", "-pthread"] + flags + [
        os.path.join(check.VERIF, "py/verifpool.cpp"), "-o", os.path.join(out, "verifpool.so"),
        "-I/usr/include/python3.11", "-I" + os.path.join(check.REPO, "src/python/PyImath"),
        "-I" + os.path.join(b, "config"), "-I" + os.path.join(b, "src/python/config"), "-I" + os.path.join(check.REPO, "src/Imath"),
        "-L" + libdir, "-l" + lib, "-Wl,-rpath," + libdir]
    cmd2 = ["g++", "-O1", "-std=c++14", "-shared", "-fPIC", "-pthread", "-w"] + flags + [
        os.path.join(check.VERIF, "py/verifdigest.cpp"), "-o", os.path.join(out, "verifdigest.so"),
        "-I/usr/include/python3.11", "-I" + os.path.join(check.REPO, "src/python/PyImath"),
        "-I" + os.path.join(b, "config"), "-I" + os.path.join(b, "src/python/config"), "-I" + os.path.join(check.REPO, "src/Imath"),
        "-L" + libdir, "-l" + lib, "-L" + os.path.join(b, "src/Imath"), "-lboost_python311", "-Wl,-rpath," + libdir]
    jobs = [(cmd, None, None, None), (cmd2, None, None, None)]
    if variant == "":
        jobs += _verifref_cmds(b, out)     # the sanitizer variants do not run c20_scalar.py
    from concurrent.futures import ThreadPoolExecutor

    def run(job):
        c, tgt, stamp, sig = job
        if stamp and os.path.exists(stamp):
            os.remove(stamp)
        if tgt:                             # write to a private name, then rename: a concurrent check may be importing the old file
            tmp = "%s.%d.tmp" % (tgt, os.getpid())
            c = [tmp if x == tgt else x for x in c]
        r = subprocess.run(c, stdout=subprocess.PIPE, stderr=subprocess.STDOUT, text=True)
        if r.returncode == 0 and tgt:
            os.replace(tmp, tgt)
            open(stamp, "w").write(sig)
        return r
    with ThreadPoolExecutor(16) as ex:
        rs = list(ex.map(run, jobs))
    for r in rs:
        if r.returncode:
            sys.stderr.write(r.stdout[-5000:]); raise SystemExit(2)
    return out
