"""Builds py/verifpool.cpp against the freshly built libPyImath (used by tools/py_driver.py via spec["ext"])."""
import glob, os, subprocess, sys
import check


def build(b, variant=""):
    out = os.path.join(b, "verifpool")
    os.makedirs(out, exist_ok=True)
    libdir = os.path.join(b, "src/python/PyImath")
    libs = glob.glob(os.path.join(libdir, "libPyImath_Python3_11*.so"))
    if not libs:
        raise SystemExit("libPyImath not found in " + libdir)
    lib = os.path.basename(sorted(libs, key=len)[0])[3:-3]
    flags = {"": [], "asan": ["-fsanitize=address"], "tsan": ["-fsanitize=thread"]}[variant]
    cmd = ["g++", "-O2", "-std=c++14", "-shared", "-fPIC", "-pthread"] + flags + [
        os.path.join(check.VERIF, "py/verifpool.cpp"), "-o", os.path.join(out, "verifpool.so"),
        "-I/usr/include/python3.11", "-I" + os.path.join(check.REPO, "src/python/PyImath"),
        "-I" + os.path.join(b, "config"), "-I" + os.path.join(b, "src/python/config"), "-I" + os.path.join(check.REPO, "src/Imath"),
        "-L" + libdir, "-l" + lib, "-Wl,-rpath," + libdir]
    cmd2 = ["g++", "-O1", "-std=c++14", "-shared", "-fPIC", "-pthread", "-w"] + flags + [
        os.path.join(check.VERIF, "py/verifdigest.cpp"), "-o", os.path.join(out, "verifdigest.so"),
        "-I/usr/include/python3.11", "-I" + os.path.join(check.REPO, "src/python/PyImath"),
        "-I" + os.path.join(b, "config"), "-I" + os.path.join(b, "src/python/config"), "-I" + os.path.join(check.REPO, "src/Imath"),
        "-L" + libdir, "-l" + lib, "-L" + os.path.join(b, "src/Imath"), "-lboost_python311", "-Wl,-rpath," + libdir]
    from concurrent.futures import ThreadPoolExecutor
    with ThreadPoolExecutor(2) as ex:
        rs = list(ex.map(lambda c: subprocess.run(c, stdout=subprocess.PIPE, stderr=subprocess.STDOUT, text=True), [cmd, cmd2]))
    for r in rs:
        if r.returncode:
            sys.stderr.write(r.stdout[-5000:]); raise SystemExit(2)
    return out
