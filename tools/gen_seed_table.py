#!/usr/bin/env python3
"""Rewrites the table of independently seeded changes in DESIGN.md (between the SEED-TABLE markers) from seeded/*/meta.json."""
import glob, json, os, re
V = os.path.dirname(os.path.dirname(os.path.abspath(__file__)))
hist = json.load(open(os.path.join(V, "seeded", "HISTORY.json")))
rows, det, miss = [], 0, 0
def key(d):
    b = os.path.basename(d[:-1]); p, k = b.split("-"); return (p, k.startswith("r"), k)
for d in sorted(glob.glob(os.path.join(V, "seeded", "*/")), key=key):
    sid = os.path.basename(d[:-1])
    m = json.load(open(d + "meta.json")); v = m.get("verified", {})
    what = (m.get("what_it_breaks") or "").replace("\n", " ").replace("|", "/")
    if len(what) > 200: what = what[:197] + "..."
    sites = (v.get("check_quick") or {}).get("sites", [])[:2]
    ok = v.get("detected_by_quick")
    det += bool(ok); miss += (not ok)
    rows.append("| %s | %s | %s | %s |" % (sid, what, ", ".join("`%s`" % s.replace("|", "/") for s in sites) if ok else "**not detected**", hist.get(sid, ("caught as first built by the check of %s: %s" % (v.get("checked_with_property"), m["cross_property_note"])) if m.get("cross_property_note") else "caught by the quick tier as first built")))
table = "| seed | what it breaks (author's words, abridged) | first sites reported by the quick check | history |\n|---|---|---|---|\n" + "\n".join(rows)
summary = "%d seeded changes; %d detected by the quick tier of their property, %d not; %d of them were missed by the first version of a check and led to a strengthening." % (det + miss, det, miss, len(hist))
p = os.path.join(V, "DESIGN.md")
s = open(p).read()
s = re.sub(r"<!-- SEED-TABLE-BEGIN -->.*<!-- SEED-TABLE-END -->", "<!-- SEED-TABLE-BEGIN -->\n" + summary + "\n\n" + table + "\n<!-- SEED-TABLE-END -->", s, flags=re.S)
open(p, "w").write(s)
print(summary)
