#!/usr/bin/env python3
"""Re-run the quick check against seeds that are already filed under seeded/<id>/ and refresh the "verified" block of their
meta.json (used after a strengthening):   python3 tools/seed_recheck.py C10-u2 C13-u1 ..."""
import json, os, subprocess, sys, time
V = os.path.dirname(os.path.dirname(os.path.abspath(__file__)))
rc = 0
for sid in sys.argv[1:]:
    d = os.path.join(V, "seeded", sid)
    m = json.load(open(os.path.join(d, "meta.json")))
    v = m.setdefault("verified", {})
    prop = v.get("checked_with_property", sid.split("-")[0])
    r = subprocess.run([sys.executable, os.path.join(V, "tools/mutant.py"), os.path.join(d, "patch.diff"), prop, "quick"], stdout=subprocess.PIPE, stderr=subprocess.STDOUT, text=True)
    first = r.stdout.strip().splitlines()[0] if r.stdout.strip() else "??"
    sites = [l.split("site=")[1].split(" cases=")[0] for l in r.stdout.splitlines() if "site=" in l]
    det = first.startswith("DETECTED")
    v["detected_by_quick"] = det
    v["check_quick"] = {"exit": 1 if det else 0, "violation_lines": len(sites), "sites": sites[:12], "rechecked": time.strftime("%Y-%m-%d %H:%M")}
    v["at_repo_commit"] = subprocess.check_output(["git", "-C", "/repo", "rev-parse", "--short", "HEAD"], text=True).strip()
    json.dump(m, open(os.path.join(d, "meta.json"), "w"), indent=1)
    print(first[:200]); rc |= (not det)
sys.exit(rc)
