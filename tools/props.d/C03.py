# C03 spec (see tools/props.py)
SPEC = {
        "ready": True,
        "sources": ["c03.cpp", "c03_largestack.cpp"], "lib": ["half.cpp"],
        "technique": "exhaustive enumeration of all 2^16 half patterns (all 2^32 ordered pairs for arithmetic in the thorough tier) "
                     "against definition-level models",
        "level_text": "Every half bit pattern is run through the classification predicates, unary minus, round(n) for sixteen n, the stream "
                      "operators (one value per stream, and all finite values through one stream in sequence) and eighteen halfFunction domains x five "
                      "instantiations (float, uint32_t, half, double), in the default build and in the IMATH_HAVE_LARGE_STACK build of halfFunction.h; every numeric_limits<half> value member and HALF_* macro is "
                      "compared with what a scan of all 65536 patterns through the library's own conversion finds, and digits10 / max_digits10 "
                      "are decided by brute force over every decimal of that many digits / every finite half. Compound arithmetic is compared "
                      "with one IEEE single operation followed by the independent reference encoder: quick = all 2^16 left operands x ~1900 "
                      "boundary half operands and x 4096 boundary float operands x four operators; thorough = all 2^32 ordered pairs x four "
                      "operators; += and -= with float operands aimed at the result's rounding boundaries (every finite left operand x the midpoints "
                      "between adjacent halves [quick: those next to the boundary patterns, thorough: all] x {the midpoint, the floats either side}). "
                      "NaN results are decided bitwise where one IEEE operation fixes them (one NaN operand, invalid operations) and up to the choice "
                      "of operand where it does not (two NaN operands). All of these spaces are finite and enumerated completely.",
        "level_note": "float right-hand sides are a boundary alphabet (every exponent x boundary significands), not all 2^32; the reference "
                      "model halfref.hpp is self-checked in C01; x86-64 SSE float arithmetic is trusted to be IEEE.",
        "deadline": {"quick": 240, "thorough": 900},
        "rule": "states = patterns / operand pairs / table entries enumerated; transitions = operation results compared with the model; "
                "non-trivial = cases that by a predicate on the input fall in a non-default class: non-normal classes, rounding ties / up / "
                "down / overflow-truncation in round(n), subnormal and signed-zero text, arithmetic results that are NaN, overflow to "
                "infinity, subnormal, an exact tie in the final rounding or zero from non-zero operands, halfFunction entries outside the "
                "domain / at its endpoints / non-finite (classes named *.generic excluded)",
        "assumptions": ["reference binary16 model engine/halfref.hpp (self-checked on all decision boundaries by C01)"],
    }
