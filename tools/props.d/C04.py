# C04 spec (see tools/props.py)
SPEC = {
        # both tiers run to completion on the unchanged tree; the only violation is the genuine Shear6 operator<< defect
        # (site "Shear6::operator<<.tokens.fused-yz-yx"), see the C04 report
        "ready": True,
        "sources": ["c04_main.cpp", "c04_vec2i.cpp", "c04_vec2f.cpp", "c04_vec3i.cpp", "c04_vec3f.cpp", "c04_vec4i.cpp", "c04_vec4f.cpp",
                    "c04_color3.cpp", "c04_color4.cpp", "c04_shearquat.cpp", "c04_m22m33.cpp", "c04_m44.cpp",
                    "c04_conv_vec2.cpp", "c04_conv_vec3.cpp", "c04_conv_vec4.cpp", "c04_conv_misc.cpp", "c04_stream.cpp", "c04_alias.cpp", "c04_consteval.cpp", "c04_interop_traits.cpp"],
        # the C++23 `if consteval` branches of the const operator[] exist only at this language level
        "source_flags": {"c04_consteval.cpp": ["-std=c++2b"]},
        "lib": ["half.cpp"],
        "technique": "exhaustive enumeration of the configuration product (class template x element type x operator x spelling) "
                     "over deviation-bounded operand alphabets, against the scalar operation of the element type compared bitwise",
        "level_text": "Every operator, predicate, accessor, converting/interop constructor and stream inserter that the headers provide for "
                      "Vec2/3/4, Color3/4, Shear6, Quat and Matrix22/33/44 is instantiated for every element type the headers define a typedef for "
                      "(generated from preprocessor tables, about 1,500 operator instances) and run on the real code over a finite, completely "
                      "enumerated operand space: three generic tuples of distinct primes (self-checked to distinguish every wrong pairing of slots), "
                      "every single slot x every ordered pair of boundary values with the other slots generic, and every pair of slots x a special-value "
                      "set (thorough: the full boundary alphabet, and for N<=4 all slots at once). Each result slot is compared bitwise with the C++ scalar "
                      "operation of the element type on the corresponding components; predicates are compared with their documented definition on inputs "
                      "where it is decided exactly (including a negative tolerance and a NaN / infinity in one slot, decided by IEEE rules); layout by address identities; text by "
                      "tokenisation under the product of stream flags {floatfield/precision | basefield x showbase} x {unset,left,right} x showpos x uppercase with generic, large, tiny "
                      "and special (-0, inf, NaN, denormal) components; the interop constructors/assignments by the complete static truth table over foreign shapes "
                      "(member count, member type, size, subscript length, C-array length).",
        "level_note": "Bounded: operands deviate from a generic tuple in at most two slots (all slots only from the 5-value special set, N<=4, thorough tier); "
                      "a defect that needs three simultaneous special components in a wider aggregate is outside the bound. Integer operand combinations whose scalar "
                      "operation is undefined behaviour in C++ are excluded. One compiler (g++ -O2 -std=c++14), default configuration.",
        "deadline": {"quick": 200, "thorough": 840},
        "rule": "complete enumeration, per (class template, element type, operator, spelling), of {generic prime tuples; each slot x B(T)^2; each slot pair x S(T)^4 "
                "(thorough: B(T)^4, plus all slots x S(T)^(2N) for N<=4)}; non-trivial = the case, by a predicate on its operands/inputs, has a NaN / infinite / "
                "negative-zero / denormal / extreme operand, makes a short or unsigned char result wrap, divides a float by zero, perturbs exactly one slot by 1 ulp "
                "or to a tolerance threshold (below / at / above), converts with narrowing, truncation or a special value, goes through a foreign interop type, or "
                "prints under a non-default stream state or with a special component, compares mixed element types on a value one of them cannot represent, compares approximately "
                "with a negative tolerance or a NaN / infinite slot, or is a cell of the interop truth table (classes counted separately; 'arith.generic' excluded)",
        "assumptions": ["operands deviate from a generic tuple in at most two slots at a time (quick) - see level_note",
                        "the C++ scalar operation of the element type (for half: float arithmetic rounded once to half) is the definition of 'the scalar operation'"],
    }
