# C18 spec (see tools/props.py)
SPEC = {
        "ready": True,
        "sources": ["c18.cpp", "c18_gen.cpp"],
        "lib": ["ImathRandom.cpp"],
        # Rand32::_state / Rand48::_state are private: the mantissa enumeration writes the state directly
        "flags": ["-fno-access-control"],
        "technique": "explicit-state search over call histories of the rand48 family in lock-step with glibc and the POSIX recurrence; exhaustive enumeration of the Rand32 mantissa space",
        "level_text": "From every initial state of the alphabet (caller-owned 48-bit state with exactly one non-zero 16-bit word - 3 x 65535, exhaustive - plus 2^k, 2^k-1, the multiplier's carry boundaries, each paired with srand48 seeds from B(long)) every call sequence of length 1..4 over {erand48, nrand48, drand48, lrand48, srand48} is executed on the real code in lock-step with glibc's functions of the same names and with the POSIX recurrence; values, successor states and the independence of the two states are compared at every step and both hidden states are read back completely at the end of every sequence. All 2^23 mantissa patterns of Rand32::nextf are enumerated by writing the private state; Rand32/Rand48 purity, reference sequences and ranges are checked on 4111 seeds x 64 draws; the samplers (V2, V3, V4 x float, double) on the same seeds, and driven by a scripted generator that replays every tuple over a boundary alphabet (zero length, squares that underflow, components exactly +-1 and +-(1-ulp)); nextf(a,b) on all 2^23 values of f x 16 ranges (Rand32) and on the all-zeros / all-ones / single-word successor states (Rand48); thorough: ALL 2^32 states of Rand32 x {nextb, nexti, nextf(a,b)} and 2^30 states spread over the whole state space x one draw of each V3f sampler.",
        "level_note": "Bounded: the 2^48 state space is covered by the stated alphabet and by one orbit (2^22 states quick, 2^28 thorough), not completely. Trusts glibc's rand48 family (cross-checked against the written-out recurrence at every step).",
        "deadline": {"quick": 240, "thorough": 900},
        "rule": "states = initial (U, seed) pairs + packing states + orbit states + Rand32 low-state patterns + seeds; transitions = generator calls compared with the reference models; non-trivial = initial states with a single non-zero word, boundary states x every seed, negative / wider-than-32-bit seeds, top-nibble-nonzero packing states, extreme mantissas, a>b and a==b ranges, f = 0 and f = max, scripted tuples of length zero / with underflowing squares / with unit components, Rand32 states with the unused upper bits set (classes counted by predicates on the input)",
        "assumptions": ["LP64 (long is 64-bit); glibc rand48 family as reference, cross-checked against the POSIX recurrence",
                        "Rand32::init / Rand48::init are pinned to the formulas in ImathRandom.h (reproducibility of seeded sequences)"],
    }
