# C13 spec (see tools/props.py)
SPEC = {
        "ready": False,
        "sources": ["c13.cpp", "c13_xform.cpp", "c13_closest.cpp",
                    "c13_sets_short.cpp", "c13_sets_int.cpp", "c13_sets_int64.cpp", "c13_sets_float.cpp", "c13_sets_double.cpp",
                    "c13_hist_short.cpp", "c13_hist_int.cpp", "c13_hist_int64.cpp", "c13_hist_float.cpp", "c13_hist_double.cpp"],
        "lib": [],
        "deadline": {"quick": 200, "thorough": 850},
    }
