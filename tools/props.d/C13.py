# C13 spec (see tools/props.py)
SPEC = {
        "ready": True,
        "sources": ["c13.cpp", "c13_xform.cpp", "c13_closest.cpp",
                    "c13_sets_short.cpp", "c13_sets_int.cpp", "c13_sets_int64.cpp", "c13_sets_float.cpp", "c13_sets_double.cpp",
                    "c13_hist_short.cpp", "c13_hist_int.cpp", "c13_hist_int64.cpp", "c13_hist_float.cpp", "c13_hist_double.cpp"],
        "lib": [],
        "technique": "exhaustive small-scope enumeration (every lattice box incl. inverted x every lattice point / box pair) against a bitset-of-points oracle, "
                     "explicit-state BFS over extendBy histories on the real objects, exact integer/rational corner images for the four transform overloads",
        "level_text": "Every Box/Interval over the coordinates {0..3} per axis (inverted ones included) and the canonical empty/infinite boxes, for the element types "
                      "short/int/int64/float/double and for Interval, Box<Vec2>, Box<Vec3>, Box<Vec4> and the generic Box template instantiated in 2-D/3-D through a harness "
                      "vector type, is run through every query against the set of lattice points it contains; extendBy(point)/extendBy(box) histories are explored breadth-first "
                      "on the real objects until no new state appears (so all history lengths are covered for the alphabet); clip/closestPoint* are compared with the exact nearest "
                      "point; transform/affineTransform (4 overloads, out-parameter forms pre-filled) are compared with the exact images of the 8 corners.",
        "level_note": "Bounded scope: coordinates are small integers (exactly representable in every element type), so rounding inside Box itself is not exercised; transforms are "
                      "checked for integer affine matrices (exact) and small-integer projective matrices with w>0 on the box (2 ulp). extendBy minimality is asserted from "
                      "default/makeEmpty/non-inverted boxes with non-inverted or canonical-empty arguments only.",
        "deadline": {"quick": 200, "thorough": 850},
        "rule": "exhaustive: all 16^D (min,max) boxes x all 6^D points, all ordered box pairs, BFS over extendBy to a fixpoint, all listed matrices x 1000 boxes; non-trivial = by a "
                "predicate on the input the box is inverted / flat / a single point / canonical empty or infinite, the pair has an inverted operand or touches only on the boundary or "
                "overlaps, majorAxis has a tie, the extendBy step starts from the empty set / lowers min / raises max / has an empty argument, the point is outside / on the boundary "
                "(clip, closestPointOnBox: strictly inside, on the surface, equidistant faces, empty box), the matrix block is zero/sparse/full or has a negative entry (Arvo's a>=b "
                "branch), the matrix is projective, the input box is empty or infinite ('.generic' classes excluded)",
        "assumptions": ["lattice coordinates are small integers, exactly representable in every element type",
                        "projective matrices are restricted to w > 0 on all corners of the box"],
    }
