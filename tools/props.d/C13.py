# C13 spec (see tools/props.py)
SPEC = {
        "ready": True,
        "sources": ["c13.cpp", "c13_xform.cpp", "c13_xform_int.cpp", "c13_xform_tiny.cpp", "c13_dirty.cpp", "c13_closest.cpp", "c13_closest_half.cpp",
                    "c13_sets_half.cpp", "c13_hist_half.cpp", "c13_ext_int.cpp", "c13_ext_fp.cpp", "c13_ext_half.cpp",
                    "c13_sets_short.cpp", "c13_sets_int.cpp", "c13_sets_int64.cpp", "c13_sets_float.cpp", "c13_sets_double.cpp",
                    "c13_hist_short.cpp", "c13_hist_int.cpp", "c13_hist_int64.cpp", "c13_hist_float.cpp", "c13_hist_double.cpp"],
        "lib": ["half.cpp"],
        "technique": "exhaustive small-scope enumeration (every lattice box incl. inverted x every lattice point / box pair) against a bitset-of-points oracle, "
                     "exhaustive enumeration of boxes whose bounds sit at the ends of the element type's range against per-axis predicates on exact wide values, "
                     "explicit-state BFS over extendBy histories on the real objects, exact integer/rational corner images for the four transform overloads",
        "level_text": "Every Box/Interval over the coordinates {0..3} per axis (inverted ones included) and the canonical empty/infinite boxes, for the element types "
                      "short/int/int64/float/double/half and for Interval, Box<Vec2>, Box<Vec3>, Box<Vec4> and the generic Box template instantiated in 2-D/3-D through a harness "
                      "vector type, is run through every query against the set of lattice points it contains; every box whose per-axis (min,max) is one of (LOWEST,MAX), (LOWEST,1), "
                      "(0,MAX), (0,1), (MAX,LOWEST), (MAX,MAX) (infinite on some axes only, one bound at the end of the range, canonically inverted on one axis) is run through "
                      "isInfinite/isEmpty/hasVolume/intersects(point)/intersects(box)/extendBy and, where the arithmetic is defined, size/center/majorAxis against per-axis predicates "
                      "on exact wide values; every box whose per-axis (min,max) has both bounds large and of the same sign ((MAX-1,MAX), (MAX/2+1,MAX), (LOWEST,LOWEST/2-1), (LOWEST,LOWEST+1), (MAX/4,MAX/2), (LOWEST/2,LOWEST/4), (MAX,MAX), (LOWEST,LOWEST), (0,1); also Interval<signed char>/Interval<unsigned char>) is run through the predicates, membership, size, majorAxis and - wherever max+min is representable in the element type or is formed in int by integral promotion (Interval of short / char: every pair) - center; extendBy(point)/extendBy(box) histories are explored breadth-first on the real objects until no new state appears (so all history lengths "
                      "are covered for the alphabet); clip/closestPoint* are compared with the exact nearest point; transform/affineTransform (4 overloads, out-parameter forms "
                      "pre-filled, float/double boxes and Box3i/Box3s) are compared with the exact images of the 8 corners on non-negative and on signed (negative / zero-straddling) "
                      "boxes, for affine matrices and for projective matrices with w>0, w<0 and mixed-sign w on the corners; the two transform overloads also for projective matrices whose perspective entries are 2^-K times {-1,0,1,2} (so small that their squares underflow to zero in the matrix element type; controls with a representable square) on boxes scaled by 2^K on all axes or on the axes of a mask only, where the corner images are the small-integer ones times powers of two. Added for the stale-object class of seeded changes: makeEmpty, makeInfinite, assignment from Box(point) / Box(min,max), extendBy after makeEmpty and the result argument of transform / affineTransform on boxes previously holding a regular, an inverted, the infinite or an all-NaN box must leave what they leave in a fresh box, in every slot.",
        "level_note": "center() is not called where max+min is not representable in the arithmetic the type performs (int/int64: signed overflow; Box<VecN<short>>: the sum is narrowed to short by Vec::operator+; floating types: the sum rounds to infinity). Bounded scope: coordinates are small integers or the ends of the element type's range (exactly representable in every element type), so rounding inside Box "
                      "itself is exercised only where size() of a partially infinite float box overflows to +inf and where center() rounds 1+LOWEST; transforms are checked for integer "
                      "affine matrices (exact, also for integer boxes) and small-integer projective matrices with w != 0 on all corners of the box (2 ulp; 'contains the image of every "
                      "point' only where w has one sign on the box); integer boxes under projective matrices only where the corner images are integers (w = +-2). Integer boxes with "
                      "non-integer matrices are outside the statement (the library truncates the matrix entries to S). size()/majorAxis() of an integer box whose max-min is not "
                      "representable and center() of an empty box are never called (undefined). extendBy minimality is asserted from default/makeEmpty/non-inverted boxes with "
                      "non-inverted or canonical-empty arguments only. For half the ends of the range are written as bit patterns (0x7bff/0xfbff), not read from numeric_limits<half>.",
        "deadline": {"quick": 240, "thorough": 850},
        "rule": "exhaustive: all 16^D (min,max) boxes x all 6^D points, all ordered box pairs, all 6^D extreme-bound boxes x 6^D extreme points and all their ordered pairs and extendBy "
                "steps, BFS over extendBy to a fixpoint, all listed matrices x 1000 (2000 for integer boxes) boxes; non-trivial = by a "
                "predicate on the input the box is inverted / flat / a single point / canonical empty or infinite / infinite on some axes only / has only min or only max at the end of "
                "the range / is canonically inverted on some axes only, size() is not representable, max+min lies beyond the element type's range (judged through int promotion / not called) or is large and representable, the pair has an inverted operand or touches only on the boundary or "
                "overlaps, majorAxis has a tie, the extendBy step starts from the empty set / lowers min / raises max / moves a bound to LOWEST or MAX / has an empty argument, the "
                "point is outside / on the boundary (clip, closestPointOnBox: strictly inside, on the surface, equidistant faces, empty box), the matrix block is zero/sparse/full or "
                "has a negative entry (Arvo's a>=b branch), the box has a negative coordinate / straddles zero / is an integer box, the matrix is projective with w positive / "
                "negative / of mixed sign on the corners, the perspective entries are tiny with the sum of their squares underflowing to zero / representable, only some box axes are large, the input box is empty or infinite, the element type is half, the box an operation overwrites previously held a regular / inverted / infinite / NaN box ('.generic' classes excluded)",
        "assumptions": ["lattice coordinates are small integers, exactly representable in every element type",
                        "projective matrices are restricted to w != 0 on all corners of the box (the corner images do not exist otherwise)",
                        "integer boxes (Box3i/Box3s) are transformed by integer-valued matrices only"],
    }
