# C16 spec (see tools/props.py)
SPEC = {
        "ready": True,
        "sources": ["c16.cpp", "c16_b.cpp"], "lib": [],
        "technique": "exhaustive enumeration of a dyadic frustum / camera / object alphabet; equality on the exact orthographic sub-alphabet, a-priori rounding bounds and plane margins elsewhere",
        "level_text": "All 5475 frusta of the alphabet (both projection kinds, asymmetric windows, far/near from 2 to 2^20) are run through every Frustum member (projectionMatrix, projectPointToScreen, projectScreenToRay, the depth and Z mappings, radii, fov/aspect, window, modifyNearAndFar, set(fov,aspect), planes) and, combined with every camera of 24 cube rotations x lattice translations x uniform scales, through planes(M) and FrustumTest on point/sphere/box lattices that straddle each of the six planes; the oracle is the camera-space definition of the frustum evaluated in long double on the pulled-back actual inputs. On the orthographic sub-alphabet with power-of-two extents every relation is checked as an equality.",
        "level_note": "Bounded to the stated alphabet; outside the exact sub-alphabet relations are checked to 8 eps (orthographic), 8 eps far/near (perspective depth), and points/objects whose decisive plane inequality lies within the stated margin are unconstrained; box/sphere culling is checked in the promised direction only (touching => visible, point outside => not completely contained).",
        "deadline": {"quick": 200, "thorough": 840},
        "rule": "exhaustive enumeration of frusta x cameras x test objects on the real code; non-trivial = frustum is dyadic-exact / orthographic / perspective / asymmetric, "
                "point is inside / outside / exactly on a plane / behind the camera, sphere or box touches the region or has a point outside it, Z round trip lost one unit to truncation",
        "assumptions": ["long double has a 64-bit significand (x86-64); every frustum parameter of the alphabet is a dyadic rational with few bits"],
    }
