SPEC = {
    "ready": True,
    "custom": "py_driver", "script": "c20_explore.py", "ext": "c20_ext", "engine": "py-explorer",
    "deadline": {"quick": 420, "thorough": 2400},
    # thorough: + free-running threads pass in the plain build and under ThreadSanitizer (sampling; reported separately)
    # scalar: the clause "the scalar bindings return what the C++ library returns" (py/c20_scalar.py against py/verifref_*.cpp)
    "variants": {"quick": [["", "c20_scalar.py", "scalar:"]],
                 "thorough": [["", "c20_scalar.py", "scalar:"], ["", "c20_threads.py", "threads:"], ["tsan", "c20_threads.py", "tsan:"]]},
    "technique": "stateless exploration of every (partition, piece order, worker-id map) schedule of the real task bodies under a scripted WorkerPool, differential against the pool-free run",
    "rule": "entry points discovered by introspection of the built module; for each: every plain/masked(/unmasked-length) combination of its array arguments x every partition of [0,208) by <=2 (quick) / <=3 (thorough) cuts from the boundary alphabet {1,2,104,199,200,201,206,207} x every order of the pieces x worker-id maps (all maps for reductions); non-trivial = schedule in which the pool was actually entered (dispatch counter), masked argument kinds, reference-raising cases, footprint pieces, scalar comparisons (counted separately)",
    "level_text": "Every exported array entry point is executed on the real module under every schedule of the stated bounded space (element-granularity pre-emption = partition/order/tid), and compared bit-for-bit with the pool-free run, with a single-piece footprint oracle and a per-element scalar oracle; this is an exhaustive exploration of the scheduler nondeterminism the WorkerPool seam exposes, which is all the nondeterminism there is because task bodies contain no synchronisation.",
    "level_note": "Assumes task bodies are free of synchronisation operations (true at this commit: no mutex/atomic in PyImath task code), so element-granularity schedules cover sequentially-consistent interleavings; intra-element data races are only looked for by the separate free-running threads pass (thorough, TSan), which samples real schedules and is reported separately. Values come from a fixed small dyadic alphabet, not all floats.",
    "assumptions": ["array length 208 (just above the 200-element dispatch threshold)", "Boost.Python docstring signatures describe the overloads"],
}
