# C01 spec (see tools/props.py)
SPEC = {
        "ready": True,
        "sources": ["c01.cpp", "c01_fpexc.cpp", "c01_nolut.cpp"], "lib": ["half.cpp"],
        "technique": "exhaustive enumeration of all 2^32 + 2^16 bit patterns against a definition-level binary16 model and the F16C hardware",
        "level_text": "Every one of the 2^16 half and 2^32 float bit patterns is run through the real conversion code (C functions, C++ constructor, operator=(float) and cast, round trip), under the default floating-point state and again under each non-default rounding mode and each MXCSR denormal mode (DAZ, FTZ, DAZ+FTZ), and compared with an independent definition-level model of binary16 round-to-nearest-even and with the CPU's F16C converter; the input space is finite and is enumerated completely in the quick tier, so this decides the property for the default build configuration. The IMATH_HALF_ENABLE_FP_EXCEPTIONS variant of the same code is compiled in a second translation unit and swept as well (quick: the boundary subset of 679808 inputs around every rounding boundary, every exponent and every literal threshold; thorough: all 2^32), bits against the same model and FE_OVERFLOW / FE_UNDERFLOW against the documentation, per input. The IMATH_HALF_NO_LOOKUP_TABLE variant (the table-free shift/renormalise half->float body that the default build never executes) is compiled in a third translation unit: all 2^16 half patterns through the C function, the C++ cast and both round trips, and the float->half boundary subset through the three routes, each under the seven ambient states.",
        "level_note": "Trusts the reference model (self-checked against a binary-search formulation on all decision boundaries), x86-64 long double/double arithmetic and, where present, the F16C instructions; covers the repository's default configuration only (other back-ends: C02).",
        "deadline": {"quick": 240, "thorough": 900},
        "rule": "exhaustive enumeration of all 2^16 half and all 2^32 float bit patterns on the real conversion code "
                "(C functions, C++ constructor / operator=(float) / cast) under seven ambient floating-point states, plus the FP-exceptions and the no-lookup-table build variants; non-trivial = input is, by a predicate on the input bits, an exact "
                "tie, has a subnormal result, lies within the overflow [65504,65536] or flush [2^-25,2^-24] windows, or is a NaN "
                "(classes counted separately; 'generic' excluded)",
        "assumptions": ["long double has a 64-bit significand (x86-64), so every float, half value and midpoint is exact in the oracle",
                        "harness compiled with the repository's default configuration (lookup table) plus the IMATH_HALF_ENABLE_FP_EXCEPTIONS and IMATH_HALF_NO_LOOKUP_TABLE variants; the F16C back-end and the C API are C02"],
    }
