# C14 spec (see tools/props.py)
SPEC = {
        "ready": False,
        "sources": ["c14.cpp", "c14_f.cpp", "c14_d.cpp"],
        "lib": [],
        "deadline": {"quick": 200, "thorough": 850},
    }
