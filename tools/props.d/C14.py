# C14 spec (see tools/props.py)
SPEC = {
        "ready": True,
        "sources": ["c14.cpp", "c14_f.cpp", "c14_d.cpp"],
        "lib": [],
        "technique": "exhaustive enumeration of (box, origin, direction) over integer lattices and over a power-of-two boundary alphabet against an exact slab test "
                     "(integers / cross-multiplied fractions, exact in long double on the power-of-two alphabet)",
        "level_text": "intersects(box,ray), intersects(box,ray,ip) and findEntryAndExitPoints are run on every box with (min,max) in {0..3} per axis (flat and inverted included), "
                      "every origin in {-1..4}^3 and every non-zero unnormalised direction in {-2..2}^3 (thorough: {0..4}, {-2..6}^3, {-3..3}^3), float and double, and on the extreme "
                      "alphabet of direction components {0, +-denorm_min, +-min, +-2^-100, +-1, +-2^100, +-max}; the truth value must equal the exact slab test, reported points must be in "
                      "the box, on its surface (or equal to the origin when it is inside) and within 2*eps*M of the exact point.",
        "level_note": "Bounded scope: small-integer and power-of-two coordinates only. Cases of the extreme alphabet in which a slab parameter t underflows (0 < |t| < min) are outside the "
                      "checked domain and are counted; cases in which a parameter exceeds the largest finite value are checked and reported under their own '.some-t-overflows' / "
                      "'.every-t-overflows' sites.",
        "deadline": {"quick": 200, "thorough": 850},
        "rule": "exhaustive product of the box, origin and direction alphabets, 3 entry points, float and double; non-trivial = by the exact oracle on the input: box inverted or flat, "
                "origin inside, hit from outside, box behind the origin (line hits, ray misses), single contact point (grazing edge/corner/face), a zero direction component, "
                "a slab parameter beyond the largest finite value on some / on every axis ('miss.generic' excluded)",
        "assumptions": ["zero direction vectors are outside the property's domain and are excluded",
                        "long double has a 64-bit significand (x86-64): the power-of-two alphabet's cross products are exact"],
    }
