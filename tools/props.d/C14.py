# C14 spec (see tools/props.py)
SPEC = {
        "ready": True,
        "sources": ["c14.cpp", "c14_f.cpp", "c14_d.cpp", "c14_max_f.cpp", "c14_max_d.cpp", "c14_guard_f.cpp", "c14_guard_d.cpp", "c14_ovf_f.cpp", "c14_ovf_d.cpp"],
        "lib": [],
        "technique": "exhaustive enumeration of (box, origin, direction) over integer lattices and over a power-of-two boundary alphabet against an exact slab test "
                     "(integers / cross-multiplied fractions, exact in long double on the power-of-two alphabet, "
                     "in the numbers a*max+b for box faces at +-numeric max, in __int128 for the guard-boundary alphabet)",
        "level_text": "intersects(box,ray), intersects(box,ray,ip) and findEntryAndExitPoints are run on every box with (min,max) in {0..3} per axis (flat and inverted included), "
                      "every origin in {-1..4}^3 and every non-zero unnormalised direction in {-2..2}^3 (thorough: {0..4}, {-2..6}^3, {-3..3}^3), float and double, and on the extreme "
                      "alphabet of direction components {0, +-denorm_min, +-min, +-2^-100, +-1, +-2^100, +-max}; the truth value must equal the exact slab test, reported points must be in "
                      "the box, on its surface (or equal to the origin when it is inside) and within 2*eps*M of the exact point. Added after the audit, same three entry points and checks, "
                      "each under its own site suffix: (max-face) every box with per-axis (min,max) in {(-W,W),(1,W),(-W,1),(0,1),(W,-W),(W,W)} (thorough +(-1,1),(-W,-W),(1,-W)), W = numeric max - "
                      "makeInfinite(), makeEmpty(), half spaces, slabs - x origins {-1,0,2}^3 x directions {-2..2}^3 (thorough {-3..3}^3); (signed) every (min,max) in {-2..1} per axis x origins "
                      "{-3..2}^3 x directions {-1,0,1}^3 (thorough {-2..2}^3); (negzero) boxes/origins/directions over {-1,0,1} with every choice of zero components passed as -0.0; "
                      "(guard) origin 0, faces E,E+1 (E = fl(max*3/4)), max-ulp, max (thorough also E-1, max-2ulp) and direction components 0,+-3/4,+-(1-eps/2),+-1,+-(1+eps) (thorough +-3/2): the "
                      "operands of every overflow guard |face-origin| < max*|dir| are equal or one ulp apart. "
                      "(overflow-fallback) elongated boxes with per-axis (min,max) in {(0,2),(0,8),(4,8),(-8,-2)}s (thorough +(2,2),(-2,4)) x origins {-9,-1,0,1,3,6,9}^3 s (thorough +-5,4) x direction components "
                      "{0,+-denorm_min,+-min,+-2^-30,+-1}, s in {1, 2^(emax-28)}; in the overflow regimes of this, of the extreme and of the guard alphabet the three truth values are additionally compared with an exact "
                      "evaluation of the library's documented fallback design (an axis whose slab quotient exceeds max is handled as parallel by findEntryAndExitPoints; intersects saturates the parameter to max), "
                      "sites '<entry point>.overflow-regime.vs-documented-fallback'; the max-face alphabet has no case in an overflow regime (|dir| >= 1, finite differences).",
        "level_note": "Bounded scope: small-integer and power-of-two coordinates only. Cases of the extreme alphabet in which a slab parameter t underflows (0 < |t| < min) are outside the "
                      "checked domain and are counted, except those in which no underflowing parameter can be binding (tin >= min resp. tout <= -min, or a zero direction component already decides "
                      "'miss'), which are judged under '.t-underflows-on-non-binding-axis' sites, and those with an exact hit and no parameter beyond max, for which only 'an exact hit is reported as a hit' is "
                      "demanded (rounding is monotone; '.truth.t-underflows.exact-hit' sites) and, for the reported points, 'in the closed box', 'on its surface' / 'ip == origin when inside' and the accuracy bound of the ordinary regime widened by denorm_min*|dir_j| (a subnormal parameter carries an absolute error; '.t-underflows' point sites - this covers a first contact whose parameter rounds to 0 with the origin strictly outside the box); every out-parameter is pre-filled with NaN before every call, so an unwritten ip/entry/exit is visible; on the max-face and guard alphabets, cases whose exact truth value differs from that of the problem "
                      "with correctly rounded differences face-origin (max-face) resp. correctly rounded parameters (guard) rest on a sub-ulp difference of two parameters and are counted, not judged; cases in which a parameter exceeds the largest finite value are checked and reported under their own '.some-t-overflows' / "
                      "'.every-t-overflows' sites.",
        "deadline": {"quick": 200, "thorough": 850},
        "rule": "exhaustive product of the box, origin and direction alphabets, 3 entry points, float and double; non-trivial = by the exact oracle on the input: box inverted or flat, "
                "origin inside, hit from outside, box behind the origin (line hits, ray misses), single contact point (grazing edge/corner/face), a zero direction component, "
                "a slab parameter beyond the largest finite value on some / on every axis, the box is makeInfinite() / a half space or slab with a face at +-max / makeEmpty() / "
                "empty with coordinates at max, a guard's operands are equal / one ulp apart, an exact parameter is max+1 or max+2, box coordinates all negative / straddling zero, a direction "
                "component or a box/origin coordinate is -0.0, an underflowing parameter on a non-binding axis, an exact hit with an underflowing parameter (reported points judged; first-contact parameter > 0 rounding to zero), per axis and sign of the direction component an overflowing axis with the origin outside / inside its slab on an elongated box (the six unrolled fallback branches, both outcomes) ('miss.generic' excluded)",
        "assumptions": ["zero direction vectors are outside the property's domain and are excluded",
                        "long double has a 64-bit significand (x86-64): the power-of-two alphabet's cross products are exact"],
    }
