# C05 spec (see tools/props.py)
SPEC = {
        "ready": True,
        "sources": ["c05.cpp", "c05_alias.cpp", "c05_dirty.cpp", "c05_exact_f.cpp", "c05_exact_d.cpp", "c05_det_f.cpp", "c05_det_d.cpp",
                    "c05_round_f.cpp", "c05_round_d.cpp", "c05_mixed_f.cpp", "c05_mixed_d.cpp", "c05_intvec.cpp"],
        "lib": ["half.cpp"],
        "technique": "exhaustive enumeration of integer lattices, prime-scaled basis-element pairs and 0/+-1 sparsity patterns "
                     "against exact int64/__int128 evaluation of the textbook sums of products; graded non-lattice operands against long double",
        "level_text": "Every product (matrix x matrix, vector x matrix plain / homogeneous / multDirMatrix, dot, cross, outerProduct, "
                      "quaternion product), transpose, trace, minorOf, fastMinor and determinant of the real headers is run, for float and "
                      "double and dimensions 2/3/4, on complete finite operand spaces chosen so that floating-point arithmetic is exact "
                      "(all pairs of prime-scaled basis elements, whole integer lattices, every 0/+-1 sparsity pattern against generic prime "
                      "operands, all 65536 0/1 and, thorough, all 3^16 {-1,0,1} 4x4 matrices for determinants and minors); the result must "
                      "equal the __int128 evaluation of the algebraic definition, all spellings must agree bitwise, det(AB)=det A det B, "
                      "det of the transpose and cofactor expansion along every row and column must reproduce the determinant exactly, and "
                      "on graded non-lattice operands every result must lie within (R+1) eps sum|terms| of the long-double value. "
                      "Vector x matrix products are additionally run with a vector element type S different from the matrix element type T "
                      "(S in {float, double, int, short, int64_t, half}, T in {float, double}; integer and dyadic-fraction matrices whose sums are exact "
                      "in both types; homogeneous quotient = the rational rounded once in S resp. the C++ integer quotient), dot and cross of the "
                      "short / int / int64_t / half vector instantiations against 128-bit integer sums up to the top of each type's overflow-free range, "
                      "the Quat 4-D dot (operator^, euclideanInnerProduct), and the static Matrix44::multiply(a,b,c) with c aliasing a and/or b. Added for the stale-destination class of seeded changes: Matrix44::multiply(a,b,c), multVecMatrix / multDirMatrix (22/33/44, vector type equal to and different from the matrix type), transposed / transpose and outerProduct into destinations pre-filled with distinct primes / sign-flipped primes / NaN in every slot must leave bitwise what they leave in a fresh destination.",
        "level_note": "Bounded: exact equality is decided on the enumerated lattices only (a wrong index, sign or skipped term is visible "
                      "there because every bilinear term is exercised in isolation and in dense generic combination); the rounding bound is "
                      "checked on 4032 graded operand pairs per dimension, not on all floats. Trusts x86-64 long double and IEEE division.",
        "deadline": {"quick": 200, "thorough": 840},
        "rule": "complete enumeration of the stated operand lattices on the real code; non-trivial = by a predicate on the input, a "
                "4x4 determinant whose last column has zero entries (term-skipping branches; all 16 zero patterns must occur), a singular / "
                "non-singular matrix, a homogeneous product with affine (w=1) or projective last column or an inexact quotient, a "
                "sparsity pattern with an affine last column, a homogeneous divide by a w that is not a power of two, a product whose vector and matrix "
                "element types differ (integral / narrower / wider S; fractional matrix entries with integer sums; truncated integer quotients), integer vector "
                "operands near the top of the overflow-free range (int64_t products above 2^53), a static multiply whose destination is a source, a destination object holding primes or NaN in every slot "
                "('.generic' classes excluded)",
        "assumptions": ["long double has a 64-bit significand (x86-64)",
                        "default build configuration: g++ -O2 -std=c++14, no FMA contraction, no -ffast-math"],
    }
