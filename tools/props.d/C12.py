# C12 spec (see tools/props.py)
SPEC = {
        "ready": True,
        "sources": ["c12.cpp", "c12_shrt3d_f.cpp", "c12_shrt3d_d.cpp", "c12_shrt2d.cpp", "c12_svd.cpp", "c12_eigen.cpp", "c12_procrustes.cpp"],
        "lib": ["ImathMatrixAlgo.cpp"],
        "technique": "exhaustive enumeration of factor lattices (scale x shear x rotation x translation), complete small-integer matrix lattices and lattice point sets against long-double / exact-integer recomposition oracles",
        "level_text": "Affine matrices are composed by the harness in long double from every combination of an enumerated factor alphabet (8 scales per axis with reflections and graded magnitudes, 29 shears, a pi/6 rotation grid, lattice translations; zero and 1e-30 scales separately; every singular 3x3 / 2x2 linear part over {-1,0,1,2} without a zero row; extractSHRT's rOrder and Euler& in all 24 orders) and pushed through every 3-D and 2-D factorisation entry point of the real library; jacobiSVD runs on all 4^9 3x3 matrices over {-1,0,1,2} and all 4x4 matrices over {0,1} ({-1,0,1} in the thorough tier), on the same lattices multiplied by 2^+-40 / 2^+-300 and on all 3x3 matrices with at most four entries from {+-1, +-2^20, +-2^-20}, jacobiEigenSolver and min/maxEigenVector on all symmetric 3x3 matrices over L(2) and 4x4 over L(1), procrustesRotationAndTranslation on thousands of lattice point sets related by the 24 cube rotations, translations and scales, and on unrelated sets, mirror images of spanning sets and related sets with a zero-weight outlier with a local-optimality perturbation test. Results are judged by recomposition in long double against a-priori bounds (16 cond eps, 64 eps, 32 eps) and exact singular/eigen values.",
        "level_note": "Decides the property for the enumerated alphabets only; conditioning beyond 3*2^12, data outside the small integer lattices and iteration counts that only arise for other mantissas are not covered. Trusts x86-64 long double and the harness's long-double Jacobi eigenvalue iteration.",
        "deadline": {"quick": 200, "thorough": 850},
        "rule": "complete enumeration of (scale, shear, rotation, translation) factor alphabets in 3-D and 2-D, of all 3x3 {-1,0,1,2} / 4x4 {0,1} matrices, of all symmetric "
                "L(2) 3x3 / L(1) 4x4 matrices and of lattice point-set families x 24 cube rotations; non-trivial = by a predicate on the input: reflection, graded "
                "scales, shear, rotation at gimbal lock, zero scale (guard fires), 1e-30 scale, singular without a zero row (exactly zero orthogonalised scale / rounding residue), rotation order class, input scaled by 2^+-k, graded entries, rank-deficient / repeated singular or eigen values / already diagonal / "
                "negative determinant / indefinite, single-point / collinear / coplanar point sets, scaled, weighted, symmetric, unrelated or mirror-image sets, zero weights ('.generic' classes excluded)",
        "assumptions": ["long double has a 64-bit significand (x86-64)",
                        "harness compiled with g++ -O2 -std=c++14 without FMA contraction, as the repository's default build"],
    }
