# C15 spec (see tools/props.py)
SPEC = {
        "ready": True,
        "sources": ["c15.cpp", "c15_b.cpp", "c15_c.cpp", "c15_d.cpp", "c15_e.cpp"], "lib": [],
        "technique": "exhaustive enumeration of integer-lattice lines, planes, spheres, triangles and matrices against exact rational (integer numerator/denominator) oracles",
        "level_text": "Every line, plane, sphere, triangle and vector pair of the stated integer lattices and direction alphabet is run through the real Line3/Plane3/Sphere3/LineAlgo/VecAlgo code for float and double; because the data are integers the geometric definition gives a rational answer, which is evaluated exactly and compared under an a-priori rounding bound; nearly parallel and parallel line pairs are swept over 10^-j perturbations down to exact parallelism. Added after the clause audit: every lattice case of closestPoints / closestPointTo(Line3) / distanceTo(Line3), Plane3::intersect(T), Sphere3::intersect(T) and the triangle intersect() is repeated with all points multiplied by 2^k (float |k| <= 28, double |k| <= 250; the oracle and tolerance scale exactly); lines meeting a plane / triangle at an angle of exactly 2^-k (k up to and beyond the overflow of the hit parameter, cancellation-free exact oracle); Plane3 x Matrix44 for all 6960 linear parts over {-1,0,1} with determinant +-1 (side preservation for the 3480 with det +1, and for projective matrices with det > 0, w > 0); closestVertex for V2f/V2d/V2i/V3i/V4f/V4d/V4i with the exact integer oracle; Sphere3::intersectT with the origin 2^k from the sphere, judged as far as the a-priori cancellation bound of B^2-4C allows.",
        "level_note": "Bounded to the stated lattices (coordinates |x| <= 2, directions with exact or near-exact normalisation plus generic ones, radii {0,1,3,5,7}, 24 cube rotations x dyadic scales); tolerances come from the error analysis written next to each check; the sense of rotation of rotatePoint is undocumented and only required to be consistent.",
        "deadline": {"quick": 200, "thorough": 840},
        "rule": "exhaustive enumeration of lattice primitives on the real code; non-trivial = input is, by an exact integer predicate, "
                "skew / intersecting / parallel / perpendicular / nearly parallel (lines), on/above/below (plane points), crossing or parallel "
                "(line vs plane), miss / tangent / origin inside / outside / on the sphere, through the interior / outside / parallel / "
                "degenerate / front / back (triangle), reflection or non-uniform scale or shear / non-axis integer map (plane x matrix), tie (closestVertex, every Vec type), scaled up / down by 2^k, "
                "line at angle 2^-k to the plane (parameter representable / overflowing / subnormal angle), far-origin sphere (two positive roots / behind / miss)",
        "assumptions": ["long double has a 64-bit significand (x86-64): every rational oracle value is rounded once, to 2^-64 relative"],
    }
