# C15 spec (see tools/props.py)
SPEC = {
        "ready": True,
        "sources": ["c15.cpp", "c15_b.cpp", "c15_c.cpp"], "lib": [],
        "technique": "exhaustive enumeration of integer-lattice lines, planes, spheres, triangles and matrices against exact rational (integer numerator/denominator) oracles",
        "level_text": "Every line, plane, sphere, triangle and vector pair of the stated integer lattices and direction alphabet is run through the real Line3/Plane3/Sphere3/LineAlgo/VecAlgo code for float and double; because the data are integers the geometric definition gives a rational answer, which is evaluated exactly and compared under an a-priori rounding bound; nearly parallel and parallel line pairs are swept over 10^-j perturbations down to exact parallelism.",
        "level_note": "Bounded to the stated lattices (coordinates |x| <= 2, directions with exact or near-exact normalisation plus generic ones, radii {0,1,3,5,7}, 24 cube rotations x dyadic scales); tolerances come from the error analysis written next to each check; the sense of rotation of rotatePoint is undocumented and only required to be consistent.",
        "deadline": {"quick": 200, "thorough": 840},
        "rule": "exhaustive enumeration of lattice primitives on the real code; non-trivial = input is, by an exact integer predicate, "
                "skew / intersecting / parallel / perpendicular / nearly parallel (lines), on/above/below (plane points), crossing or parallel "
                "(line vs plane), miss / tangent / origin inside / outside / on the sphere, through the interior / outside / parallel / "
                "degenerate / front / back (triangle), reflection or non-uniform scale (plane x matrix), tie (closestVertex)",
        "assumptions": ["long double has a 64-bit significand (x86-64): every rational oracle value is rounded once, to 2^-64 relative"],
    }
