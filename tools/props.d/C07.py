# C07 spec (see tools/props.py)
SPEC = {
        "ready": True,
        "sources": ["c07.cpp", "c07_vec.cpp", "c07_inv.cpp", "c07_frustum.cpp", "c07_algo.cpp"],
        "lib": ["ImathMatrixAlgo.cpp"],
        "technique": "differential exhaustive enumeration: every checked/unchecked pair run on the same input over guard-threshold alphabets (both sides of every guard, to the ulp), integer lattices x power-of-two scalings, permuted-diagonal boundary matrices and exponent sweeps",
        "level_text": "Both members of every checked/unchecked pair (Vec normalize family, Vec3(Vec4,InfException), Matrix22/33/44 inverse/invert/gjInverse/gjInvert with singExc, every Frustum ...Exc method and setExc, every ImathMatrixAlgo function with an exc flag) are executed on every input of stated finite alphabets and compared: bit-identical results when the checked form returns, the documented exception type (typeid) exactly when the unchecked form reports failure, guards firing only when the exact quotient reaches max/4, no exception on well-conditioned input; for inversion also the must-fire direction (a non-zero determinant whose exact cofactor/determinant quotient reaches 2^(emax+1): the unchecked determinant-based form reports singular and the checked form throws), ZToDepth/ZToDepthExc on Z ranges wider than INT_MAX, and the flag-less spelling of every decomposition function against exc = true. The alphabets put each guard's two operands on both sides of its threshold to the ulp in every slot of every hand-unrolled copy.",
        "level_note": "Bounded: alphabets are boundary values, small integer lattices, graded power-of-two scalings and exponent sweeps, not all bit patterns; non-finite arguments are excluded; where numerator and denominator of a guard cannot be set independently from finite inputs (r+l against r-l, f+n against f-n) only the reachable side of the threshold is exercised.",
        "deadline": {"quick": 200, "thorough": 840},
        "rule": "complete enumeration of the stated alphabets on the real code, both members of each pair per input; non-trivial = by a predicate on the input the case is a zero vector, takes the scaled length path, "
                "has w = 0 / subnormal w / a quotient in [max/4,max) / == max / > max, is an exactly singular or provably-zero-pivot matrix, has underflowing or overflowing cofactors, has a non-zero determinant with an exact quotient >= 2^(emax+1) / all quotients < max/4 with a tiny determinant, takes the affine fast path, "
                "makes a Frustum quotient overflow, reach max/4 or be 0/0, is a decomposition input with a zero row / parallel rows / a reflection, or made the checked form throw "
                "(classes counted separately; classes named '*.generic' excluded)",
        "assumptions": ["x86-64 long double (64-bit significand) for the exact quotients",
                        "only finite arguments are enumerated"],
    }
