# C08 spec (see tools/props.py)
SPEC = {
        "ready": True,
        "sources": ["c08.cpp"], "lib": [],
        "technique": "exhaustive exponent sweeps (every exponent of float and double, every slot, graded relative exponents, boundary mantissas, sign patterns) of Vec2/3/4 length()/normalize family against sqrtl of the long-double sum of squares",
        "level_text": "Every tuple of a stated finite alphabet - leading component +-m*2^e for every exponent e of the type (float -149..63, double -1074..511) in every slot, other components at relative exponents {0,-1,-2,-12,-24,-25,-53,-54,-inf}, mantissas {1,1+ulp,1.5,2-ulp}, sign patterns including -0; thorough adds the complete float exponent square and cube - is run through the real length(), length2(), normalize(), normalized() and their Exc/NonNull forms for Vec2/Vec3/Vec4 of float and double and compared with the definition evaluated in long double under a-priori ulp bounds (length2() also against the exact sum of squares to N u, independently of dot(); 'never NaN or infinity' also for vectors with a subnormal norm, where 1/length overflows); the alphabet straddles the 2*min switch-over of each of the three hand-written copies at every exponent.",
        "level_note": "Domain: every tuple whose floating-point sum of squares provably stays finite (exact sum*(1+N eps) <= max, or one non-zero component with x^2 <= max, or |c| <= sqrt(max)/2); the rest is enumerated but not judged. Bounded: mantissas are four boundary values per component, not all 2^23/2^52; relative exponents are graded, except in the thorough float square/cube where they are complete. Trusts x86-64 long double (64-bit significand) as the reference.",
        "deadline": {"quick": 200, "thorough": 840},
        "rule": "complete enumeration of the exponent-sweep alphabet on the real code; non-trivial = by a predicate on the input the vector takes the scaled (sum of squares < 2*min) path, "
                "or has a square that underflows on the direct path, lies in the switch-over window, has a subnormal norm, is the zero vector, has a norm below 1/max (the reciprocal of the norm overflows), has a component above sqrt(max)/2 with a finite sum of squares, has a single non-zero component or a negative zero "
                "(classes counted per dimension; 'direct-path.generic' excluded)",
        "assumptions": ["long double has a 64-bit significand and a 15-bit exponent (x86-64)",
                        "harness compiled like the repository build: g++ -O2 -std=c++14, no -ffast-math, no FMA contraction"],
    }
