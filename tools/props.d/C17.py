# C17 spec (see tools/props.py)
SPEC = {
        "ready": True,
        "sources": ["c17.cpp", "c17_scalar.cpp", "c17_roots.cpp", "c17_color.cpp"],
        "lib": ["ImathFun.cpp", "ImathColorAlgo.cpp"],
        "technique": "exhaustive enumeration of all 2^32 float bit patterns, boundary-alphabet products and root/colour lattices against definition-level models",
        "level_text": "floor/ceil/trunc/succf/predf/finitef are run on every one of the 2^32 float patterns (doubles: every exponent x boundary mantissas) and compared with integer / bit-pattern models; the integer divisions on the complete boundary grid against int64 division; the remaining scalar utilities on all products of the boundary alphabet against their documented definitions; the polynomial solvers on every polynomial with 1-3 distinct roots from a 33-value dyadic alphabet x 6 leading coefficients (coefficients exact, so the true roots are known); the colour conversions on the complete 1/8 grid and all 256 values of every packed channel.",
        "level_note": "Bounded: outside the float bit-pattern stage the claim is 'every case of the stated alphabets'; accuracy bounds are fixed a priori (stated in the harness sources). Trusts x86-64 long double, glibc sinl and the int64 / bit-pattern models (self-checked against floorl/ceill/truncl).",
        "deadline": {"quick": 240, "thorough": 900},
        "rule": "all 2^32 float patterns + 16.8k (thorough 49.6k) double patterns x {floor, ceil, trunc, succ, pred, finite}; 29^2 int pairs (y != 0; thorough 191^2) x 4 divisions; B(T)^1..3 products for 13 scalar utilities x {float, double, int}; root-built polynomials (linear, quadratic, cubic; three-real, one-real+pair, double, triple, none) x {float, double} x both cubic entry points; 729 rgb + 729 hsv grid triples (thorough: 4913 + 4913) x {float, double, unsigned char, short} x {Vec3, Color4}; 4x256x2 packed values x {float, double}; non-trivial = counted by the input-predicate classes (negative non-integers, exact halves, subnormals, NaN/inf/zero/max, sign quadrants, guard fires / threshold band, cancellation class q>0, grey axis, hue wrap, saturated neighbours ...); classes ending in .generic excluded",
        "assumptions": ["x86-64: long double has a 64-bit significand; float/double arithmetic is IEEE-754 without FMA contraction",
                        "NaN arguments of int-valued functions, INT_MIN operands and operand tuples whose int arithmetic overflows are outside the stated domain",
                        "root conditioning bound 64*eps*scale^n/min|p'(x_i)/lead| and 'well separated' = bound < min root distance / 4, fixed before the first run"],
    }
