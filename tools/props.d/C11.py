# C11 spec (see tools/props.py)
SPEC = {
        "ready": True,
        "sources": ["c11.cpp", "c11_cases_f.cpp", "c11_cases_d.cpp", "c11_misc.cpp", "c11_near.cpp"],
        "lib": ["ImathMatrixAlgo.cpp"],
        "technique": "exhaustive enumeration of 24 orders x angle grids and gimbal-lock families against a long-double product of elementary axis rotations",
        "level_text": "Every one of the 24 Euler orders (decoded from the enum's documented bit-fields) is run, in float and double, over the complete (k*pi/6)^3 grid for k in [-12,12] and over the at-and-around-gimbal-lock families (middle angle within 10^-j of the lock value, j up to 15) through the real Euler<T> builders, extractors, quaternion path, re-ordering constructor, angleMod and makeNear family; each result is compared with a reference rotation composed in the harness from three elementary axis rotations in long double, with a-priori tolerances (8 eps builders, flat 16 eps extraction round trip including at gimbal lock, bitwise for the 3x3/4x4 copies and for the layout permutations); a 4x4 carrying a translation row must give numerically equal angles; makeNear is run with the target given in every one of the 24 orders. Added for the seeded change C11-v1: XYZ vs Matrix44::setEulerAngles on all 16 entries, with setEulerAngles called on a fresh Matrix44 and on objects pre-filled with distinct primes / sign-flipped transposed primes / NaN in every slot (bitwise the fresh result), and extract() on Euler objects that already hold angles.",
        "level_note": "Decides the property for the enumerated alphabets only (angles on the pi/6 grid over two periods, 10^-j neighbourhoods of gimbal lock, 100 turns for angleMod); trusts x86-64 long double sinl/cosl and glibc's 1-ulp float/double libm.",
        "deadline": {"quick": 200, "thorough": 800},
        "rule": "complete enumeration of 24 orders x {float,double} x (k*pi/6)^3, k in [-12,12], plus gimbal-lock families, 24x24 re-orderings, "
                "angleMod over 100 turns and makeNear/nearestRotation/simpleXYZRotation pairs; non-trivial = by a predicate on the input: order is "
                "repeated-axis or rotating-frame, middle angle exactly at or within 10^-j of gimbal lock, angleMod remainder outside [-pi,pi] or within "
                "1e-6 of +-pi, alternative triple strictly closer, angle difference at an odd multiple of pi, target given in another order (each of the 23 others), 4x4 input with a translation row, setEulerAngles / extract called on an object that holds primes or NaN "
                "('.generic' classes excluded)",
        "assumptions": ["long double has a 64-bit significand (x86-64)",
                        "harness compiled with g++ -O2 -std=c++14 without FMA contraction, as the repository's default build"],
    }
