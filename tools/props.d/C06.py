# C06 spec (see tools/props.py)
SPEC = {
        "ready": True,
        "sources": ["c06.cpp", "c06_f.cpp", "c06_d.cpp", "c06_dirty.cpp"],
        "lib": [],
        "technique": "exhaustive enumeration of integer matrix lattices x power-of-two row and column scalings against the exact rational inverse "
                     "(adjugate / determinant in __int128); one-ulp perturbations of the affine last column; single entries replaced by +-2^-k "
                     "(exact rational inverse by linearity of determinant and adjugate in one entry); scalings that put the exact "
                     "cofactor/determinant quotients on both sides of the overflow threshold",
        "level_text": "inverse(), inverse(false), gjInverse(), gjInverse(false) and the four in-place forms of Matrix22/33/44<float|double> "
                      "are run on complete integer lattices (all 2401 L(3) 2x2, all 1953125 {0,+-1,+-2} 3x3, all 65536 0/1 4x4 and 1.26 million "
                      "affine 4x4; thorough: all 3^16 {0,+-1} 4x4 and all 4^12 affine {0,+-1,2} 4x4) times power-of-two scalings that straddle "
                      "|det| = 1 in every dimension. The exact inverse is a known rational, so each entry is compared with it under the fixed "
                      "bound 8 cond_inf(M) eps ||M^-1||_inf; exactly singular input must give exactly the identity from the determinant-based "
                      "forms and from Gauss-Jordan wherever an exact zero pivot is provable; in-place forms must equal the value forms bitwise; "
                      "the affine fast path and the general path must agree to the bound when the last column is perturbed by one ulp "
                      "(or holds a negative zero). Added after the clause audit: rows and columns graded by different powers of two (the pivot row changes); "
                      "every zero entry of the 2x2/3x3/4x4 lattices replaced by +-2^-k and every non-zero entry moved by two ulps (a pivot search "
                      "that ignores magnitude loses all accuracy there; nearly singular matrices must stay within the bound while 8 cond eps <= 1/4 and "
                      "finite up to cond < 1/eps^2); and matrices with a non-zero determinant whose exact cofactor/determinant quotients "
                      "reach 2^(emax+1): the determinant-based forms must return exactly the identity there, a finite accurate inverse when every "
                      "exact entry is below max/4, and one of the two in between. Added for the stale-object class of seeded changes: the in-place forms on exactly singular matrices holding distinct primes in every slot (zero row / zero column / duplicated row; general and affine with a prime translation row) must leave exactly the identity in every slot, and the value forms assigned to destinations pre-filled with primes / NaN likewise.",
        "level_note": "Bounded: the accuracy statement is decided on the enumerated lattices and scalings (condition numbers up to a few "
                      "hundred on the plain lattices; graded scalings and tiny entries reach 2^60 and more, where the bound is correspondingly "
                      "loose), not for arbitrary ill-conditioned floats; the overflow guard (mr > |cofactor|) is decided on operands whose cofactors "
                      "and determinant are exactly representable, so the threshold itself is only required to lie in [max/4, 2^(emax+1)]; Gauss-Jordan, "
                      "which has no overflow guard, is not run on those operands. The constant c = 8 is taken from the error "
                      "analysis in DESIGN.md, not fitted. Gauss-Jordan on singular input outside the provable-zero-pivot classes is "
                      "recorded, not judged.",
        "deadline": {"quick": 200, "thorough": 840},
        "rule": "complete enumeration of the stated lattices x scalings on the real code; non-trivial = by predicates on the exact "
                "integer input: singular; |det(M)| >= 1 / < 1 (the two scaling branches, per dimension); affine last column (fast path); "
                "singular with a provable exact zero pivot for Gauss-Jordan; affine last column perturbed by one ulp / holding -0; rows or columns "
                "graded by different powers of two; a zero entry replaced by 2^-k with det(A) != 0 / == 0; exact quotient >= 2^(emax+1), "
                "< max/4, in between, per dimension and for the affine path; singular matrix with primes in every other slot (zero row / zero column / duplicated row, affine with non-zero translation row) ('.generic' classes excluded)",
        "assumptions": ["long double has a 64-bit significand (x86-64)",
                        "default build configuration: g++ -O2 -std=c++14, no FMA contraction, no -ffast-math"],
    }
