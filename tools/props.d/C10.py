# C10 spec (see tools/props.py)
SPEC = {
        "ready": True,
        "sources": ["c10.cpp", "c10_unit.cpp", "c10_setrot.cpp", "c10_slerp.cpp"],
        "lib": ["ImathMatrixAlgo.cpp"],
        "technique": "exhaustive enumeration of a finite rotation group with exactly representable arithmetic (binary tetrahedral group, 24 unit quaternions), of normalised integer quaternions, lattice axis/angle pairs and lattice direction pairs, against definition-level Hamilton algebra in long double",
        "level_text": "All 24 elements of the binary tetrahedral group, all 24^2 products and all 24x125 rotated lattice vectors are run through rotateVector, v*q, toMatrix33/44, operator*, inverse, ~, extractQuat and compared for exact equality with the Hamilton product evaluated from its definition (exact on these dyadic operands); the tolerance relations (exp/log, axis/angle round trip, Quat vs Matrix44 setAxisAngle) are checked on all 624 normalised integer quaternions of L(2)^4 and on lattice axes x an angle alphabet reaching pi-1e-15 and 2pi-1e-15; setRotation/rotationMatrix on all ordered pairs of the 26 lattice directions under 9 scalings and on the nearly antipodal families -from+10^-j*perp, j=1..16; slerp/slerpShortestArc on all ordered pairs of the quaternion alphabet x 11 parameter values incl. nearly antipodal pairs; squad/spline keys on all 24^4 group key tuples and tangent continuity on 10^5 key 5-tuples by a convergence test of one-sided difference quotients.",
        "level_note": "Bounded: the quaternion, direction, angle and parameter alphabets are finite and stated; the tolerances of the non-exact relations are a-priori rounding/conditioning bounds stated in the harness sources; tangent continuity is resolved down to jumps of about h^2 times the curvature (double: ~1e-6, float: ~1e-2); trusts x86-64 long double and glibc libm.",
        "deadline": {"quick": 200, "thorough": 800},
        "rule": "complete enumeration of the binary tetrahedral group (elements, pairs, rotated lattice vectors), of L(2)^4 normalised quaternions, of axis/angle pairs, of lattice direction pairs x scalings and nearly antipodal families, of quaternion pairs x t and of key tuples; "
                "non-trivial = w = 0 / +-1/2 / +-1 members (extractQuat trace>0 and the three largest-diagonal branches and their ties), w < 0 or = 0, angles tiny / near pi / near 2pi, direction pairs parallel / beyond 90 degrees / exactly or nearly antipodal / scaled, "
                "slerp with q1=q2, angle > 90 degrees or within 1e-3 of pi, t at an endpoint or outside [0,1], shortest-arc flips (classes counted separately by predicates on the input)",
        "assumptions": ["long double has a 64-bit significand (x86-64): the Hamilton algebra on the group is exact and the other references are accurate to 2^-63",
                        "glibc sin/cos/acos/atan2 (float and double) are accurate to < 1 ulp (used in the a-priori tolerances)",
                        "slerp, squad and spline are only exercised where their documentation allows (q2 != -q1; consecutive spline keys not antipodal); exp(log q) is skipped for w < -1 + 1e-3 as the property states"],
    }
