# C02 spec (see tools/props.py). Custom flow: tools/c02_driver.py builds harness/c02_block.c once per
# build configuration and harness/c02_driver.cpp compares them all on every input.
SPEC = {
        "ready": True,
        "custom": "c02_driver",
        "sources": ["c02_driver.cpp"], "lib": [],
        "technique": "exhaustive enumeration of build configurations x all 2^32 + 2^16 inputs; every configuration is a separately "
                     "compiled shared object of the real half.h, compared bitwise with the default build",
        "level_text": "half.h's two conversion functions are compiled from the current tree into one shared object per build "
                      "configuration (g++/clang++ x C++14/17/20, gcc/clang x C99/C11, each with the lookup table, with "
                      "IMATH_HALF_NO_LOOKUP_TABLE, with the repository's CMake option IMATH_HALF_USE_LOOKUP_TABLE=OFF, and with -mf16c; "
                      "-O0/-O2/-O3; plus -DIMATH_HALF_ENABLE_FP_EXCEPTIONS builds of both languages), each object is inspected to confirm which #if branch it selected, and every one of the 2^16 half and "
                      "2^32 float inputs is run through every object and compared bit for bit with the default build (NaN inputs on F16C "
                      "objects: NaN-ness and sign, as the property allows). Every object is run again over all 2^16 half inputs, and one software object per branch, language and compiler over all 2^32 float inputs, under each non-default rounding mode and MXCSR DAZ / FTZ / DAZ+FTZ (F16C objects: all 2^32 under the three rounding modes); the result must not change. The table generator toFloat.cpp is compiled and run and its "
                      "65536 words are compared with toFloat.h and with the binary16 definition. Both dimensions of the quantifier are "
                      "finite and enumerated completely (quick: one configuration per branch per language per compiler family, the FP-exceptions objects on the boundary subset of float inputs and the float-input ambient sweep on one C and one C++ object; thorough: the full matrix, two FP-exceptions objects on all 2^32).",
        "level_note": "Configurations are those buildable on this host (x86-64, gcc 12, clang 14); the _MSC_VER sub-branches and the "
                      "non-GNU count-leading-zeros fallback cannot be compiled here. Correctness of the reference configuration itself is C01.",
        "deadline": {"quick": 240, "thorough": 900},
        "rule": "states = (configuration, entry point, input) triples executed (entry point = C function, or C++ class constructor/cast); transitions = triples compared with the reference configuration's C function; "
                "non-trivial = compared pairs whose configuration selects a different #if branch or a different language/entry point "
                "(C typedef path, C++ class path) than the reference (same-branch variants that differ only in compiler, -std or -O are excluded)",
        "assumptions": ["the reference configuration (g++ -std=c++14 -O2, lookup table) is decided against the definition by C01",
                        "configurations limited to the compilers on this host: gcc 12 and clang 14, x86-64"],
    }
