# C09 spec (see tools/props.py)
SPEC = {
        "ready": True,
        "sources": ["c09.cpp", "c09_exact.cpp", "c09_rot.cpp", "c09_frames.cpp"],
        "lib": ["ImathMatrixAlgo.cpp"],
        "technique": "exhaustive enumeration of integer lattices (current matrices incl. non-affine ones x parameters x points), an angle/axis alphabet over several periods, and all lattice direction pairs / point triples, against documented matrices written out by hand (exact integer algebra, long double Rodrigues / elementary rotations)",
        "level_text": "Every in-place translate/scale/shear overload of Matrix22/33/44 is run on every current matrix of a lattice alphabet that includes non-affine prime matrices and compared for exact equality with the documented set* matrix times the current matrix formed in integer arithmetic; every set* matrix is compared entry by entry with the documented matrix and applied to every lattice point; rotations (2-D, axis/angle, XYZ Euler, in-place rotate) are compared with a long double oracle to 8 eps Sum|terms| over 127 angles spanning four periods; the frame builders are run on all lattice direction pairs (zero and exactly parallel included) and all lattice point triples and checked for orthonormality, handedness, documented axes and origin.",
        "level_note": "Bounded: operands are small integers / lattice directions / the stated angle alphabet; tolerances for the rotation and frame relations are a-priori rounding bounds stated in the harness sources; trusts x86-64 long double and glibc sinl/cosl.",
        "deadline": {"quick": 200, "thorough": 800},
        "rule": "complete enumeration of (current matrix, operation, parameter) over the stated lattices, of (axis, angle) and Euler angle triples over the angle alphabet, and of lattice direction pairs / point triples; "
                "non-trivial = the current matrix is non-affine or deviates from identity in one slot, a parameter has a zero component or a one-hot Shear6, the argument base type differs from the matrix type, "
                "the angle is a multiple of 2pi / beyond one period / tiny / at gimbal lock, the axis is non-unit, or the direction arguments are zero / exactly parallel / collinear (classes counted separately by predicates on the input)",
        "assumptions": ["long double has a 64-bit significand (x86-64): all integer products and the rotation oracles are exact / accurate to 2^-63",
                        "glibc sin/cos/sinf/cosf are accurate to < 1 ulp (used in the a-priori tolerance 8 eps Sum|terms|)",
                        "firstFrame(p,p,q) (documented to throw from a noexcept function) and zero / exactly parallel arguments of computeLocalFrame, firstFrame axes, nextFrame x-axis are outside the property"],
    }
