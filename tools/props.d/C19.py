# C19 spec (see tools/props.py)
SPEC = {
        "ready": True,
        "custom": "py_driver", "script": "c19_explore.py", "engine": "py-explorer",
        "variants": {"thorough": [["asan", "c19_explore.py"]]},
        "technique": "bounded exhaustive exploration of the built imath Python module: small-scope enumeration of every index/slice/mask "
                     "against a Python-list model, explicit-state BFS over operation histories with an alias-bookkeeping model, all release "
                     "orders of owners and views with a weakref liveness oracle, nested-list models for 2-D/matrix/V-array/string arrays, "
                     "and the buffer protocol in both directions with every case in a forked child (plain build + AddressSanitizer build)",
        "level_text": "The imath extension module is rebuilt from the current tree and driven from CPython 3.11. (1) For each array class and every "
                      "length 0..5, every integer index -7..7, every slice with start,stop in {None,-7..7} and step in {None,+-1,+-2,+-3,0} and every "
                      "0/1 mask of length n-1,n,n+1 is applied through __getitem__, __setitem__ (scalar, array of right and wrong length, masked "
                      "with full-length and compressed sources), __len__, ifelse and masked references, on a writable array and a read-only twin, "
                      "and compared with the same operation on a Python list. (2) A breadth-first search enumerates every history of stores, "
                      "masked-view creation, copy construction, element references, makeReadOnly and in-place operators (through the array and "
                      "through every live view) up to the depth bound, checking in every reached state that every handle shows the model's "
                      "contents and flags, that a write through a read-only handle raises and changes nothing and that a failed operation "
                      "changes nothing. (3) An owner and two derived views are released in all six orders with a garbage collection after each "
                      "release; a weakref shows whether the storage holder is still alive while a view is reachable. (4) FixedArray2D, FixedMatrix "
                      "and FixedVArray are compared with nested lists for every index and forward slice of one dimension, and StringArray for "
                      "every store history over all interning orders. (5) memoryview export and the ...ArrayFromBuffer constructors are run for "
                      "every exporting class and every source type/length, each case in its own forked child so that a crash is an observed "
                      "outcome. The thorough tier repeats the exploration under an AddressSanitizer build of the module. "
                      "(1') Integer indices and slice bounds/steps of magnitude 2^31..2^64 (values that fit a C int, only a Py_ssize_t, or neither) are "
                      "tried on every 1-D class and on FixedArray2D / FixedMatrix / FixedVArray and its size helper: every one must raise (or clamp, "
                      "for slices) and change nothing. Masks with non-zero entries other than 1 (2, -1, INT_MIN) and mask arrays that are strided "
                      "component views, masked references or read-only select by `entry != 0`. (1b) Component views (.x .y .z .w, .r .g .b .a, Quat "
                      ".r .x .y .z, Box .min .max and their components) of every array AND of every masked reference of it, writable and read-only: "
                      "reads, bounds, element and slice stores against a per-component model. (1c) Stores and in-place operators whose source "
                      "aliases the target (all mask pairs a[m1]=a[m2], slices from masked references of the target, masked-reference targets, copy-"
                      "constructed aliases, FixedVArray mask pairs and forward slices): the right-hand side is read completely before anything is "
                      "stored, as on a Python list; the history search also takes live handles as sources. (2b) Every callable member of every "
                      "class is called on read-only receivers (array, masked reference, copy-constructed handle, component view) with every "
                      "argument tuple of length <= 2 over 11 typed arguments: the read-only contents must never change; a writable twin counts "
                      "the mutating calls. (3') Component views of arrays, of masked references, of copies and of FixedVArray rows join the "
                      "ownership scenarios; after every release the heap is recycled with same-size arrays so that a stale view reads wrong also "
                      "without a sanitizer. (4') FixedArray2D a[mask]=array1d (full, compressed, wrong lengths), ifelse(mask, scalar) values. "
                      "(5') memoryview of a masked reference with a sparse mask and of a component view of one. "
                      "(4'') FixedVArray size helper THROUGH a masked reference w = v[mask] (every mask of every V-array of the scope): w.size[ix] reads and every store form "
                      "(scalar, IntArray of right and wrong length, mask + scalar, mask + IntArray) for every integer -k-1..k, every forward slice and every 0/1 mask of the view's length k, "
                      "against the list of the selected rows; read-only twin. "
                      "(5b) every ...ArrayFromBuffer constructor x sources strided along their FIRST dimension only (rows skipped or reversed, each row dense): all 55 distinct "
                      "selections [a:b:s], s in +-1,+-2,+-3, of a 6-row 1-D / (6,W) buffer of every element type and of every exporting imath array class: the call raises or "
                      "returns exactly the selected rows; dense selections of the right type must be copied. "
                      "(5c) every V2/V3/V4 ...ArrayFromBuffer x C-contiguous 2-D sources (r,c) of its own scalar type, r in 1..6, c in {2,3,4} (array casts and memoryviews of the imath "
                      "V<c> arrays): accepted element-exact iff c equals the vector width, otherwise an exception (also when r*c is a multiple of the width). "
                      "(4d) mask stores through a FixedVArray masked reference w = v[m1] with masks of BOTH admissible lengths (the view's and the unmasked one; all 0/1 masks): "
                      "w.size[m2] = scalar / IntArray and the row store w[m2] = array change row j of v iff m1[j] and m2 selects j in the index space of its length.",
        "level_note": "Bounded: lengths <= 5 (1-D; <= 4 in the quick aliasing / component stages), <= 3 per dimension (2-D, matrix, V-array), histories of depth 4 (quick) / 5 (thorough) on an array of "
                      "length 3 with at most 4 live handles, 3 objects per ownership scenario; element values are small integers. Elements are observed "
                      "through integer __getitem__ and repr(). The liveness oracle relies on which view kinds borrow storage, read off the anchored "
                      "code. In the plain build an out-of-bounds access that does not crash is invisible; the ASan pass covers that on the quick bounds.",
        "deadline": {"quick": 300, "thorough": 1500},
        "rule": "exhaustive enumeration over the stated small scopes plus explicit-state BFS over operation histories; states = array configurations, "
                "distinct history states, release schedules and buffer cases; non-trivial = classes counted by a predicate on the input: negative / "
                "out-of-range indices, zero-step / negative-step / clamped / empty slices, wrong-length and mixed masks, operations through "
                "read-only handles, expected rejections, owner-released-before-view schedules, mismatching / oversize / non-contiguous buffer sources, forward- and reverse-row-strided 1-D and 2-D buffer sources, "
                "indices beyond int / Py_ssize_t, non-binary and strided / masked / read-only masks, mixed masks under component views, aliasing stores "
                "with a read-after-write hazard, mutating members on read-only receivers",
        "assumptions": ["CPython 3.11 (/usr/bin/python3.11) and Boost.Python 1.83; module built with the repository's CMake files (-DPYTHON=ON, Release)",
                        "copy construction Array(a) shares a's storage (C++ copy constructor semantics of FixedArray); the writable flag belongs to the handle"],
    }
