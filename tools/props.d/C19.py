# C19 spec (see tools/props.py)
SPEC = {
        "ready": True,
        "custom": "py_driver", "script": "c19_explore.py", "engine": "py-explorer",
        "variants": {"thorough": [["asan", "c19_explore.py"]]},
        "technique": "bounded exhaustive exploration of the built imath Python module: small-scope enumeration of every index/slice/mask "
                     "against a Python-list model, explicit-state BFS over operation histories with an alias-bookkeeping model, all release "
                     "orders of owners and views with a weakref liveness oracle, nested-list models for 2-D/matrix/V-array/string arrays, "
                     "and the buffer protocol in both directions with every case in a forked child (plain build + AddressSanitizer build)",
        "level_text": "The imath extension module is rebuilt from the current tree and driven from CPython 3.11. (1) For each array class and every "
                      "length 0..5, every integer index -7..7, every slice with start,stop in {None,-7..7} and step in {None,+-1,+-2,+-3,0} and every "
                      "0/1 mask of length n-1,n,n+1 is applied through __getitem__, __setitem__ (scalar, array of right and wrong length, masked "
                      "with full-length and compressed sources), __len__, ifelse and masked references, on a writable array and a read-only twin, "
                      "and compared with the same operation on a Python list. (2) A breadth-first search enumerates every history of stores, "
                      "masked-view creation, copy construction, element references, makeReadOnly and in-place operators (through the array and "
                      "through every live view) up to the depth bound, checking in every reached state that every handle shows the model's "
                      "contents and flags, that a write through a read-only handle raises and changes nothing and that a failed operation "
                      "changes nothing. (3) An owner and two derived views are released in all six orders with a garbage collection after each "
                      "release; a weakref shows whether the storage holder is still alive while a view is reachable. (4) FixedArray2D, FixedMatrix "
                      "and FixedVArray are compared with nested lists for every index and forward slice of one dimension, and StringArray for "
                      "every store history over all interning orders. (5) memoryview export and the ...ArrayFromBuffer constructors are run for "
                      "every exporting class and every source type/length, each case in its own forked child so that a crash is an observed "
                      "outcome. The thorough tier repeats the exploration under an AddressSanitizer build of the module.",
        "level_note": "Bounded: lengths <= 5 (1-D), <= 3 per dimension (2-D, matrix, V-array), histories of depth 4 (quick) / 5 (thorough) on an array of "
                      "length 3 with at most 4 live handles, 3 objects per ownership scenario; element values are small integers. Elements are observed "
                      "through integer __getitem__ and repr(). The liveness oracle relies on which view kinds borrow storage, read off the anchored "
                      "code. In the plain build an out-of-bounds access that does not crash is invisible; the ASan pass covers that on the quick bounds.",
        "deadline": {"quick": 300, "thorough": 1500},
        "rule": "exhaustive enumeration over the stated small scopes plus explicit-state BFS over operation histories; states = array configurations, "
                "distinct history states, release schedules and buffer cases; non-trivial = classes counted by a predicate on the input: negative / "
                "out-of-range indices, zero-step / negative-step / clamped / empty slices, wrong-length and mixed masks, operations through "
                "read-only handles, expected rejections, owner-released-before-view schedules, mismatching / oversize / non-contiguous buffer sources",
        "assumptions": ["CPython 3.11 (/usr/bin/python3.11) and Boost.Python 1.83; module built with the repository's CMake files (-DPYTHON=ON, Release)",
                        "copy construction Array(a) shares a's storage (C++ copy constructor semantics of FixedArray); the writable flag belongs to the handle"],
    }
