#!/usr/bin/env python3
"""Replay every seeded change (seeded/<id>/patch.diff) against the CURRENT checks: scratch copy of /repo, apply, run the
quick check of the property recorded in meta.json (verified.checked_with_property, default: the id's prefix), expect exit 1
with a VIOLATION line. Writes seeded/RESULTS.md.   python3 tools/seeds_all.py [Cxx ...] [-j N]"""
import glob, json, os, subprocess, sys, time
from concurrent.futures import ThreadPoolExecutor
V = os.path.dirname(os.path.dirname(os.path.abspath(__file__)))
props = [a for a in sys.argv[1:] if a.startswith("C")]
jobs = int(sys.argv[sys.argv.index("-j") + 1]) if "-j" in sys.argv else 3


def one(d):
    sid = os.path.basename(d[:-1])
    m = json.load(open(d + "meta.json"))
    prop = m.get("verified", {}).get("checked_with_property", sid.split("-")[0])
    t0 = time.time()
    r = subprocess.run([sys.executable, os.path.join(V, "tools/mutant.py"), d + "patch.diff", prop, "quick"], stdout=subprocess.PIPE, stderr=subprocess.STDOUT, text=True)
    first = r.stdout.strip().splitlines()[0] if r.stdout.strip() else "??"
    sites = [l.split("site=")[1].split(" cases=")[0] for l in r.stdout.splitlines() if "site=" in l][:2]
    return sid, prop, first.split()[0], sites, time.time() - t0


dirs = [d for d in sorted(glob.glob(os.path.join(V, "seeded", "*/"))) if not props or os.path.basename(d[:-1]).split("-")[0] in props]
py = [d for d in dirs if os.path.basename(d[:-1]).split("-")[0] in ("C19", "C20")]
cpp = [d for d in dirs if d not in py]
rows = []
with ThreadPoolExecutor(jobs) as ex:
    for r in ex.map(one, cpp):
        rows.append(r); print("%s %s %s %.0fs" % (r[2], r[0], r[3][:1], r[4]), flush=True)
for d in py:                      # the bindings builds are heavy: one at a time
    r = one(d); rows.append(r); print("%s %s %s %.0fs" % (r[2], r[0], r[3][:1], r[4]), flush=True)
det = sum(1 for r in rows if r[2] == "DETECTED")
with open(os.path.join(V, "seeded", "RESULTS.md"), "w") as f:
    f.write("# Replay of all seeded changes against the current checks (%s)\n\n%d of %d detected by the quick tier.\n\n| seed | check | result | first sites |\n|---|---|---|---|\n" % (time.strftime("%Y-%m-%d %H:%M"), det, len(rows)))
    for sid, prop, res, sites, _ in sorted(rows):
        f.write("| %s | %s | %s | %s |\n" % (sid, prop, res, ", ".join("`%s`" % s.replace("|", "/") for s in sites)))
print("%d/%d detected" % (det, len(rows)))
