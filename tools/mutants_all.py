#!/usr/bin/env python3
"""Run every mutants/<Cxx>-*.patch against its property's quick check; append results to mutants/RESULTS.md.
   python3 tools/mutants_all.py [Cxx ...] [--suite] [-j N]"""
import glob, os, re, subprocess, sys, time
from concurrent.futures import ThreadPoolExecutor
V = os.path.dirname(os.path.dirname(os.path.abspath(__file__)))
args = sys.argv[1:]
jobs = 1
if "-j" in args:
    i = args.index("-j"); jobs = int(args[i + 1]); del args[i:i + 2]
props = [a for a in args if not a.startswith("--")]
suite = ["--suite"] if "--suite" in args else []


def one(p):
    pid = os.path.basename(p).split("-")[0]
    r = subprocess.run([sys.executable, os.path.join(V, "tools/mutant.py"), p, pid, "quick"] + suite, stdout=subprocess.PIPE, stderr=subprocess.STDOUT, text=True)
    first = r.stdout.strip().splitlines()[0] if r.stdout.strip() else "??"
    print(first, flush=True)
    return "| %s | %s | %s |" % (pid, os.path.basename(p), first)


ps = [p for p in sorted(glob.glob(os.path.join(V, "mutants", "C*-*.patch"))) if not props or os.path.basename(p).split("-")[0] in props]
py = [p for p in ps if os.path.basename(p).split("-")[0] in ("C19", "C20")]
cpp = [p for p in ps if p not in py]
with ThreadPoolExecutor(jobs) as ex:
    out = list(ex.map(one, cpp))
with ThreadPoolExecutor(max(1, jobs // 2)) as ex:          # the bindings builds are heavy
    out += list(ex.map(one, py))
with open(os.path.join(V, "mutants", "RESULTS.md"), "a") as f:
    f.write("\n## run %s\n\n| property | patch | result |\n|---|---|---|\n" % time.strftime("%Y-%m-%d %H:%M"))
    f.write("\n".join(out) + "\n")
