#!/usr/bin/env python3
"""Run every mutants/<Cxx>-*.patch against its property's quick check; append results to mutants/RESULTS.md.
   python3 tools/mutants_all.py [Cxx ...] [--suite]"""
import glob, os, re, subprocess, sys, time
V = os.path.dirname(os.path.dirname(os.path.abspath(__file__)))
props = [a for a in sys.argv[1:] if not a.startswith("--")]
suite = ["--suite"] if "--suite" in sys.argv else []
out = []
for p in sorted(glob.glob(os.path.join(V, "mutants", "C*-*.patch"))):
    pid = os.path.basename(p).split("-")[0]
    if props and pid not in props: continue
    r = subprocess.run([sys.executable, os.path.join(V, "tools/mutant.py"), p, pid, "quick"] + suite, stdout=subprocess.PIPE, stderr=subprocess.STDOUT, text=True)
    first = r.stdout.strip().splitlines()[0] if r.stdout.strip() else "??"
    print(first, flush=True)
    out.append("| %s | %s | %s |" % (pid, os.path.basename(p), first))
with open(os.path.join(V, "mutants", "RESULTS.md"), "a") as f:
    f.write("\n## run %s\n\n| property | patch | result |\n|---|---|---|\n" % time.strftime("%Y-%m-%d %H:%M"))
    f.write("\n".join(out) + "\n")
