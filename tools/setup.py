#!/usr/bin/env python3
"""Offline setup after a fresh restore: verify the tool-chain and warm the slow builds."""
import os, subprocess, sys, shutil
VERIF = os.path.dirname(os.path.dirname(os.path.abspath(__file__)))
os.makedirs(os.path.join(VERIF, "build"), exist_ok=True)
for t in ("g++", "clang++", "cmake", "ninja"):
    if not shutil.which(t):
        print("missing tool:", t); sys.exit(1)
r = subprocess.run(["cmake", "-G", "Ninja", "-S", os.environ.get("VERIF_REPO", "/repo"), "-B", os.path.join(VERIF, "build/cfg-main"),
                    "-DBUILD_TESTING=OFF", "-DCMAKE_BUILD_TYPE=RelWithDebInfo"], stdout=subprocess.DEVNULL)
if r.returncode: sys.exit(r.returncode)
pyb = os.path.join(VERIF, "tools", "pybuild.py")
if os.path.exists(pyb):
    sys.exit(subprocess.run([sys.executable, pyb, "--warm"]).returncode)
print("setup ok")
