# Per-property build/run table used by tools/check.py and tools/gen_manifest.py.
# One fragment per property in tools/props.d/Cxx.py defining SPEC = {...}:
#   ready        True once both tiers have been run end-to-end on the unchanged tree
#   sources      harness TUs under /verif/harness (compiled in parallel)
#   lib          which of the repository's library .cpp files to compile in (default: all five)
#   flags/ldflags/cxx  extra compiler settings
#   deadline     {"quick": seconds, "thorough": seconds} global deadline handed to the harness
#   custom       name of a module in tools/ with main(prop, tier, seed, replay) replacing the generic C++ flow
#   rule, assumptions, technique, level_text, level_note   evidence / manifest texts
import glob, os, runpy
PROPS = {}
for _f in sorted(glob.glob(os.path.join(os.path.dirname(os.path.abspath(__file__)), "props.d", "C*.py"))):
    PROPS[os.path.basename(_f)[:-3]] = runpy.run_path(_f)["SPEC"]
