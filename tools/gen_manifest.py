#!/usr/bin/env python3
"""Regenerates /verif/MANIFEST.json from tools/props.py (single source of truth)."""
import json, os, sys
VERIF = os.path.dirname(os.path.dirname(os.path.abspath(__file__)))
sys.path.insert(0, os.path.join(VERIF, "tools"))
from props import PROPS

ALL = ["C%02d" % i for i in range(1, 21)]
HOLD = set(open(os.path.join(VERIF, "tools", "hold.txt")).read().split()) if os.path.exists(os.path.join(VERIF, "tools", "hold.txt")) else set()
checks, na = [], []
for pid in ALL:
    s = PROPS.get(pid)
    if not s or not s.get("ready") or pid in HOLD:
        na.append({"property_id": pid, "reason": (s or {}).get("na_reason", "check not built yet at this commit (work in progress; see DESIGN.md section 1 for the planned bounded exhaustive exploration)")})
        continue
    c = {
        "property_id": pid,
        "quick_cmd": "python3 tools/check.py %s quick" % pid,
        "thorough_cmd": "python3 tools/check.py %s thorough" % pid,
        "evidence_file": "evidence/%s.json" % pid,
        "replay_cmd_template": "python3 tools/check.py %s quick --replay {path}" % pid,
        "engine": s.get("engine", "cpp-enumerator"),
        "level_claimed": {"category": "model_checking", "text": s["level_text"], "design_ref": "DESIGN.md section 1, " + pid},
        "level_note": s["level_note"],
        "technique": s["technique"],
    }
    checks.append(c)

m = {
    "version": 1,
    "setup_cmd": "python3 tools/setup.py",
    "hooks": {
        "guard": "IMATH_VERIF",
        "enable": "no source hooks are needed: harnesses instantiate the templates from /repo/src/Imath directly, compile the library .cpp files themselves, and (C19/C20) install a scripted WorkerPool through PyImath's public WorkerPool::setCurrentPool seam; nothing in /repo is guarded",
        "baseline_off_cmd": "cmake --build /repo/_build && ctest --test-dir /repo/_build -j8 --timeout 900",
        "source_commits": [],
        "add_only": True,
    },
    "engines": [
        {"name": "cpp-enumerator", "path": "engine/", "serves_properties": [p for p in ALL if PROPS.get(p, {}).get("ready") and PROPS[p].get("engine", "cpp-enumerator") == "cpp-enumerator"],
         "kind_free_text": "bounded exhaustive enumeration (lattices, boundary alphabets, whole bit-pattern spaces, explicit-state BFS over op histories) of the real implementation, 16-way sharded, exact/definition oracles"},
        {"name": "py-explorer", "path": "py/", "serves_properties": [p for p in ALL if PROPS.get(p, {}).get("ready") and PROPS[p].get("engine") == "py-explorer"],
         "kind_free_text": "explicit-state / small-scope exhaustive exploration of the built PyImath module (histories, ownership orders, scripted WorkerPool partitions and orders)"},
    ],
    "checks": checks,
    "not_applicable": na,
    "notes": "All checks are bounded exhaustive exploration of the real code (no sampling, no solver). Exit 2 from a check means the machinery failed (build error / vacuous run), never a violation. known_findings.json lists genuine defects (open / fixed).",
}
json.dump(m, open(os.path.join(VERIF, "MANIFEST.json"), "w"), indent=1)
print("MANIFEST.json: %d checks, %d not_applicable" % (len(checks), len(na)))
