// Common reporting / driver core for all C++ harnesses.
//
// A harness is a set of *stages*. Every stage enumerates a finite space completely
// (or stops at a shard boundary when the global deadline is hit, which clears
// `exhaustive`). Counters are measured, never constants. Violations carry a stable
// `site` (which relation of which entry point failed) and the failing input.
#pragma once
#include <atomic>
#include <chrono>
#include <cinttypes>
#include <cmath>
#include <cstdint>
#include <cstdio>
#include <cstdlib>
#include <cstring>
#include <functional>
#include <map>
#include <mutex>
#include <set>
#include <sstream>
#include <string>
#include <thread>
#include <vector>

namespace vf {

inline std::string jesc (const std::string& s)
{
    std::string o;
    for (unsigned char c : s)
    {
        if (c == '"') o += "\\\"";
        else if (c == '\\') o += "\\\\";
        else if (c == '\n') o += "\\n";
        else if (c == '\t') o += "\\t";
        else if (c < 0x20) { char b[8]; snprintf (b, sizeof b, "\\u%04x", c); o += b; }
        else o += (char) c;
    }
    return o;
}

// --- value formatting (exact, re-parsable) ---------------------------------
inline std::string fmt (float v)   { char b[64]; uint32_t u; memcpy (&u, &v, 4); snprintf (b, sizeof b, "%a[0x%08x]", (double) v, u); return b; }
inline std::string fmt (double v)  { char b[80]; uint64_t u; memcpy (&u, &v, 8); snprintf (b, sizeof b, "%a[0x%016" PRIx64 "]", v, u); return b; }
inline std::string fmt (long double v) { char b[80]; snprintf (b, sizeof b, "%La", v); return b; }
inline std::string fmt (int v)     { return std::to_string (v); }
inline std::string fmt (unsigned v){ return std::to_string (v); }
inline std::string fmt (long v)    { return std::to_string (v); }
inline std::string fmt (long long v){ return std::to_string (v); }
inline std::string fmt (unsigned long v){ return std::to_string (v); }
inline std::string fmt (unsigned long long v){ return std::to_string (v); }
inline std::string fmt (short v)   { return std::to_string ((int) v); }
inline std::string fmt (unsigned short v) { return std::to_string ((unsigned) v); }
inline std::string fmt (unsigned char v) { return std::to_string ((unsigned) v); }
inline std::string fmt (signed char v) { return std::to_string ((int) v); }
inline std::string fmt (char v) { return std::to_string ((int) v); }
inline std::string fmt (bool v)    { return v ? "true" : "false"; }
inline std::string fmt (const char* s) { return s; }
inline std::string fmt (const std::string& s) { return s; }

struct Msg
{
    std::ostringstream os;
    template <class T> Msg& operator<< (const T& v) { os << fmt (v); return *this; }
    std::string str () const { return os.str (); }
    operator std::string () const { return os.str (); }
};

struct Violation
{
    std::string site, stage, input, expected, got;
};

class Report
{
  public:
    std::string property, tier = "quick", out_path, replay_filter_site, replay_filter_input;
    long long   seed       = 0;
    double      deadline_s = 1e18;
    bool        replay     = false;
    std::set<std::string> only_stages;

    std::chrono::steady_clock::time_point t0 = std::chrono::steady_clock::now ();

    double elapsed () const
    {
        return std::chrono::duration<double> (std::chrono::steady_clock::now () - t0).count ();
    }
    bool out_of_time () const { return elapsed () > deadline_s; }

    // ---- counters ----
    void add (const std::string& k, long long n)
    {
        std::lock_guard<std::mutex> g (mu);
        counters[k] += n;
    }
    // outcome / branch classes (non-trivial by rule); each class must be non-empty
    void cls (const std::string& k, long long n)
    {
        std::lock_guard<std::mutex> g (mu);
        classes[k] += n;
    }
    void sample (const std::string& s)
    {
        std::lock_guard<std::mutex> g (mu);
        if (samples.size () < 24) samples.push_back (s);
    }
    void note (const std::string& k, const std::string& v)
    {
        std::lock_guard<std::mutex> g (mu);
        notes[k] = v;
    }
    void note_max (const std::string& k, double v)
    {
        std::lock_guard<std::mutex> g (mu);
        auto it = maxima.find (k);
        if (it == maxima.end () || v > it->second) maxima[k] = v;
    }
    void assume (const std::string& s)
    {
        std::lock_guard<std::mutex> g (mu);
        assumptions.insert (s);
    }

    // ---- violations ----
    void fail (const std::string& site, const std::string& input,
               const std::string& expected = "", const std::string& got = "")
    {
        std::lock_guard<std::mutex> g (mu);
        long long& c = vcount[site];
        ++c;
        if (c <= 4) viols.push_back ({site, cur_stage, input, expected, got});
        if (replay)
            fprintf (stderr, "REPLAY-FAIL site=%s input=%s expected=%s got=%s\n",
                     site.c_str (), input.c_str (), expected.c_str (), got.c_str ());
    }
    // bulk form: n further failures at a site (e.g. counted in a forked worker), first example optional
    void fail_n (const std::string& site, long long n, const std::string& input = "", const std::string& expected = "",
                 const std::string& got = "")
    {
        if (n <= 0) return;
        std::lock_guard<std::mutex> g (mu);
        long long& c = vcount[site];
        if (c < 4 && !input.empty ()) viols.push_back ({site, cur_stage, input, expected, got});
        c += n;
    }
    bool has_failures () const { return !vcount.empty (); }

    // ---- stages ----
    // returns false if the stage must be skipped (filtered, or deadline already hit)
    bool stage (const std::string& name)
    {
        std::lock_guard<std::mutex> g (mu);
        if (!only_stages.empty () && !only_stages.count (name)) return false;
        if (elapsed () > deadline_s)
        {
            exhaustive = false;
            skipped.push_back (name);
            return false;
        }
        cur_stage = name;
        stage_t0  = elapsed ();
        return true;
    }
    void stage_done (const std::string& bound)
    {
        std::lock_guard<std::mutex> g (mu);
        char b[64];
        snprintf (b, sizeof b, " [%.1fs]", elapsed () - stage_t0);
        completed.push_back (cur_stage + ": " + bound + b);
        fprintf (stderr, "  stage %s: %s%s\n", cur_stage.c_str (), bound.c_str (), b);
    }
    void stage_partial (const std::string& bound)
    {
        std::lock_guard<std::mutex> g (mu);
        exhaustive = false;
        completed.push_back (cur_stage + ": PARTIAL (deadline) " + bound);
    }

    void parse (int argc, char** argv)
    {
        for (int i = 1; i < argc; ++i)
        {
            std::string a = argv[i];
            auto next = [&] () -> std::string { return (i + 1 < argc) ? argv[++i] : ""; };
            if (a == "--tier") tier = next ();
            else if (a == "--seed") seed = atoll (next ().c_str ());
            else if (a == "--out") out_path = next ();
            else if (a == "--deadline") deadline_s = atof (next ().c_str ());
            else if (a == "--stage") only_stages.insert (next ());
            else if (a == "--replay-site") { replay = true; replay_filter_site = next (); }
            else if (a == "--replay-input") { replay = true; replay_filter_input = next (); }
        }
    }
    bool thorough () const { return tier == "thorough"; }

    int finish ()
    {
        std::lock_guard<std::mutex> g (mu);
        // vacuity self-check: every declared outcome class must be non-empty
        std::vector<std::string> empty_classes;
        for (auto& kv : classes)
            if (kv.second == 0) empty_classes.push_back (kv.first);
        FILE* f = out_path.empty () ? stdout : fopen (out_path.c_str (), "w");
        if (!f) { perror ("open report"); return 2; }
        fprintf (f, "{\n \"property\": \"%s\",\n \"tier\": \"%s\",\n \"seed\": %lld,\n", property.c_str (), tier.c_str (), seed);
        fprintf (f, " \"wall_s\": %.3f,\n \"exhaustive\": %s,\n", elapsed (), exhaustive ? "true" : "false");
        fprintf (f, " \"counters\": {");
        bool first = true;
        for (auto& kv : counters) { fprintf (f, "%s\"%s\": %lld", first ? "" : ", ", jesc (kv.first).c_str (), kv.second); first = false; }
        fprintf (f, "},\n \"classes\": {");
        first = true;
        for (auto& kv : classes) { fprintf (f, "%s\"%s\": %lld", first ? "" : ", ", jesc (kv.first).c_str (), kv.second); first = false; }
        fprintf (f, "},\n \"maxima\": {");
        first = true;
        for (auto& kv : maxima)
        {   // JSON has no inf/nan
            double v = kv.second;
            if (!(v == v)) v = -1;
            else if (v > 1e300) v = 1e300;
            else if (v < -1e300) v = -1e300;
            fprintf (f, "%s\"%s\": %.6g", first ? "" : ", ", jesc (kv.first).c_str (), v);
            first = false;
        }
        fprintf (f, "},\n \"notes\": {");
        first = true;
        for (auto& kv : notes) { fprintf (f, "%s\"%s\": \"%s\"", first ? "" : ", ", jesc (kv.first).c_str (), jesc (kv.second).c_str ()); first = false; }
        fprintf (f, "},\n \"stages_completed\": [");
        first = true;
        for (auto& s : completed) { fprintf (f, "%s\"%s\"", first ? "" : ", ", jesc (s).c_str ()); first = false; }
        fprintf (f, "],\n \"stages_skipped\": [");
        first = true;
        for (auto& s : skipped) { fprintf (f, "%s\"%s\"", first ? "" : ", ", jesc (s).c_str ()); first = false; }
        fprintf (f, "],\n \"empty_classes\": [");
        first = true;
        for (auto& s : empty_classes) { fprintf (f, "%s\"%s\"", first ? "" : ", ", jesc (s).c_str ()); first = false; }
        fprintf (f, "],\n \"assumptions\": [");
        first = true;
        for (auto& s : assumptions) { fprintf (f, "%s\"%s\"", first ? "" : ", ", jesc (s).c_str ()); first = false; }
        fprintf (f, "],\n \"samples\": [");
        first = true;
        for (auto& s : samples) { fprintf (f, "%s\"%s\"", first ? "" : ", ", jesc (s).c_str ()); first = false; }
        fprintf (f, "],\n \"violation_counts\": {");
        first = true;
        for (auto& kv : vcount) { fprintf (f, "%s\"%s\": %lld", first ? "" : ", ", jesc (kv.first).c_str (), kv.second); first = false; }
        fprintf (f, "},\n \"violations\": [");
        first = true;
        for (auto& v : viols)
        {
            fprintf (f, "%s\n  {\"site\": \"%s\", \"stage\": \"%s\", \"input\": \"%s\", \"expected\": \"%s\", \"got\": \"%s\"}",
                     first ? "" : ",", jesc (v.site).c_str (), jesc (v.stage).c_str (), jesc (v.input).c_str (),
                     jesc (v.expected).c_str (), jesc (v.got).c_str ());
            first = false;
        }
        fprintf (f, "]\n}\n");
        if (f != stdout) fclose (f);
        return 0;
    }

  private:
    std::mutex                       mu;
    std::map<std::string, long long> counters, classes, vcount;
    std::map<std::string, double>    maxima;
    std::map<std::string, std::string> notes;
    std::set<std::string>            assumptions;
    std::vector<std::string>         samples, completed, skipped;
    std::vector<Violation>           viols;
    std::string                      cur_stage;
    double                           stage_t0   = 0;
    bool                             exhaustive = true;
};

inline Report& R ()
{
    static Report r;
    return r;
}

// ---- parallel enumeration ---------------------------------------------------
// Static chunking over [0,n): chunk c covers [c*chunk, min(n,(c+1)*chunk)). Chunks are
// handed out through an atomic counter; the *set* of cases is independent of the
// schedule. `seed` rotates the chunk visiting order only. Returns number of chunks
// completed (== total unless the deadline was hit).
inline unsigned nthreads ()
{
    const char* e = getenv ("VERIF_THREADS");
    unsigned    n = e ? (unsigned) atoi (e) : std::thread::hardware_concurrency ();
    return n ? n : 4;
}

template <class F>
inline bool parallel_chunks (uint64_t n, uint64_t chunk, F&& fn)
{
    if (n == 0) return true;
    uint64_t              nchunks = (n + chunk - 1) / chunk;
    std::atomic<uint64_t> next (0);
    std::atomic<bool>     stop (false);
    uint64_t              rot = nchunks ? (uint64_t) R ().seed % nchunks : 0;
    unsigned              nt  = nthreads ();
    if (nt > nchunks) nt = (unsigned) nchunks;
    std::vector<std::thread> th;
    for (unsigned t = 0; t < nt; ++t)
        th.emplace_back ([&, t] () {
            for (;;)
            {
                uint64_t c = next.fetch_add (1);
                if (c >= nchunks) break;
                if (R ().out_of_time ()) { stop = true; break; }
                uint64_t cc = (c + rot) % nchunks;
                uint64_t lo = cc * chunk, hi = lo + chunk;
                if (hi > n) hi = n;
                fn (lo, hi, t);
            }
        });
    for (auto& x : th) x.join ();
    return !stop.load ();
}

} // namespace vf

#define VF_MAIN_BEGIN(PROP)                                                    \
    int main (int argc, char** argv)                                           \
    {                                                                          \
        vf::R ().property = PROP;                                              \
        vf::R ().parse (argc, argv);

#define VF_MAIN_END                                                            \
        return vf::R ().finish ();                                             \
    }
