// Independent reference model of IEEE-754 binary16, written from the definition of the
// format (value = (-1)^s * 2^(e-15) * (1 + m/1024), subnormals m * 2^-24, e == 31 inf/NaN)
// and of round-to-nearest-even. Uses long double (64-bit significand, 15-bit exponent):
// every float, every half value and every midpoint between adjacent halves is exact in it.
#pragma once
#include <cmath>
#include <cstdint>
#include <cstring>

namespace href {

inline uint32_t fbits (float f) { uint32_t u; memcpy (&u, &f, 4); return u; }
inline float    bitsf (uint32_t u) { float f; memcpy (&f, &u, 4); return f; }

// magnitude denoted by the 15 low bits of a finite half pattern (h15 <= 0x7c00; 0x7c00 -> 65536,
// the value the format *would* have there; used for the overflow midpoint 65520)
inline long double half_mag (uint32_t h15)
{
    uint32_t e = h15 >> 10, m = h15 & 0x3ff;
    if (e == 0) return ldexpl ((long double) m, -24);
    return ldexpl ((long double) (1024 + m), (int) e - 25);
}

// half pattern -> float bit pattern (exact; NaN keeps sign and payload in the top 10 bits)
inline uint32_t h2f_ref (uint16_t h)
{
    uint32_t s = (uint32_t) (h >> 15) << 31, e = (h >> 10) & 31, m = h & 0x3ff;
    if (e == 31) return s | 0x7f800000u | (m << 13);
    float v = (float) half_mag (h & 0x7fff); // exact: 11 significant bits, exponent in float range
    return s | fbits (v);
}

// float bit pattern -> half pattern, by the definition (slow form: binary search for the
// neighbours among all 31745 finite magnitudes, exact comparison with the midpoint)
inline uint16_t f2h_ref_search (uint32_t fb)
{
    uint16_t s  = (uint16_t) ((fb >> 16) & 0x8000);
    uint32_t ab = fb & 0x7fffffffu;
    if (ab > 0x7f800000u)
    {
        uint32_t p = (ab & 0x7fffff) >> 13;
        return s | 0x7c00 | (uint16_t) (p ? p : 1);
    }
    if (ab == 0x7f800000u) return s | 0x7c00;
    long double ax = (long double) bitsf (ab);
    if (ax >= 65536.0L) return s | 0x7c00;
    uint32_t lo = 0, hi = 0x7c00; // invariant: mag(lo) <= ax < mag(hi)
    while (hi - lo > 1)
    {
        uint32_t mid = (lo + hi) / 2;
        if (half_mag (mid) <= ax) lo = mid; else hi = mid;
    }
    long double mp = (half_mag (lo) + half_mag (hi)) / 2; // exact
    uint32_t    r;
    if (ax < mp) r = lo;
    else if (ax > mp) r = hi;
    else r = (lo & 1) ? hi : lo; // tie: even significand (pattern parity == significand parity)
    return s | (uint16_t) r;
}

// fast form: arithmetic on the exact value (no bit tricks shared with the implementation)
inline uint16_t f2h_ref (uint32_t fb)
{
    uint16_t s  = (uint16_t) ((fb >> 16) & 0x8000);
    uint32_t ab = fb & 0x7fffffffu;
    if (ab >= 0x7f800000u)
    {
        if (ab == 0x7f800000u) return s | 0x7c00;
        uint32_t p = (ab & 0x7fffff) >> 13;
        return s | 0x7c00 | (uint16_t) (p ? p : 1);
    }
    // double is enough here: a float has 24 significant bits, all scalings are by powers of two
    double ax = (double) bitsf (ab);
    if (ax >= 65536.0) return s | 0x7c00;
    double   q;     // ax in units of the local spacing
    uint32_t base;  // pattern of the grid point q == qbase
    double   qbase;
    if (ax < 6.103515625e-05 /* 2^-14 */) { q = ax * 16777216.0 /* 2^24 */; base = 0; qbase = 0; }
    else
    {
        int e;
        (void) frexp (ax, &e); // ax = f * 2^e, f in [0.5,1) -> floor(log2 ax) = e-1
        int E = e - 1;         // -14 .. 15
        q     = ldexp (ax, 10 - E); // in [1024, 2048)
        base  = (uint32_t) (E + 15) << 10;
        qbase = 1024;
    }
    double   fl   = (double) (long long) q; // q >= 0: truncation == floor
    double   frac = q - fl;
    uint32_t r    = base + (uint32_t) (fl - qbase);
    if (frac > 0.5) r += 1;
    else if (frac == 0.5) r += (r & 1);
    return s | (uint16_t) r; // r may be 0x7c00 (rounded up to "65536") == infinity, as IEEE requires
}

} // namespace href
