// C13 set-level stage, element type half (Interval<half>, Box2h, Box3h, generic template in 2-D/3-D/4-D)
#include "c13_sets.hpp"
namespace c13 { template bool run_sets<half> (bool); }
