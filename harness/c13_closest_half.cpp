// C13 clip / closestPointInBox / closestPointOnBox, element type half
#include "c13_closest.hpp"
namespace c13 { template bool run_closest<half> (bool); }
