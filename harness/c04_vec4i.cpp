#include "c04.hpp"
namespace c04 {
void register_vec4i (Jobs& jobs) { reg_vec<Vec4<short>> (jobs); reg_vec<Vec4<int>> (jobs); reg_vec<Vec4<int64_t>> (jobs); }
}
