// C16 (part b) — Frustum::planes(p, M) and FrustumTest (isVisible point/box/sphere, completelyContains) under camera
// matrices M = scale(s) . R . translate(t):  24 cube rotations x lattice translations x uniform scale {1/2,1,2}.
//
// World geometry is obtained from the camera-space definition (c16.hpp: ideal()) through x' = s (x R) + t; the oracle
// always pulls the *actual* T-valued world input back to camera space exactly ((x'-t) R^T / s in long double) and evaluates
// the six defining inequalities there, so no oracle value depends on library code.
//
// Margins.  planes(p, M) builds plane i from three transformed points X0,X1,X2 (recorded in Ideal::def) whose coordinates
// carry at most delta = 2 eps S_i of rounding, S_i = 1 + max |X_k|_1.
//  (a) a plane through three points perturbed by delta moves, at a point x of (or near) the plane, by at most
//      delta (1 + 2 L), L = |x-X0| / h_i the lever arm (h_i = smallest altitude of the triangle; barycentric extrapolation);
//  (b) each component of (X1-X0)x(X2-X0) is a difference of two rounded products, absolute error <= 2 eps |a||b|, i.e. an
//      angular error of the normal <= 3.5 eps / sin(angle) and a displacement at x of <= 7 eps S_i L;
//  (c) normalisation (3 eps |x-X0|_1), the offset n.X0 (eps S_i) and FrustumTest's own n.x - d (4 eps (|x|_1 + |d|)) are
//      not levered: <= 8 eps (|x|_1 + S_i).
// (a)+(b) <= eps S_i (2 + 11 L), so
//     margin_i(x) = 16 eps ( S_i (1 + |x - X0|_1 / h_i) + |x|_1 )
// bounds the total with room to spare (for points within the defining triangle's reach this is DESIGN.md's "16 eps scale";
// the lever term is what keeps it sound for a perspective side plane evaluated far/near times further out than its
// defining points).  Points/objects whose decisive inequality lies inside the margin are unconstrained and only counted.
// On the dyadic orthographic sub-alphabet everything is exact, the margin is 0 and points on a plane must be reported
// not visible (open region).
#include "c16.hpp"
#include <functional>
#include <map>

namespace c16 {
using namespace vf;

struct Cam { int rot; int t[3]; double s; bool ft; };

struct Obj { L3 c; LD hx, hy, hz; int face; }; // camera-space centre, half extents (sphere: hx = radius)

template <class T> static void ftest ()
{
    const LD   e  = ex::eps<T> ();
    const bool th = R ().thorough ();
    const auto FS = frusta ();
    const auto RT = ex::cube_rotations ();
    std::string st = std::string ("planesM-frustumtest.") + tname<T> ();
    if (!R ().stage (st)) return;
    // cameras.  planes(M) is checked for every camera; FrustumTest (the expensive part) on the cameras flagged ft.
    //   quick   : every rotation once, with translation / scale cycling through 3 x 3 values, plus the identity rotation
    //             with all 9 (translation, scale) combinations                                  (33 cameras, all ft)
    //   thorough: 24 rotations x L(2)^3 translations x 3 scales for planes(M) (9000 cameras); FrustumTest on the full
    //             product 24 x {(0,0,0),(1,-2,2),(-2,1,0)} x 3 (216 cameras) - the cost is dominated by the ~800 oracle
    //             evaluations per (frustum, camera) pair, and the machine is shared
    std::vector<Cam> cams;
    {
        const int TT[][3] = {{0, 0, 0}, {1, -2, 2}, {-2, 1, 0}};
        const double SCS[] = {0.5, 1.0, 2.0};
        if (!th)
        {
            for (int r = 0; r < 24; ++r) cams.push_back ({r, {TT[r % 3][0], TT[r % 3][1], TT[r % 3][2]}, SCS[(r / 3) % 3], true});
            for (int t = 0; t < 3; ++t) for (double sc : SCS) cams.push_back ({0, {TT[t][0], TT[t][1], TT[t][2]}, sc, true});
        }
        else
            for (int r = 0; r < 24; ++r) for (double sc : SCS)
                for (int x = -2; x <= 2; ++x) for (int y = -2; y <= 2; ++y) for (int z = -2; z <= 2; ++z)
                {
                    bool ft = false;
                    for (int t = 0; t < 3; ++t) if (TT[t][0] == x && TT[t][1] == y && TT[t][2] == z) ft = true;
                    cams.push_back ({r, {x, y, z}, sc, ft});
                }
    }
    std::atomic<ll> n_pl (0), n_pt_in (0), n_pt_out (0), n_pt_margin (0), n_pt_on (0), n_sv (0), n_sc (0), n_bv (0), n_bc (0), n_obj_un (0), n_cam (0), n_ftcam (0), n_aniso (0), n_hb (0), n_hbc (0), n_hbv (0), n_hb_inf (0), n_hb_ovf2 (0), n_hb_half (0), n_hb_un (0), n_hbs (0), done (0);
    std::mutex mm; double w_pl = 0;
    bool ok = parallel_chunks (FS.size (), 1, [&] (uint64_t lo, uint64_t hi, unsigned) {
        for (uint64_t fi = lo; fi < hi; ++fi)
        {
            const FSpec& F = FS[fi];
            Frustum<T>   fr = F.make<T> ();
            const Ideal  I  = ideal (F);
            const auto   G  = grid (F);
            ll k_pl = 0, k_in = 0, k_out = 0, k_mg = 0, k_on = 0, k_sv = 0, k_sc = 0, k_bv = 0, k_bc = 0, k_un = 0, k_cam = 0, k_ft = 0, k_aniso = 0, k_hb = 0, k_hbc = 0, k_hbv = 0, k_hb_inf = 0, k_hb_ovf2 = 0, k_hb_half = 0, k_hb_un = 0, k_hbs = 0; double lw = 0;
            // per-plane camera-space constants for the margin
            LD Sdef[6], hmin[6]; L3 X0[6];
            for (int i = 0; i < 6; ++i)
            {
                L3 a = I.pt (I.def[i][0]), b = I.pt (I.def[i][1]), c = I.pt (I.def[i][2]); X0[i] = a;
                Sdef[i] = std::max (l1 (a), std::max (l1 (b), l1 (c)));
                LD ar2 = len (cross (b - a, c - a));
                hmin[i] = ar2 / std::max (len (b - a), std::max (len (c - b), len (a - c)));
            }
            // objects: for each face, centres displaced by -+ delta along the face axis from the face centre (taken at mid
            // depth / mid window), sizes delta/2 and 2 delta; plus the centroid with a small and an all-enclosing size
            std::vector<Obj> objs;
            LD emin_c = 0; // smallest extent of the frustum at mid depth (camera space)
            {
                LD n = F.n, f = F.f, m = (n + f) / 2, km = F.ortho ? 1 : m / n;
                LD ex_ = (F.r - F.l) * km, ey = (F.t - F.b) * km, ez = f - n;
                L3 fc[6] = {{I.centre.x, F.t * km, -m}, {F.r * km, I.centre.y, -m}, {I.centre.x, F.b * km, -m}, {F.l * km, I.centre.y, -m},
                            {(F.l + F.r) / 2, (F.b + F.t) / 2, -n}, {I.centre.x * (F.ortho ? 1 : f / m), I.centre.y * (F.ortho ? 1 : f / m), -f}};
                L3 ax[6] = {{0, 1, 0}, {1, 0, 0}, {0, -1, 0}, {-1, 0, 0}, {0, 0, 1}, {0, 0, -1}};
                LD dl[6] = {ey / 4, ex_ / 4, ey / 4, ex_ / 4, ez / 4, ez / 4};
                for (int i = 0; i < 6; ++i)
                    for (int sgn = -1; sgn <= 1; sgn += 2)
                        for (LD sz : {dl[i] / 2, 2 * dl[i]})
                        {
                            objs.push_back ({fc[i] + ax[i] * (sgn * dl[i]), sz, sz, sz, i});
                            objs.push_back ({fc[i] + ax[i] * (sgn * dl[i]), sz, sz / 4, sz / 2, i}); // flat box (sphere uses hx)
                        }
                LD emin = std::min (ex_, std::min (ey, ez)), emax = std::max (ex_ * (F.ortho ? 1 : 2), std::max (ey * (F.ortho ? 1 : 2), ez));
                emin_c = emin;
                objs.push_back ({I.centre, emin / 8, emin / 8, emin / 8, 6});
                objs.push_back ({I.centre, 4 * emax, 4 * emax, 4 * emax, 6});
            }
            // candidate witnesses per object: grid points inside the object with 0.1 % to spare (camera space)
            std::vector<std::vector<int>> wit_s (objs.size ()), wit_b (objs.size ());
            for (size_t o = 0; o < objs.size (); ++o)
                for (size_t g = 0; g < G.size (); ++g)
                {
                    L3 d = G[g] - objs[o].c;
                    if (len (d) < objs[o].hx * 0.999L) wit_s[o].push_back ((int) g);
                    if (fabsl (d.x) < objs[o].hx * 0.999L && fabsl (d.y) < objs[o].hy * 0.999L && fabsl (d.z) < objs[o].hz * 0.999L) wit_b[o].push_back ((int) g);
                }

            // ---------------- planes(M) == planes() * M, also for NON-UNIFORMLY scaled and sheared affine matrices
            // (planes(M) transforms the corner points, planes()*M transforms each plane: both must describe the plane
            // through the transformed defining points, whatever the linear part of M is)
            {
                Plane3<T> P0[6];
                fr.planes (P0);
                static const double LIN[4][9] = {{1, 0, 0, 0, 2, 0, 0, 0, 4}, {2, 0, 0, 0, 0.5, 0, 0, 0, 1}, {1, 0.5, 0, 0, 1, 0, 0.25, 0, 1}, {1, 0, 0, 1, 2, 0, 0, -0.5, 1}};
                for (int li = 0; li < 4; ++li)
                    for (int ri = 0; ri < 24; ri += 5)
                    {
                        const auto& Rm = RT[ri];
                        LD A[3][3];
                        for (int r = 0; r < 3; ++r) for (int c = 0; c < 3; ++c) { A[r][c] = 0; for (int k = 0; k < 3; ++k) A[r][c] += (LD) LIN[li][r * 3 + k] * Rm[k * 3 + c]; }
                        const L3 tr = {1, -2, 3};
                        Matrix44<T> M;
                        for (int r = 0; r < 3; ++r) for (int c = 0; c < 3; ++c) M[r][c] = (T) A[r][c];
                        M[3][0] = (T) tr.x; M[3][1] = (T) tr.y; M[3][2] = (T) tr.z;
                        auto fwdA = [&] (const L3& p) { return L3{p.x * A[0][0] + p.y * A[1][0] + p.z * A[2][0] + tr.x, p.x * A[0][1] + p.y * A[1][1] + p.z * A[2][1] + tr.y, p.x * A[0][2] + p.y * A[1][2] + p.z * A[2][2] + tr.z}; };
                        Plane3<T> PM[6];
                        fr.planes (PM, M);
                        for (int i = 0; i < 6; ++i)
                        {
                            Plane3<T> Q = P0[i] * M;
                            ++k_pl; ++k_aniso;
                            LD S = 1;
                            for (int k = 0; k < 3; ++k) S = std::max (S, l1 (fwdA (I.pt (I.def[i][k]))) + 1);
                            // anisotropy 4 and shear: allow the distortion factor kappa^2 = 16 on top of the affine bound
                            const LD tolA = 16 * e * 16 * S * (1 + S / hmin[i]);
                            for (int k = 0; k < 3; ++k)
                            {
                                L3 X = fwdA (I.pt (I.def[i][k]));
                                LD d1 = dot (toL (PM[i].normal), X) - (LD) PM[i].distance, d2 = dot (toL (Q.normal), X) - (LD) Q.distance;
                                char bf[200]; snprintf (bf, sizeof bf, " M: linear part #%d (non-uniform scale / shear) x cube rotation #%d, translation (1,-2,3), plane %d", li, ri, i);
                                if (!(fabsl (d1) <= tolA)) R ().fail ("Frustum::planes(M).contains-transformed-points.non-uniform-M", std::string ("T=") + tname<T> () + " " + F.str () + bf, "0", s (d1));
                                if (!(fabsl (d2) <= tolA)) R ().fail ("Frustum::planes()*M.contains-transformed-points.non-uniform-M", std::string ("T=") + tname<T> () + " " + F.str () + bf, "0", s (d2));
                            }
                            L3 dn = toL (PM[i].normal) - toL (Q.normal);
                            if (!(linf (dn) <= tolA)) R ().fail ("Frustum::planes(M)=planes()*M.non-uniform-M", std::string ("T=") + tname<T> () + " " + F.str () + " linear part #" + std::to_string (li) + " plane " + std::to_string (i), s (toL (Q.normal)), s (toL (PM[i].normal)));
                        }
                    }
            }
            std::vector<char> gin (G.size ());
            std::vector<L3>   gw (G.size ());
            // failures of the huge-box classes can number millions per run (a defect there hits every frustum / camera pair):
            // per frustum only the first case of a site is formatted, the rest is counted and reported in bulk (exact count)
            struct LazySite { ll n = 0; std::string in, want, got; };
            std::map<std::string, LazySite> lazy;
            auto lazy_fail = [&] (const std::string& site, const std::function<std::string ()>& mk, const char* want, const char* got) {
                static std::atomic<int> echoed (0); // replay: the engine echoes every failure to stderr - the first 64 are enough
                if (R ().replay && echoed++ < 64) { R ().fail (site, mk (), want, got); return; }
                LazySite& z = lazy[site];
                if (z.n++ == 0) { z.in = mk (); z.want = want; z.got = got; }
            };
            for (const Cam& cm : cams)
            {
                const auto& Rm = RT[cm.rot];
                const LD sc = cm.s; const L3 tr = {(LD) cm.t[0], (LD) cm.t[1], (LD) cm.t[2]};
                Matrix44<T> M;
                for (int r = 0; r < 3; ++r) for (int c = 0; c < 3; ++c) M[r][c] = (T) (sc * Rm[r * 3 + c]);
                M[3][0] = (T) tr.x; M[3][1] = (T) tr.y; M[3][2] = (T) tr.z;
                auto fwd = [&] (const L3& p) { return L3{sc * (p.x * Rm[0] + p.y * Rm[3] + p.z * Rm[6]) + tr.x, sc * (p.x * Rm[1] + p.y * Rm[4] + p.z * Rm[7]) + tr.y, sc * (p.x * Rm[2] + p.y * Rm[5] + p.z * Rm[8]) + tr.z}; };
                auto dirw = [&] (const L3& p) { return L3{p.x * Rm[0] + p.y * Rm[3] + p.z * Rm[6], p.x * Rm[1] + p.y * Rm[4] + p.z * Rm[7], p.x * Rm[2] + p.y * Rm[5] + p.z * Rm[8]}; };
                auto back = [&] (const L3& w) { L3 q = w - tr; return L3{(q.x * Rm[0] + q.y * Rm[1] + q.z * Rm[2]) / sc, (q.x * Rm[3] + q.y * Rm[4] + q.z * Rm[5]) / sc, (q.x * Rm[6] + q.y * Rm[7] + q.z * Rm[8]) / sc}; };
                auto in = [&] () {
                    char bf[160]; snprintf (bf, sizeof bf, " camera: scale %g, cube rotation #%d (ex::cube_rotations), translation (%d,%d,%d)", cm.s, cm.rot, cm.t[0], cm.t[1], cm.t[2]);
                    return std::string ("T=") + tname<T> () + " " + F.str () + bf;
                };
                ++k_cam;
                // ---------------- planes(p, M)
                Plane3<T> P[6];
                fr.planes (P, M);
                LD Sw[6];
                for (int i = 0; i < 6; ++i)
                {
                    ++k_pl;
                    Sw[i] = sc * Sdef[i] + l1 (tr) + 1;
                    L3 pn = toL (P[i].normal); LD pd = (LD) P[i].distance;
                    if (!(fabsl (dot (pn, pn) - 1) <= 8 * e)) R ().fail ("Frustum::planes(M).unit-normal", in () + " plane " + std::to_string (i), "1", s (dot (pn, pn)));
                    if (F.dyadic)
                    {
                        L3 wn = dirw (I.nrm[i]); LD wd = sc * I.off[i] + dot (wn, tr);
                        if (!(linf (pn - wn) == 0 && pd == wd)) R ().fail ("Frustum::planes(M).equals-transformed-plane.exact", in () + " plane " + std::to_string (i), s (wn) + " " + s (wd), s (pn) + " " + s (pd));
                    }
                    else
                    {
                        for (int k = 0; k < 3; ++k)
                        {
                            L3 X = fwd (I.pt (I.def[i][k]));
                            LD d = dot (pn, X) - pd;
                            lw = std::max (lw, (double) (fabsl (d) / (16 * e * Sw[i])));
                            if (!(fabsl (d) <= 16 * e * Sw[i])) R ().fail ("Frustum::planes(M).contains-transformed-points", in () + " plane " + std::to_string (i) + " point " + s (X), "0", s (d));
                        }
                    }
                    // outward, and it is the right one of the six: the transformed interior point is on the negative side at
                    // (to within 1e-3) its true distance, which no other face plane reproduces for all cameras
                    LD dc = dot (pn, fwd (I.centre)) - pd, wc = sc * (dot (I.nrm[i], I.centre) - I.off[i]);
                    if (!(dc < 0) || !(fabsl (dc - wc) <= 1e-3L * fabsl (wc) + 16 * e * (Sw[i] * (1 + l1 (I.centre - X0[i]) / hmin[i]) + l1 (fwd (I.centre)))))
                        R ().fail ("Frustum::planes(M).outward-and-ordered", in () + " plane " + std::to_string (i), "centre at signed distance " + s (wc), s (dc));
                }
                if (!cm.ft) continue;
                ++k_ft;
                // ---------------- FrustumTest
                FrustumTest<T> ft (fr, M);
                auto margins = [&] (const L3& camp, const L3& wp, LD* mg) {
                    for (int i = 0; i < 6; ++i)
                        mg[i] = F.dyadic ? 0 : 16 * e * (Sw[i] * (1 + l1 (camp - X0[i]) / hmin[i]) + l1 (wp)); // |.|_1 >= |.|_2: only more conservative
                };
                // points
                for (size_t g = 0; g < G.size (); ++g)
                {
                    Vec3<T> wv = toV<T> (fwd (G[g]));
                    L3 wp = toL (wv), cp = back (wp);
                    gw[g] = wp;
                    LD mg[6]; margins (cp, wp, mg);
                    bool inside = true, outside = false, onpl = false;
                    for (int i = 0; i < 6; ++i)
                    {
                        LD d = sc * (dot (I.nrm[i], cp) - I.off[i]);
                        if (!(d < -mg[i])) inside = false;
                        if (F.dyadic ? d >= 0 : d > mg[i]) outside = true;
                        if (d == 0) onpl = true;
                    }
                    gin[g] = inside;
                    bool v = ft.isVisible (wv);
                    if (inside) { ++k_in; if (!v) R ().fail (F.dyadic ? "FrustumTest::isVisible(point).inside-reported-invisible.exact" : "FrustumTest::isVisible(point).inside-reported-invisible", in () + " world point " + s (wv), "true", "false"); }
                    else if (outside) { ++k_out; if (onpl && F.dyadic) ++k_on; if (v) R ().fail (F.dyadic ? "FrustumTest::isVisible(point).outside-reported-visible.exact" : "FrustumTest::isVisible(point).outside-reported-visible", in () + " world point " + s (wv), "false", "true"); }
                    else ++k_mg;
                }
                // spheres and boxes
                for (size_t o = 0; o < objs.size (); ++o)
                {
                    const Obj& ob = objs[o];
                    // sphere (radius hx)
                    {
                        Vec3<T> cv = toV<T> (fwd (ob.c)); T rv = (T) (sc * ob.hx);
                        L3 cw = toL (cv), cc = back (cw); LD rw = (LD) rv;
                        LD mg[6]; margins (cc, cw, mg);
                        bool safe_vis = true, must_not_contain = false;
                        for (int i = 0; i < 6; ++i)
                        {
                            LD d = sc * (dot (I.nrm[i], cc) - I.off[i]);
                            if (!(d - rw < -(mg[i] + 4 * e * rw))) safe_vis = false;
                            if (d + rw > mg[i] + 4 * e * rw) must_not_contain = true;
                        }
                        bool touching = false;
                        if (safe_vis) for (int g : wit_s[o]) if (gin[g] && len (gw[g] - cw) < rw * (1 - 1e-6L)) { touching = true; break; }
                        Sphere3<T> sp (cv, rv);
                        if (touching) { ++k_sv; if (!ft.isVisible (sp)) R ().fail ("FrustumTest::isVisible(sphere).touching-object-culled", in () + " Sphere3(" + s (cv) + ", " + fmt (rv) + ")", "true", "false"); }
                        if (must_not_contain) { ++k_sc; if (ft.completelyContains (sp)) R ().fail ("FrustumTest::completelyContains(sphere).true-with-point-outside", in () + " Sphere3(" + s (cv) + ", " + fmt (rv) + ")", "false", "true"); }
                        if (!touching && !must_not_contain) ++k_un;
                    }
                    // axis-aligned box (cube rotations keep it axis aligned)
                    {
                        L3 c0 = fwd (ob.c - L3{ob.hx, ob.hy, ob.hz}), c1 = fwd (ob.c + L3{ob.hx, ob.hy, ob.hz});
                        Vec3<T> mn = toV<T> (L3{std::min (c0.x, c1.x), std::min (c0.y, c1.y), std::min (c0.z, c1.z)}), mx = toV<T> (L3{std::max (c0.x, c1.x), std::max (c0.y, c1.y), std::max (c0.z, c1.z)});
                        Box<Vec3<T>> bx (mn, mx);
                        bool safe_vis = true, must_not_contain = false;
                        LD qmin[6]; for (int i = 0; i < 6; ++i) qmin[i] = 1e4900L;
                        LD mgm[6] = {0, 0, 0, 0, 0, 0};
                        for (int k = 0; k < 8; ++k)
                        {
                            L3 kw = {(LD) ((k & 1) ? mx.x : mn.x), (LD) ((k & 2) ? mx.y : mn.y), (LD) ((k & 4) ? mx.z : mn.z)}, kc = back (kw);
                            LD mg[6]; margins (kc, kw, mg);
                            for (int i = 0; i < 6; ++i)
                            {
                                LD d = sc * (dot (I.nrm[i], kc) - I.off[i]);
                                qmin[i] = std::min (qmin[i], d); mgm[i] = std::max (mgm[i], mg[i]);
                                if (d > 2 * mg[i]) must_not_contain = true;
                            }
                        }
                        for (int i = 0; i < 6; ++i) if (!(qmin[i] < -2 * mgm[i])) safe_vis = false;
                        bool touching = false;
                        if (safe_vis)
                            for (int g : wit_b[o])
                                if (gin[g] && gw[g].x >= (LD) mn.x && gw[g].x <= (LD) mx.x && gw[g].y >= (LD) mn.y && gw[g].y <= (LD) mx.y && gw[g].z >= (LD) mn.z && gw[g].z <= (LD) mx.z) { touching = true; break; }
                        std::string bs = " Box(" + s (mn) + ", " + s (mx) + ")";
                        if (touching) { ++k_bv; if (!ft.isVisible (bx)) R ().fail ("FrustumTest::isVisible(box).touching-object-culled", in () + bs, "true", "false"); }
                        if (must_not_contain) { ++k_bc; if (ft.completelyContains (bx)) R ().fail ("FrustumTest::completelyContains(box).true-with-point-outside", in () + bs, "false", "true"); }
                        if (!touching && !must_not_contain) ++k_un;
                    }
                }

                // ---------------- boxes with bounds at / near the ends of T's range (infinite, half-infinite, slabs, near-max)
                // World-space boxes whose per-axis (min,max) is one of
                //   I (-MAX,MAX)   N (-3/4 MAX, 3/4 MAX)   H+ (c, MAX)   H- (-MAX, c)   F (c - delta, c + delta)
                // with c the world coordinate of the frustum's centre point on that axis and delta = scale * (smallest extent of
                // the frustum at mid depth) / 8: all 5^3 - 1 combinations with at least one unbounded axis (Box::makeInfinite() is III).
                // On I and N axes max-min is not representable in T (it rounds to +inf), on H axes min+max is within rounding of
                // +-MAX - no finite lattice box has either property. Oracle: the SAME corner / margin oracle as for the lattice
                // boxes above (long double holds +-MAX and every product with it exactly enough: the margins below are >= 16 eps
                // times the magnitudes involved):
                //   * completelyContains must be false when some corner is outside a plane by more than twice the margin - a corner
                //     at +-MAX is about MAX away from a frustum that lies within a few units of the origin;
                //   * isVisible must be true when the box touches the frustum robustly: the frustum's centre point is inside with
                //     margin, every plane has a corner behind it by more than twice the margin, and the centre point lies in the box
                //     with a slack of 8 eps max(|min|,|max|) per axis (the rounding of the box's own centre/extent arithmetic: a
                //     half-infinite box (c,MAX) is indistinguishable from (0,MAX) in T, so it carries no isVisible demand - counted).
                {
                    const T   TM = std::numeric_limits<T>::max (), TN = (T) (TM * (T) 0.75);
                    const Vec3<T> wcv = toV<T> (fwd (I.centre));
                    const L3  wc = toL (wcv), wcc = back (wc);
                    bool cin = true;
                    { LD mg[6]; margins (wcc, wc, mg); for (int i = 0; i < 6; ++i) if (!(sc * (dot (I.nrm[i], wcc) - I.off[i]) < -2 * mg[i])) cin = false; }
                    const LD dw = sc * emin_c / 8;
                    auto judge = [&] (const Vec3<T>& mn, const Vec3<T>& mx, const char* sfx, const std::string& kinds, ll& k_v, ll& k_c, ll& k_u)
                    {
                        Box<Vec3<T>> bx (mn, mx);
                        bool safe_vis = true, must_not_contain = false;
                        LD qmin[6]; for (int i = 0; i < 6; ++i) qmin[i] = 1e4900L;
                        LD mgm[6] = {0, 0, 0, 0, 0, 0};
                        for (int k = 0; k < 8; ++k)
                        {
                            L3 kw = {(LD) ((k & 1) ? mx.x : mn.x), (LD) ((k & 2) ? mx.y : mn.y), (LD) ((k & 4) ? mx.z : mn.z)}, kc = back (kw);
                            LD mg[6]; margins (kc, kw, mg);
                            for (int i = 0; i < 6; ++i)
                            {
                                LD d = sc * (dot (I.nrm[i], kc) - I.off[i]);
                                qmin[i] = std::min (qmin[i], d); mgm[i] = std::max (mgm[i], mg[i]);
                                if (d > 2 * mg[i]) must_not_contain = true;
                            }
                        }
                        for (int i = 0; i < 6; ++i) if (!(qmin[i] < -2 * mgm[i])) safe_vis = false;
                        bool touching = cin && safe_vis;
                        for (int a = 0; a < 3 && touching; ++a)
                        {
                            const LD slack = 8 * e * std::max (fabsl ((LD) mn[a]), fabsl ((LD) mx[a]));
                            if (!((LD) mn[a] + slack <= wc[a] && wc[a] <= (LD) mx[a] - slack)) touching = false;
                        }
                        auto bs = [&] () { return " Box(" + s (mn) + ", " + s (mx) + ") [per-axis kinds " + kinds + ": 0=(-MAX,MAX) 1=(-3/4MAX,3/4MAX) 2=(c,MAX) 3=(-MAX,c) 4=finite 5=(3/4MAX,MAX) 6=(-MAX,-3/4MAX)]"; };
                        if (touching) { ++k_v; if (!ft.isVisible (bx)) lazy_fail (std::string ("FrustumTest::isVisible(box).touching-object-culled") + sfx, [&] { return in () + bs (); }, "true", "false"); }
                        if (must_not_contain) { ++k_c; if (ft.completelyContains (bx)) lazy_fail (std::string ("FrustumTest::completelyContains(box).true-with-point-outside") + sfx, [&] { return in () + bs (); }, "false", "true"); }
                        if (!touching && !must_not_contain) ++k_u;
                    };
                    for (int code = 0; code < 125; ++code)
                    {
                        int ak[3] = {code % 5, (code / 5) % 5, code / 25};
                        if (ak[0] == 4 && ak[1] == 4 && ak[2] == 4) continue; // the finite box: the object lattice above
                        Vec3<T> mn, mx; int n_ovf = 0, n_half = 0, n_inf = 0;
                        for (int a = 0; a < 3; ++a)
                            switch (ak[a])
                            {
                                case 0: mn[a] = -TM; mx[a] = TM; ++n_ovf; ++n_inf; break;
                                case 1: mn[a] = -TN; mx[a] = TN; ++n_ovf; break;
                                case 2: mn[a] = wcv[a]; mx[a] = TM; ++n_half; break;
                                case 3: mn[a] = -TM; mx[a] = wcv[a]; ++n_half; break;
                                default: mn[a] = (T) (wc[a] - dw); mx[a] = (T) (wc[a] + dw); break;
                            }
                        ++k_hb;
                        if (n_inf == 3) ++k_hb_inf;
                        if (n_ovf >= 2) ++k_hb_ovf2;
                        if (n_half) ++k_hb_half;
                        judge (mn, mx, ".bounds-at-or-near-max", std::to_string (ak[0]) + std::to_string (ak[1]) + std::to_string (ak[2]), k_hbv, k_hbc, k_hb_un);
                    }
                    // Boxes lying entirely near one end of the range on some axis: per-axis S+ (3/4 MAX, MAX), S- (-MAX, -3/4 MAX) or F,
                    // at least one S axis (26 boxes). Here min+max is not representable (it rounds to +-inf) while max-min is. Such a
                    // box is about 3/4 MAX away from the frustum: it has a point outside (every point is), so completelyContains must
                    // be false; it touches nothing, so isVisible carries no demand (the centre is not in the box). Own site
                    // ".bounds-sum-overflows".
                    for (int code = 0; code < 27; ++code)
                    {
                        int ak[3] = {code % 3, (code / 3) % 3, code / 9};
                        if (ak[0] == 2 && ak[1] == 2 && ak[2] == 2) continue;
                        Vec3<T> mn, mx; std::string kinds;
                        for (int a = 0; a < 3; ++a)
                        {
                            if (ak[a] == 0) { mn[a] = TN; mx[a] = TM; kinds += "5"; }
                            else if (ak[a] == 1) { mn[a] = -TM; mx[a] = -TN; kinds += "6"; }
                            else { mn[a] = (T) (wc[a] - dw); mx[a] = (T) (wc[a] + dw); kinds += "4"; }
                        }
                        ++k_hb;
                        ll dummy_v = 0;
                        judge (mn, mx, ".bounds-sum-overflows", kinds, dummy_v, k_hbs, k_hb_un);
                    }
                }
            }
            for (auto& kv : lazy) R ().fail_n (kv.first, kv.second.n, kv.second.in, kv.second.want, kv.second.got);
            n_hb += k_hb; n_hbc += k_hbc; n_hbv += k_hbv; n_hb_inf += k_hb_inf; n_hb_ovf2 += k_hb_ovf2; n_hb_half += k_hb_half; n_hb_un += k_hb_un; n_hbs += k_hbs;
            n_pl += k_pl; n_pt_in += k_in; n_pt_out += k_out; n_pt_margin += k_mg; n_pt_on += k_on; n_sv += k_sv; n_sc += k_sc; n_bv += k_bv; n_bc += k_bc; n_obj_un += k_un; n_cam += k_cam; n_ftcam += k_ft; n_aniso += k_aniso;
            ++done;
            std::lock_guard<std::mutex> g (mm); w_pl = std::max (w_pl, lw);
        }
    });
    ll pts = n_pt_in + n_pt_out + n_pt_margin, objs = n_sv + n_sc + n_bv + n_bc + n_hbv + n_hbc + n_hbs;
    R ().add ("states", n_cam + pts + objs); R ().add ("evaluations", n_cam + pts + objs); R ().add ("transitions", n_pl.load () * 2 + pts + objs);
    R ().add ("frustum_camera_pairs", n_cam); R ().add ("frustum_camera_pairs_with_FrustumTest", n_ftcam);
    R ().cls ("planes(M).non-uniformly-scaled-or-sheared-M", n_aniso);
    R ().add (std::string ("points_inside_margin_unconstrained.") + tname<T> (), n_pt_margin);
    R ().add (std::string ("objects_without_a_demand.") + tname<T> (), n_obj_un);
    R ().cls ("frustumtest.point-inside", n_pt_in); R ().cls ("frustumtest.point-outside", n_pt_out); R ().cls ("frustumtest.point-exactly-on-plane(exact sub-alphabet)", n_pt_on);
    R ().cls ("frustumtest.sphere-touching", n_sv); R ().cls ("frustumtest.sphere-with-point-outside", n_sc);
    R ().cls ("frustumtest.box-touching", n_bv); R ().cls ("frustumtest.box-with-point-outside", n_bc);
    R ().add ("boxes_with_bounds_at_or_near_max", n_hb);
    R ().add (std::string ("boxes_with_bounds_at_or_near_max_without_a_demand.") + tname<T> (), n_hb_un);
    R ().cls ("frustumtest.huge-box.infinite-on-every-axis(makeInfinite)", n_hb_inf); R ().cls ("frustumtest.huge-box.max-min-overflows-on-two-or-more-axes", n_hb_ovf2);
    R ().cls ("frustumtest.huge-box.half-infinite-axis", n_hb_half);
    R ().cls ("frustumtest.huge-box.entirely-near-one-end-of-the-range(min+max overflows; completelyContains must be false)", n_hbs);
    R ().cls ("frustumtest.huge-box.touching(isVisible demanded)", n_hbv); R ().cls ("frustumtest.huge-box.point-outside(completelyContains must be false)", n_hbc);
    R ().note_max (std::string ("worst planes(M) defining-point residual / (16 eps S), ") + tname<T> (), w_pl);
    if (ok) R ().stage_done (std::to_string (done.load ()) + " frusta x " + std::to_string (cams.size ()) + " cameras: planes(M); FrustumTest on " + std::to_string (n_ftcam.load ()) + " pairs x (343 points + 50 spheres + 50 boxes + 124 boxes with per-axis bounds (-MAX,MAX), (-3/4MAX,3/4MAX), (c,MAX), (-MAX,c) or finite + 26 boxes with (3/4MAX,MAX) / (-MAX,-3/4MAX) axes)");
    else R ().stage_partial (std::to_string (done.load ()) + " of " + std::to_string (FS.size ()) + " frusta");
}

void run_frustumtest () { ftest<float> (); ftest<double> (); }
} // namespace c16
