// C13 — Box / Interval are closed axis-aligned point sets; box transforms are tight.
// Driver: the stages live in c13_sets.hpp (bitset-of-lattice-points oracle), c13_extreme.hpp (boxes with bounds at
// the ends of the element type's range), c13_hist.hpp (explicit-state BFS over extendBy histories),
// c13_closest.hpp (clip / closestPoint*), c13_xform.hpp (transform overloads; float/double and integer boxes).
#include "c13_common.hpp"

namespace c13 {
extern template bool run_sets<short> (bool);      extern template bool run_histories<short> (bool);
extern template bool run_sets<int> (bool);        extern template bool run_histories<int> (bool);
extern template bool run_sets<int64_t> (bool);    extern template bool run_histories<int64_t> (bool);
extern template bool run_sets<float> (bool);      extern template bool run_histories<float> (bool);
extern template bool run_sets<double> (bool);     extern template bool run_histories<double> (bool);
extern template bool run_closest<short> (bool);   extern template bool run_closest<int> (bool);
extern template bool run_closest<int64_t> (bool); extern template bool run_closest<float> (bool);
extern template bool run_closest<double> (bool);
extern template bool run_sets<half> (bool);       extern template bool run_histories<half> (bool);
extern template bool run_closest<half> (bool);
extern template bool run_extremes<short> (bool);  extern template bool run_extremes<int> (bool);
extern template bool run_extremes<int64_t> (bool); extern template bool run_extremes<float> (bool);
extern template bool run_extremes<double> (bool); extern template bool run_extremes<half> (bool);
}

using namespace vf;

bool c13_dirty_stage (); // c13_dirty.cpp

template <class F> static void run_stage (const char* name, const char* bound, F f)
{
    if (!R ().stage (name)) return;
    bool ok = f ();
    c13::flush_failures (); // worker threads have exited: their tallies are in the global table
    if (ok) R ().stage_done (bound);
    else R ().stage_partial (std::string (bound) + " (cut short by the deadline)");
}

int main (int argc, char** argv)
{
    R ().property = "C13";
    R ().parse (argc, argv);
    const bool th = R ().thorough ();
    R ().assume ("lattice coordinates are small integers, exactly representable in every element type");
    R ().assume ("integer boxes (Box3i/Box3s) are transformed by integer-valued matrices only; projective matrices need w != 0 on every corner");
    R ().assume ("extendBy arguments/starts are non-inverted boxes or the canonical empty box (DESIGN.md section 3 interpretation note)");

    const char* sets_bound = th
        ? "Interval, Box<Vec2>, Box<Vec3>, generic Box in 2-D/3-D, Box<Vec4>: every (min,max) in {0..3} per axis incl. inverted x every point of {-1..4}^D; all ordered box pairs (4-D: all 65536^2); canonical empty/infinite"
        : "Interval, Box<Vec2>, Box<Vec3>, generic Box in 2-D/3-D, Box<Vec4>: every (min,max) in {0..3} per axis incl. inverted x every point of {-1..4}^D; all ordered box pairs (4096^2 in 3-D; 4-D pairs over coordinates {0..2}: 6561^2); canonical empty/infinite";
    run_stage ("sets.short", sets_bound, [&] { return c13::run_sets<short> (th); });
    run_stage ("sets.int", sets_bound, [&] { return c13::run_sets<int> (th); });
    run_stage ("sets.int64", sets_bound, [&] { return c13::run_sets<int64_t> (th); });
    run_stage ("sets.float", sets_bound, [&] { return c13::run_sets<float> (th); });
    run_stage ("sets.double", sets_bound, [&] { return c13::run_sets<double> (th); });
    // element type half (Box2h / Box3h are library typedefs): the 4-D pair space stays at coordinates {0..2} in both tiers
    run_stage ("sets.half", "element type half: Interval<half>, Box<Vec2<half>> (Box2h), Box<Vec3<half>> (Box3h), generic Box in 2-D/3-D, Box<Vec4<half>>: every (min,max) in {0..3} per axis incl. inverted x every point of {-1..4}^D; all ordered box pairs (4096^2 in 3-D; 4-D pairs over coordinates {0..2}: 6561^2); canonical empty/infinite with the range ends written as half bit patterns",
               [&] { return c13::run_sets<half> (false); });

    const char* ext_bound = "Interval, Box<Vec2>, Box<Vec3>, generic Box in 2-D/3-D, Box<Vec4>: every box with per-axis (min,max) in {(LOWEST,MAX),(LOWEST,1),(0,MAX),(0,1),(MAX,LOWEST),(MAX,MAX)} (6^D boxes) x every point of {LOWEST,-1,0,1,2,MAX}^D; all ordered box pairs; extendBy(point / box) from every non-empty and the canonical empty box; size/center/majorAxis wherever the arithmetic is defined; second alphabet with both bounds large and of the same sign - per-axis (MAX-1,MAX),(MAX/2+1,MAX),(LOWEST,LOWEST/2-1),(LOWEST,LOWEST+1),(MAX/4,MAX/2),(LOWEST/2,LOWEST/4),(MAX,MAX),(LOWEST,LOWEST),(0,1) (9^D boxes, floating types: neighbouring representable values) x points {LOWEST,LOWEST/2-1,0,MAX/2+1,MAX-1,MAX}^D: predicates, membership, size, majorAxis, and center wherever max+min is representable or formed in int by promotion (Interval<short>, Interval<signed char>, Interval<unsigned char>: every pair)";
    run_stage ("extremes.short", ext_bound, [&] { return c13::run_extremes<short> (th); });
    run_stage ("extremes.int", ext_bound, [&] { return c13::run_extremes<int> (th); });
    run_stage ("extremes.int64", ext_bound, [&] { return c13::run_extremes<int64_t> (th); });
    run_stage ("extremes.float", ext_bound, [&] { return c13::run_extremes<float> (th); });
    run_stage ("extremes.double", ext_bound, [&] { return c13::run_extremes<double> (th); });
    run_stage ("extremes.half", ext_bound, [&] { return c13::run_extremes<half> (th); });

    const char* hist_bound = th
        ? "BFS over extendBy(point in {-1..4}^D) / extendBy(every non-empty lattice box, empty box) from {default, makeEmpty(), every non-empty lattice box}, depth bound 5, D=1..4; frontier exhausted (fixpoint) => all history lengths"
        : "BFS over extendBy(point in {-1..4}^D [4-D: {0..3}^4]) / extendBy(every non-empty lattice box [4-D: per-axis (0,0),(0,3),(1,2),(3,3)], empty box) from {default, makeEmpty(), every non-empty lattice box}, depth bound 4, D=1..4; frontier exhausted (fixpoint) => all history lengths";
    run_stage ("histories.short", hist_bound, [&] { return c13::run_histories<short> (th); });
    run_stage ("histories.int", hist_bound, [&] { return c13::run_histories<int> (th); });
    run_stage ("histories.int64", hist_bound, [&] { return c13::run_histories<int64_t> (th); });
    run_stage ("histories.float", hist_bound, [&] { return c13::run_histories<float> (th); });
    run_stage ("histories.double", hist_bound, [&] { return c13::run_histories<double> (th); });
    run_stage ("histories.half", hist_bound, [&] { return c13::run_histories<half> (th); });

    run_stage ("closest", "clip/closestPointInBox on every non-empty lattice box x points {-1..4}^D (floats: half-lattice, D<=3), 5 element types, Vec2/Vec3/generic/Vec4; closestPointOnBox on all 4096 boxes + canonical empty", [&] {
        bool ok = true;
        ok &= c13::run_closest<short> (th); ok &= c13::run_closest<int> (th); ok &= c13::run_closest<int64_t> (th);
        ok &= c13::run_closest<float> (th); ok &= c13::run_closest<double> (th);
        return ok;
    });

    run_stage ("closest.half", "element type half: clip/closestPointInBox on every non-empty lattice box x half-lattice points {-1..4 step 1/2}^D (D<=3; 4-D integer points), Vec2/Vec3/generic/Vec4; closestPointOnBox on all 4096 boxes + canonical empty",
               [&] { return c13::run_closest<half> (th); });

    run_stage ("transforms", th
        ? "4 overloads x {float,double}^2: 512 sparsity patterns x (5 fillings x 3 translations + generic filling x all 125 translations of L(2)) x 1000 boxes over {0..3} + all 4^9 blocks over {-1,0,1,2} x 216 boxes; signed boxes: 512 patterns x 5 fillings x 3 translations x 1000 boxes over {-2,-1,1,2} + all 4^9 blocks x 216 boxes over {-2,-1,2} (float x float and double x double); 7680 projective matrices (m33 in {1,2,10,-1,-20}) x 1000 boxes, every case with w != 0 on all corners (w>0 / w<0 / mixed sign); 3097 empty + infinite inputs x 18 matrices; out-parameter forms pre-filled"
        : "4 overloads x {float,double}^2: 512 sparsity patterns x 5 fillings x 3 translations x 1000 boxes over {0..3}; signed boxes: 512 patterns x 5 fillings x 1 translation x 216 boxes over {-2,-1,1}; 5120 projective matrices (m33 in {1,2,10}: 8 blocks x 3 translations x 64 w-rows; m33 in {-1,-20}: 4 blocks x 1 translation x 64 w-rows) x 1000 boxes, every case with w != 0 on all corners (w>0 / w<0 / mixed sign); 3097 empty + infinite inputs x 18 matrices; out-parameter forms pre-filled",
        [&] { return c13::run_transforms (th); });

    run_stage ("transforms.integer-box", th
        ? "4 overloads x Box3i/Box3s x M44f/M44d (4 combinations): 512 sparsity patterns x 5 fillings x 3 translations x 2000 boxes over {0..3} and {-2,-1,1,2}; 48 projective matrices with integer corner images (w = +-2) x 2000 boxes; 3097 empty + infinite inputs x 18 matrices"
        : "4 overloads x Box3i x M44f and Box3s x M44d: 512 sparsity patterns x 5 fillings x 1 translation x 1216 boxes over {0..3} and {-2,-1,1}; 48 projective matrices with integer corner images (w = +-2) x 2000 boxes; 3097 empty + infinite inputs x 18 matrices",
        [&] { return c13::run_transforms_int (th); });

    run_stage ("transforms.tiny-perspective", th
        ? "transform(box,m), transform(box,m,result) (3 pre-fills, result aliasing box) with perspective entries 2^-K * {-1,0,1,2}^3 \\ 0 and box coordinates 2^K * lattice: float x float K in {74,75,100,120}, double x float {74,75,100,126,149}, double x double {537,538,600,1000}; uniform scale: 8 blocks x 3 translations x m33 in {1,2} x 2000 boxes over {0..3} and {-2,-1,1,2}; mixed scale (only the axes of a mask 1..6 large): 3 monomial blocks x 2000 boxes; every case with w != 0 on all corners"
        : "transform(box,m), transform(box,m,result) (3 pre-fills, result aliasing box) with perspective entries 2^-K * {-1,0,1,2}^3 \\ 0 and box coordinates 2^K * lattice: float x float K in {74,75,100,120}, double x float {74,75,100,126,149}, double x double {537,538,600,1000}; uniform scale: 8 blocks x 2 translations x m33 = 1 (m33 = 2: generic full block) x 432 boxes over {0,1,3} and {-2,-1,1}; mixed scale (only the axes of a mask 1..6 large): 3 monomial blocks x 432 boxes; every case with w != 0 on all corners",
        [&] { return c13::run_transforms_tiny (th); });

    run_stage ("dirty-box-objects", "makeEmpty / makeInfinite / b = Box(point) / b = Box(min,max) / makeEmpty+extendBy(point[,point]) / makeEmpty+extendBy(box) over all points and ordered point pairs of {-1,0,2}^D for Box2<short,int,float,double>, Box3<short,int,int64,float,double>, Box4<int,float>, Interval<int,short,float,double>; transform(box,m,result) / affineTransform(box,m,result) for 731 boxes (empty, infinite, all ordered corner pairs of {-1,0,2}^3) x 6 matrices (identity, integer affine, singular affine, fractional affine, 2 projective with w>0; integer boxes: the 3 integer affine ones) x (S,T) in {float,double}^2, (int,float), (short,double): each on a default-constructed box and on boxes previously holding a regular prime box / an inverted box / the infinite box / NaN (integers: top of range) in every slot - equal in every slot",
               [&] { return c13_dirty_stage (); });

    R ().sample ("Box3i{min=(0,0,0) max=(3,3,3)}.intersects(Box3i{min=(2,0,0) max=(1,3,3)}) : argument is inverted => empty => expected false");
    R ().sample ("Box2f default-constructed .extendBy((1,2)) .extendBy(Box2f{(0,3),(0,3)}) == {(0,2),(1,3)}");
    R ().sample ("transform(Box3f{(0,0,0),(1,2,3)}, projective m, result=[100..200]^3) must REPLACE result");
    R ().sample ("Box3i{min=(LOWEST,0,LOWEST) max=(MAX,MAX,1)}.isInfinite() == false (infinite on the x axis only)");
    R ().sample ("Box2h default-constructed: min=(65504,65504) max=(-65504,-65504), contains no point of {LOWEST,-1,0,1,MAX,+-denorm}^2");
    R ().sample ("transform(Box3f{(0,0,0),(3,3,3)}, m with w = -x+1 on the corners (1 and -2: mixed sign, no zero)) == bound of the 8 corner images");
    R ().sample ("transform(Box3i{(-2,-1,1),(2,2,2)}, M44f integer affine) == exact integer bound");
    R ().sample ("closestPointOnBox((1.5,1.5,1), Box3f{(0,0,0),(3,3,2)}) is on the surface at distance 1 (tie between z faces)");
    return R ().finish ();
}
