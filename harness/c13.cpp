// C13 — Box / Interval are closed axis-aligned point sets; box transforms are tight.
// Driver: the stages live in c13_sets.hpp (bitset-of-lattice-points oracle), c13_hist.hpp (explicit-state BFS
// over extendBy histories), c13_closest.hpp (clip / closestPoint*), c13_xform.cpp (transform overloads).
#include "c13_common.hpp"

namespace c13 {
extern template bool run_sets<short> (bool);      extern template bool run_histories<short> (bool);
extern template bool run_sets<int> (bool);        extern template bool run_histories<int> (bool);
extern template bool run_sets<int64_t> (bool);    extern template bool run_histories<int64_t> (bool);
extern template bool run_sets<float> (bool);      extern template bool run_histories<float> (bool);
extern template bool run_sets<double> (bool);     extern template bool run_histories<double> (bool);
extern template bool run_closest<short> (bool);   extern template bool run_closest<int> (bool);
extern template bool run_closest<int64_t> (bool); extern template bool run_closest<float> (bool);
extern template bool run_closest<double> (bool);
}

using namespace vf;

template <class F> static void run_stage (const char* name, const char* bound, F f)
{
    if (!R ().stage (name)) return;
    bool ok = f ();
    c13::flush_failures (); // worker threads have exited: their tallies are in the global table
    if (ok) R ().stage_done (bound);
    else R ().stage_partial (std::string (bound) + " (cut short by the deadline)");
}

int main (int argc, char** argv)
{
    R ().property = "C13";
    R ().parse (argc, argv);
    const bool th = R ().thorough ();
    R ().assume ("lattice coordinates are small integers, exactly representable in every element type");
    R ().assume ("extendBy arguments/starts are non-inverted boxes or the canonical empty box (DESIGN.md section 3 interpretation note)");

    const char* sets_bound = th
        ? "Interval, Box<Vec2>, Box<Vec3>, generic Box in 2-D/3-D, Box<Vec4>: every (min,max) in {0..3} per axis incl. inverted x every point of {-1..4}^D; all ordered box pairs (4-D: all 65536^2); canonical empty/infinite"
        : "Interval, Box<Vec2>, Box<Vec3>, generic Box in 2-D/3-D, Box<Vec4>: every (min,max) in {0..3} per axis incl. inverted x every point of {-1..4}^D; all ordered box pairs (4096^2 in 3-D; 4-D pairs over coordinates {0..2}: 6561^2); canonical empty/infinite";
    run_stage ("sets.short", sets_bound, [&] { return c13::run_sets<short> (th); });
    run_stage ("sets.int", sets_bound, [&] { return c13::run_sets<int> (th); });
    run_stage ("sets.int64", sets_bound, [&] { return c13::run_sets<int64_t> (th); });
    run_stage ("sets.float", sets_bound, [&] { return c13::run_sets<float> (th); });
    run_stage ("sets.double", sets_bound, [&] { return c13::run_sets<double> (th); });

    const char* hist_bound = th
        ? "BFS over extendBy(point in {-1..4}^D) / extendBy(every non-empty lattice box, empty box) from {default, makeEmpty(), every non-empty lattice box}, depth bound 5, D=1..4; frontier exhausted (fixpoint) => all history lengths"
        : "BFS over extendBy(point in {-1..4}^D [4-D: {0..3}^4]) / extendBy(every non-empty lattice box [4-D: per-axis (0,0),(0,3),(1,2),(3,3)], empty box) from {default, makeEmpty(), every non-empty lattice box}, depth bound 4, D=1..4; frontier exhausted (fixpoint) => all history lengths";
    run_stage ("histories.short", hist_bound, [&] { return c13::run_histories<short> (th); });
    run_stage ("histories.int", hist_bound, [&] { return c13::run_histories<int> (th); });
    run_stage ("histories.int64", hist_bound, [&] { return c13::run_histories<int64_t> (th); });
    run_stage ("histories.float", hist_bound, [&] { return c13::run_histories<float> (th); });
    run_stage ("histories.double", hist_bound, [&] { return c13::run_histories<double> (th); });

    run_stage ("closest", "clip/closestPointInBox on every non-empty lattice box x points {-1..4}^D (floats: half-lattice, D<=3), 5 element types, Vec2/Vec3/generic/Vec4; closestPointOnBox on all 4096 boxes + canonical empty", [&] {
        bool ok = true;
        ok &= c13::run_closest<short> (th); ok &= c13::run_closest<int> (th); ok &= c13::run_closest<int64_t> (th);
        ok &= c13::run_closest<float> (th); ok &= c13::run_closest<double> (th);
        return ok;
    });

    run_stage ("transforms", th
        ? "4 overloads x {float,double}^2: 512 sparsity patterns x (5 fillings x 3 translations + generic filling x all 125 translations of L(2)) x 1000 boxes + all 4^9 blocks over {-1,0,1,2} x 216 boxes; 4608 projective matrices x 1000 boxes (w>0); 3097 empty + infinite inputs x 18 matrices; out-parameter forms pre-filled"
        : "4 overloads x {float,double}^2: 512 sparsity patterns x 5 fillings x 3 translations x 1000 boxes; 4608 projective matrices x 1000 boxes (w>0); 3097 empty + infinite inputs x 18 matrices; out-parameter forms pre-filled",
        [&] { return c13::run_transforms (th); });

    R ().sample ("Box3i{min=(0,0,0) max=(3,3,3)}.intersects(Box3i{min=(2,0,0) max=(1,3,3)}) : argument is inverted => empty => expected false");
    R ().sample ("Box2f default-constructed .extendBy((1,2)) .extendBy(Box2f{(0,3),(0,3)}) == {(0,2),(1,3)}");
    R ().sample ("transform(Box3f{(0,0,0),(1,2,3)}, projective m, result=[100..200]^3) must REPLACE result");
    R ().sample ("closestPointOnBox((1.5,1.5,1), Box3f{(0,0,0),(3,3,2)}) is on the surface at distance 1 (tie between z faces)");
    return R ().finish ();
}
