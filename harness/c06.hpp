// C06 — matrix inversion returns a true inverse, or a clean singular outcome.
//
// Shared template code, instantiated per scalar type in c06_f.cpp / c06_d.cpp, driven by c06.cpp.
//
// Alphabet: M = A * diag(2^e_0, .., 2^e_{n-1}) with A an integer matrix from a complete small lattice
// and power-of-two column scalings (uniform 2^k, or (2^k,..,2^k,1) which keeps an affine last column
// affine).  The exact inverse is the rational matrix  diag(2^-e_i) * adj(A) / det(A)  (adjugate and
// determinant in __int128), and the scaling is exact in floating point.
//
// Oracle
//  * det(A) != 0: every entry of X in { inverse(), inverse(false), gjInverse(), gjInverse(false) }
//    satisfies |X_ij - (M^-1)_ij| <= c * cond_inf(M) * eps * ||M^-1||_inf, c = 8, norms = max row sums
//    evaluated from the exact integers.  c is fixed a priori from the error analysis of cofactor
//    division and of partially pivoted elimination for n <= 4 (DESIGN.md C06); it is not tuned.
//    The comparison is done as |X_ij*det - adj_ij*2^-e_i| / |det| in long double: X_ij*det is exact
//    there (<= 53 + 11 bits, |det| < 2^11 on every lattice used) so the only rounding is one
//    subtraction and one division (relative 2^-63 of the error itself).  A NaN or infinity fails.
//  * det(A) == 0: on these operands every cofactor and the determinant are computed exactly (scales
//    are restricted to the range where they stay normal), so the determinant-based forms (2x2, 3x3
//    both paths, 4x4 affine path) must return EXACTLY the identity.  Gauss-Jordan (gjInverse, and the
//    non-affine branch of Matrix44::inverse, which calls it) is required to return the identity only
//    where an exact zero pivot is provable for ANY row elimination with pivot search in the column:
//      - a zero column (row operations x - f*0 leave it exactly zero),
//      - a zero row (f = 0/p = 0, the row stays exactly zero and ends on the diagonal),
//      - two rows proportional by +-2^m (they receive bit-identical scaled operations until one is the
//        pivot row, then the other becomes an exact zero row),
//      - n = 3 and every non-zero entry of each column has the same power-of-two magnitude (A is a
//        {0,+-1} pattern times a column scaling): multipliers are in {0,+-1/2,+-1,+-2}, all
//        intermediate values are small dyadic numbers, both elimination steps are exact and the last
//        diagonal entry is the exact Schur complement, zero iff det = 0.
//    On the remaining singular matrices nothing is demanded of Gauss-Jordan (a merely tiny pivot is
//    legitimate); how many of them returned the identity is recorded as information.
//  * in-place forms: invert()/gjInvert() (both overloads) leave bitwise what the value form returns
//    and return *this.
//  * affine fast path: for an affine, non-singular M each entry of the last column is perturbed
//    (0 -> +-denorm_min, +-eps; 1 -> 1+eps, 1-eps/2), which forces the general path.  With E the
//    perturbation (one entry, |d| <= eps), M'^-1 - M^-1 = -M^-1 E M'^-1, so
//    ||M'^-1 - M^-1|| <= ||M^-1||^2 |d| / (1 - ||M^-1|| |d|).  Under the input predicate
//    ||M^-1|| |d| <= 1e-4 (otherwise the case is skipped and counted) and ||M|| >= 1:
//       |X' - M^-1| <= c*cond(M)*eps*||M^-1||*(1+1e-3) + ||M^-1||^2*|d|*(1+1e-3)   =: B'
//    and the jump |X' - X| between general and fast path is at most B + B'.
//
// Strengthenings after the clause audit (findings/audits/audit2.md, C06 S1-S5); details at the functions:
//  * a second exponent vector: M = diag(2^r) * A * diag(2^e) (oracle_scale2) - rows scaled by different powers of two
//    change which row holds the largest entry of a column; columns of non-affine matrices graded (stage graded-scaling);
//  * check_tiny: one entry perturbed by +-2^-k, exact inverse by linearity of det/adj in that entry (stage tiny-entry):
//    pivoting by magnitude is decisive there, and nearly singular matrices are reached (det = c*2^-k);
//  * check_overflow: non-zero determinant whose exact cofactor/determinant quotients straddle max (stage overflow-guard):
//    "a determinant so small that dividing the cofactors by it would overflow" -> the identity;
//  * check_perturbed also places -0.0 in the affine last column.
#pragma once
#include "../engine/exact.hpp"
#include "../engine/report.hpp"
#include <ImathMatrix.h>

namespace c06 {
using namespace IMATH_NAMESPACE;
using ex::i128;
using vf::R;
typedef long double ld;

template <class T> struct TN;
template <> struct TN<float>  { static const char* s () { return "f"; } static const char* l () { return "float"; } };
template <> struct TN<double> { static const char* s () { return "d"; } static const char* l () { return "double"; } };

template <class T, int N> struct MT;
template <class T> struct MT<T, 2> { typedef Matrix22<T> M; };
template <class T> struct MT<T, 3> { typedef Matrix33<T> M; };
template <class T> struct MT<T, 4> { typedef Matrix44<T> M; };

static const int C_BOUND = 8;

struct Stats
{
    long long st = 0, tr = 0;
    long long singular = 0, nonsingular = 0, det_ge1 = 0, det_lt1 = 0, affine = 0, general = 0, det_subnormal = 0;
    long long gj_prov = 0, gj_unprov = 0, gj_unprov_ident = 0, pert = 0, pert_skipped = 0, pert_singular = 0;
    double    w_inv = 0, w_gj = 0, w_pert = 0, w_jump = 0;
    // strengthenings (audit2 C06 S1-S5)
    long long row_scaled = 0, col_graded = 0, negzero = 0;
    long long ovf_must = 0, ovf_below = 0, ovf_window = 0, ovf_window_ident = 0, ovf_aff_must = 0, ovf_aff_below = 0;
    long long tiny_well = 0, tiny_near = 0, tiny_near_judged = 0, tiny_ulp = 0, tiny_sing = 0, tiny_general = 0, tiny_affine = 0;
    double    w_ovf = 0, w_tiny_inv = 0, w_tiny_gj = 0, w_tiny_near = 0;
    // dim: "2x2" / "3x3" / "4x4" — the branch classes are kept per dimension so that "both scaling
    // branches in every dimension" is part of the vacuity check
    void flush (const std::string& tl, const std::string& dim)
    {
        R ().add ("states", st); R ().add ("evaluations", st); R ().add ("transitions", tr);
        R ().cls ("singular." + dim, singular); R ().cls ("nonsingular." + dim + ".generic", nonsingular);
        if (det_ge1 + det_lt1) { R ().cls ("det-branch.|det|>=1." + dim, det_ge1); R ().cls ("det-branch.|det|<1." + dim, det_lt1); }
        if (det_subnormal) R ().cls ("det-branch.subnormal-determinant-below-1/max." + dim, det_subnormal);
        if (affine + general) { R ().cls ("path.affine-last-column." + dim, affine); R ().cls ("path.general." + dim + ".generic", general); }
        if (gj_prov + gj_unprov) R ().cls ("gauss-jordan.singular.exact-zero-pivot-provable." + dim, gj_prov);
        R ().add ("gj_singular_unprovable_cases", gj_unprov);
        R ().add ("gj_singular_unprovable_returned_identity", gj_unprov_ident);
        if (pert + pert_skipped + pert_singular)
        {
            R ().cls ("affine-last-column-perturbed-by-one-ulp", pert);
            R ().add ("perturbation_skipped_too_large_relative_to_inverse", pert_skipped);
            R ().add ("perturbation_skipped_singular_base", pert_singular);
        }
        if (row_scaled) R ().cls ("scaling.rows-scaled-by-different-powers-of-two." + dim, row_scaled);
        if (col_graded) R ().cls ("scaling.columns-graded-by-different-powers-of-two." + dim, col_graded);
        if (negzero) R ().cls ("affine-last-column-with-negative-zero", negzero);
        if (ovf_must + ovf_below + ovf_window)
        {
            R ().cls ("overflow-guard.nonzero-det.exact-quotient>=2^(emax+1)." + dim, ovf_must);
            R ().cls ("overflow-guard.nonzero-det.exact-quotient<max/4." + dim, ovf_below);
            R ().cls ("overflow-guard.nonzero-det.exact-quotient-in-window[max/4,2^(emax+1))." + dim, ovf_window);
            R ().add ("overflow_window_cases_returned_identity", ovf_window_ident);
            if (ovf_aff_must + ovf_aff_below)
            {
                R ().cls ("overflow-guard.affine-path.exact-quotient>=2^(emax+1)." + dim, ovf_aff_must);
                R ().cls ("overflow-guard.affine-path.exact-quotient<max/4." + dim, ovf_aff_below);
            }
        }
        if (tiny_well + tiny_near + tiny_sing)
        {
            R ().cls ("tiny-entry.well-conditioned(zero-entry-replaced-by-2^-k)." + dim, tiny_well);
            R ().cls ("tiny-entry.nearly-singular(det=c*2^-k)." + dim, tiny_near);
            R ().cls ("tiny-entry.nearly-singular.accuracy-judged(8*cond*eps<=1/4)." + dim, tiny_near_judged);
            if (tiny_ulp) R ().cls ("tiny-entry.non-zero-entry-moved-by-2^-(digits-2)." + dim, tiny_ulp);
            if (tiny_affine) R ().cls ("tiny-entry.affine-path." + dim, tiny_affine);
            R ().cls ("tiny-entry.general-path." + dim, tiny_general);
            R ().add ("tiny_entry_exactly_singular_not_judged", tiny_sing);
        }
        if (w_ovf > 0) R ().note_max ("worst |err|/bound, inverse() with exact quotients below max/4 (" + tl + ")", w_ovf);
        if (w_tiny_inv > 0) R ().note_max ("worst |err|/bound, inverse() with a 2^-k entry (" + tl + ")", w_tiny_inv);
        if (w_tiny_gj > 0) R ().note_max ("worst |err|/bound, gjInverse() with a 2^-k entry (" + tl + ")", w_tiny_gj);
        if (w_tiny_near > 0) R ().note_max ("worst |err|/bound, all forms, nearly singular with 8*cond*eps <= 1/4 (" + tl + ")", w_tiny_near);
        if (w_inv > 0) R ().note_max ("worst |err|/bound, inverse() (" + tl + ")", w_inv);
        if (w_gj > 0) R ().note_max ("worst |err|/bound, gjInverse() (" + tl + ")", w_gj);
        if (w_pert > 0) R ().note_max ("worst |err|/bound, inverse() of one-ulp-perturbed affine matrix (" + tl + ")", w_pert);
        if (w_jump > 0) R ().note_max ("worst |jump|/bound between affine fast path and general path (" + tl + ")", w_jump);
        *this = Stats ();
    }
};

// ---- exact oracle -------------------------------------------------------------------------------
template <int N> struct Oracle
{
    int  a[N * N];
    int  ce[N];
    int  re[N]; // row exponents (second scaling vector): M = diag(2^re) * A * diag(2^ce); all zero unless oracle_scale2 is used
    i128 det, adj[N * N];
    bool singular, gj_provable, affine;
    ld   normM, normInv, cond, rabs; // rabs = |det(M)| = |det A| * 2^(sum e)
};

template <int N> inline bool rows_proportional_pow2 (const int* a)
{
    for (int i = 0; i < N; ++i)
        for (int j = i + 1; j < N; ++j)
        {
            // row_j = (num/den) row_i with |num/den| a power of two
            int p = -1;
            for (int k = 0; k < N; ++k) if (a[i * N + k] != 0 || a[j * N + k] != 0) { p = k; break; }
            if (p < 0) continue; // both zero rows: the zero-row rule covers it
            int den = a[i * N + p], num = a[j * N + p];
            if (den == 0 || num == 0) continue;
            bool ok = true;
            for (int k = 0; k < N; ++k) if (a[j * N + k] * den != a[i * N + k] * num) ok = false;
            if (!ok) continue;
            int an = num < 0 ? -num : num, ad = den < 0 ? -den : den;
            // an/ad a power of two  <=>  the odd parts agree
            while ((an & 1) == 0) an >>= 1;
            while ((ad & 1) == 0) ad >>= 1;
            if (an == ad) return true;
        }
    return false;
}

template <int N> inline void oracle_base (const int* a, Oracle<N>& O)
{
    i128 A[N * N];
    for (int i = 0; i < N * N; ++i) { O.a[i] = a[i]; A[i] = a[i]; }
    for (int i = 0; i < N; ++i) O.re[i] = O.ce[i] = 0;
    ex::adj_exact (A, N, O.adj);
    i128 d = 0;
    for (int j = 0; j < N; ++j) d += A[j] * O.adj[j * N + 0];
    O.det      = d;
    O.singular = d == 0;
    if (d >= 2048 || d <= -2048) R ().fail ("harness.determinant-exceeds-11-bits", "lattice too large for the exact long-double comparison", "<2048", ex::to_string (d));
    O.gj_provable = false;
    if (O.singular)
    {
        bool zr = false, zc = false;
        for (int i = 0; i < N; ++i)
        {
            bool r0 = true, c0 = true;
            for (int k = 0; k < N; ++k) { if (a[i * N + k]) r0 = false; if (a[k * N + i]) c0 = false; }
            zr |= r0; zc |= c0;
        }
        bool pat = false;
        if (N == 3)
        {
            pat = true;
            for (int c = 0; c < N; ++c)
            {
                int mag = 0;
                for (int r = 0; r < N; ++r)
                {
                    int v = a[r * N + c] < 0 ? -a[r * N + c] : a[r * N + c];
                    if (!v) continue;
                    if ((v & (v - 1)) != 0) pat = false;      // not a power of two
                    if (mag && v != mag) pat = false;          // two magnitudes in one column
                    mag = v;
                }
            }
        }
        O.gj_provable = zr || zc || pat || rows_proportional_pow2<N> (a);
    }
}

// M = diag(2^re) * A * diag(2^ce):  M^-1 = diag(2^-ce) * adj(A)/det(A) * diag(2^-re), entry (i,j) = adj_ij/det * 2^(-ce_i - re_j).
// Every term of the determinant, and of any one cofactor, of such an M carries the same power of two (the sum of
// the row and column exponents involved), so sums of terms stay sums of small integers: the determinant-based
// paths remain exact on these operands as long as that common exponent keeps the values representable.
template <int N> inline void oracle_scale2 (Oracle<N>& O, const int* re, const int* ce)
{
    int sum = 0;
    for (int i = 0; i < N; ++i) { O.ce[i] = ce[i]; O.re[i] = re[i]; sum += ce[i] + re[i]; }
    O.affine = N > 2 && ce[N - 1] == 0 && re[N - 1] == 0 && O.a[N * N - 1] == 1;
    for (int i = 0; i < N - 1; ++i) if (O.a[i * N + N - 1] != 0) O.affine = false;
    ld ad  = O.det < 0 ? -(ld) O.det : (ld) O.det;
    O.rabs = ldexpl (ad, sum);
    O.normM = O.normInv = O.cond = 0;
    for (int i = 0; i < N; ++i)
    {
        ld s = 0;
        for (int j = 0; j < N; ++j) s += ldexpl ((ld) (O.a[i * N + j] < 0 ? -O.a[i * N + j] : O.a[i * N + j]), ce[j] + re[i]);
        if (s > O.normM) O.normM = s;
    }
    if (!O.singular)
    {
        for (int i = 0; i < N; ++i)
        {
            ld s = 0;
            for (int j = 0; j < N; ++j) s += ldexpl ((ld) (O.adj[i * N + j] < 0 ? -O.adj[i * N + j] : O.adj[i * N + j]), -re[j]);
            s = ldexpl (s / ad, -ce[i]);
            if (s > O.normInv) O.normInv = s;
        }
        O.cond = O.normM * O.normInv;
    }
}
template <int N> inline void oracle_scale (Oracle<N>& O, const int* ce)
{
    int re[N];
    for (int i = 0; i < N; ++i) re[i] = 0;
    oracle_scale2<N> (O, re, ce);
}

template <class T, int N> inline typename MT<T, N>::M build (const Oracle<N>& O)
{
    typename MT<T, N>::M m;
    for (int i = 0; i < N; ++i) for (int j = 0; j < N; ++j) m[i][j] = (T) ldexp ((double) O.a[i * N + j], O.ce[j] + O.re[i]);
    return m;
}

// ---- formatting (failure path only) ---------------------------------------------------------------
template <int N> inline std::string in_str (const Oracle<N>& O)
{
    std::string s = "A=[";
    for (int i = 0; i < N * N; ++i) { if (i) s += ","; s += std::to_string (O.a[i]); }
    s += "] column-exponents=[";
    for (int i = 0; i < N; ++i) { if (i) s += ","; s += std::to_string (O.ce[i]); }
    bool rows = false;
    for (int i = 0; i < N; ++i) if (O.re[i]) rows = true;
    if (!rows) return s + "] (M = A*diag(2^e)) det(A)=" + ex::to_string (O.det);
    s += "] row-exponents=[";
    for (int i = 0; i < N; ++i) { if (i) s += ","; s += std::to_string (O.re[i]); }
    return s + "] (M = diag(2^r)*A*diag(2^e)) det(A)=" + ex::to_string (O.det);
}
template <class M> inline std::string mstr (const M& m, int N)
{
    std::string s = "[";
    for (int i = 0; i < N; ++i) for (int j = 0; j < N; ++j) { if (i || j) s += ","; s += vf::fmt (m[i][j]); }
    return s + "]";
}
template <int N> inline std::string exact_str (const Oracle<N>& O)
{
    std::string s = "adj/det*2^-e_i: [";
    for (int i = 0; i < N * N; ++i) { if (i) s += ","; s += ex::Rat (O.adj[i], O.det).str () + "*2^" + std::to_string (-O.ce[i / N] - O.re[i % N]); }
    return s + "]";
}
template <class T> inline std::string mname (int N, const std::string& rest)
{
    char b[64]; snprintf (b, sizeof b, "Matrix%d%d%s", N, N, TN<T>::s ()); return b + rest;
}

// bitwise equality; any NaN matches any NaN (only reachable on singular input where nothing is promised
// about the values themselves)
template <class M> inline bool bitsame (const M& a, const M& b, int N)
{
    for (int i = 0; i < N; ++i)
        for (int j = 0; j < N; ++j)
        {
            if (a[i][j] != a[i][j] && b[i][j] != b[i][j]) continue;
            if (memcmp (&a[i][j], &b[i][j], sizeof (a[i][j])) != 0) return false;
        }
    return true;
}
template <class M> inline bool is_identity (const M& x, int N)
{
    for (int i = 0; i < N; ++i) for (int j = 0; j < N; ++j) if (!(x[i][j] == (i == j ? 1 : 0))) return false;
    return true;
}

// largest |X_ij - exact_ij| / unit, exact = adj/det * 2^(-e_i - r_j) ; +inf if any entry is NaN/inf
template <class T, int N> inline ld max_err (const typename MT<T, N>::M& X, const Oracle<N>& O)
{
    ld d  = (ld) O.det, ad = d < 0 ? -d : d, worst = 0;
    for (int i = 0; i < N; ++i)
        for (int j = 0; j < N; ++j)
        {
            ld x = (ld) X[i][j];
            if (!(fabsl (x) <= (ld) std::numeric_limits<T>::max ())) return HUGE_VALL;
            ld e = fabsl (x * d - ldexpl ((ld) O.adj[i * N + j], -O.ce[i] - O.re[j])) / ad;
            if (e > worst) worst = e;
        }
    return worst;
}

// judge one value-returning form.  detbased: the form is determinant-based on this input
template <class T, int N>
inline void judge (const typename MT<T, N>::M& X, const Oracle<N>& O, const std::string& form, bool detbased, double& worst, Stats* count)
{
    if (O.singular)
    {
        bool ident = is_identity (X, N);
        if (detbased)
        {
            if (!ident) R ().fail (mname<T> (N, form + ".singular-not-identity"), in_str (O), "identity", mstr (X, N));
        }
        else if (O.gj_provable)
        {
            if (count) ++count->gj_prov;
            if (!ident) R ().fail (mname<T> (N, form + ".singular-exact-zero-pivot-not-identity"), in_str (O), "identity", mstr (X, N));
        }
        else if (count) { ++count->gj_unprov; if (ident) ++count->gj_unprov_ident; }
        return;
    }
    ld B = C_BOUND * O.cond * ex::eps<T> () * O.normInv;
    ld e = max_err<T, N> (X, O);
    if (!(e <= B))
        R ().fail (mname<T> (N, form + ".accuracy"), in_str (O), exact_str (O) + " each within " + vf::fmt (B) + " (8*cond*eps*||inv||, cond=" + vf::fmt (O.cond) + ")",
                   mstr (X, N) + " max error " + vf::fmt (e));
    else if ((double) (e / B) > worst) worst = (double) (e / B);
}

// ---- Gauss-Jordan forms (3x3, 4x4 only) ------------------------------------------------------------
template <class T, int N> inline void gj_forms (const Matrix22<T>&, const Oracle<N>&, Stats&) {}
template <class T, int N, class M> inline void gj_forms (const M& m, const Oracle<N>& O, Stats& s)
{
    M G = m.gjInverse ();
    judge<T, N> (G, O, "::gjInverse", false, s.w_gj, &s);
    M G2 = m.gjInverse (false);
    if (!bitsame (G2, G, N)) judge<T, N> (G2, O, "::gjInverse(bool)", false, s.w_gj, nullptr);
    M        Y = m;
    const M& r = Y.gjInvert ();
    if (!bitsame (Y, G, N) || &r != &Y) R ().fail (mname<T> (N, "::gjInvert.vs-gjInverse"), in_str (O), mstr (G, N), mstr (Y, N));
    M        Z  = m;
    const M& r2 = Z.gjInvert (false);
    if (!bitsame (Z, G2, N) || &r2 != &Z) R ().fail (mname<T> (N, "::gjInvert(bool).vs-gjInverse(bool)"), in_str (O), mstr (G2, N), mstr (Z, N));
    s.tr += 4;
}

// ---- all eight forms on one (A, scaling) ------------------------------------------------------------
template <class T, int N> inline typename MT<T, N>::M check_forms (const Oracle<N>& O, Stats& s)
{
    typedef typename MT<T, N>::M M;
    M m = build<T, N> (O);
    ++s.st;
    (O.singular ? s.singular : s.nonsingular)++;
    const bool detbased = N < 4 || O.affine;
    if (N > 2) (O.affine ? s.affine : s.general)++;
    {
        bool rs = false, cg = false;
        for (int i = 1; i < N; ++i) { if (O.re[i] != O.re[0]) rs = true; if (O.ce[i] != O.ce[0] && !(O.affine && i == N - 1)) cg = true; }
        if (rs) ++s.row_scaled;
        if (cg) ++s.col_graded;
    }
    if (detbased && !O.singular) (O.rabs >= 1 ? s.det_ge1 : s.det_lt1)++;
    const std::string path = N == 2 ? "" : (O.affine ? ".affine-path" : ".general-path");
    M X = m.inverse ();
    judge<T, N> (X, O, "::inverse" + path, detbased, s.w_inv, nullptr);
    M X2 = m.inverse (false);
    if (!bitsame (X2, X, N)) judge<T, N> (X2, O, "::inverse(bool)" + path, detbased, s.w_inv, nullptr);
    M        Y = m;
    const M& r = Y.invert ();
    if (!bitsame (Y, X, N) || &r != &Y) R ().fail (mname<T> (N, "::invert.vs-inverse"), in_str (O), mstr (X, N), mstr (Y, N));
    M        Z  = m;
    const M& r2 = Z.invert (false);
    if (!bitsame (Z, X2, N) || &r2 != &Z) R ().fail (mname<T> (N, "::invert(bool).vs-inverse(bool)"), in_str (O), mstr (X2, N), mstr (Z, N));
    s.tr += 4;
    gj_forms<T, N> (m, O, s);
    return X;
}

// ---- one-ulp perturbations of the affine last column -------------------------------------------------
template <class T, int N> inline void check_perturbed (const Oracle<N>& O, Stats& s)
{
    typedef typename MT<T, N>::M M;
    if (!O.affine) return;
    if (O.singular) { ++s.pert_singular; return; }
    M        m = build<T, N> (O);
    M        X = m.inverse (); // fast path (already judged by check_forms)
    const ld eps = ex::eps<T> ();
    const ld B   = C_BOUND * O.cond * eps * O.normInv;
    const T  dm  = std::numeric_limits<T>::denorm_min (), e = std::numeric_limits<T>::epsilon ();
    for (int row = 0; row < N; ++row)
    {
        T   vals[5];
        int nv;
        // -0.0 compares equal to 0: the matrix is numerically the same affine matrix (delta = 0), whichever path a
        // re-implementation of the affine test sends it down the result must stay within the bound of the fast-path result
        if (row < N - 1) { vals[0] = dm; vals[1] = -dm; vals[2] = e; vals[3] = -e; vals[4] = -(T) 0; nv = 5; }
        else { vals[0] = (T) 1 + e; vals[1] = (T) 1 - e / 2; nv = 2; }
        for (int v = 0; v < nv; ++v)
        {
            ld delta = fabsl ((ld) vals[v] - (ld) m[row][N - 1]);
            if (!(O.normInv * delta <= 1e-4L)) { ++s.pert_skipped; continue; }
            M mp = m;
            mp[row][N - 1] = vals[v];
            M  Xp = mp.inverse ();
            ld Bp = B * (1 + 1e-3L) + O.normInv * O.normInv * delta * (1 + 1e-3L);
            ld er = max_err<T, N> (Xp, O);
            std::string in;
            if (!(er <= Bp))
            {
                in = in_str (O) + " then M[" + std::to_string (row) + "][" + std::to_string (N - 1) + "]=" + vf::fmt (vals[v]);
                R ().fail (mname<T> (N, "::inverse.affine-column-perturbed.accuracy"), in, exact_str (O) + " each within " + vf::fmt (Bp), mstr (Xp, N) + " max error " + vf::fmt (er));
            }
            else if ((double) (er / Bp) > s.w_pert) s.w_pert = (double) (er / Bp);
            ld   jump = 0;
            bool nan  = false;
            for (int i = 0; i < N; ++i)
                for (int j = 0; j < N; ++j)
                {
                    ld d = fabsl ((ld) Xp[i][j] - (ld) X[i][j]);
                    if (d != d) nan = true;
                    else if (d > jump) jump = d;
                }
            if (nan || !(jump <= B + Bp))
            {
                in = in_str (O) + " then M[" + std::to_string (row) + "][" + std::to_string (N - 1) + "]=" + vf::fmt (vals[v]);
                R ().fail (mname<T> (N, "::inverse.affine-vs-general-jump"), in, "fast-path result " + mstr (X, N) + " within " + vf::fmt (B + Bp), mstr (Xp, N));
            }
            else if ((double) (jump / (B + Bp)) > s.w_jump) s.w_jump = (double) (jump / (B + Bp));
            // in-place form on the perturbed matrix too
            M Y = mp;
            Y.invert ();
            if (!bitsame (Y, Xp, N)) R ().fail (mname<T> (N, "::invert.vs-inverse"), in_str (O) + " then M[" + std::to_string (row) + "][" + std::to_string (N - 1) + "]=" + vf::fmt (vals[v]), mstr (Xp, N), mstr (Y, N));
            if (delta == 0) ++s.negzero; else ++s.pert;
            s.tr += 2;
        }
    }
}


// Gauss-Jordan forms of the tiny-entry stage (3x3, 4x4 only)
template <class T, int N, class J, class I> inline void tiny_gj (const Matrix22<T>&, J&, I&, Stats&) {}
template <class T, int N, class M, class J, class I> inline void tiny_gj (const M& m, J& jd, I& input, Stats& s)
{
    M G = m.gjInverse ();
    jd (G, "::gjInverse", s.w_tiny_gj);
    M G2 = m.gjInverse (false);
    if (!bitsame (G2, G, N)) jd (G2, "::gjInverse(bool)", s.w_tiny_gj);
    M        Y = m;
    const M& r = Y.gjInvert ();
    if (!bitsame (Y, G, N) || &r != &Y) R ().fail (mname<T> (N, "::gjInvert.vs-gjInverse"), input (), mstr (G, N), mstr (Y, N));
    M        Z  = m;
    const M& r2 = Z.gjInvert (false);
    if (!bitsame (Z, G2, N) || &r2 != &Z) R ().fail (mname<T> (N, "::gjInvert(bool).vs-gjInverse(bool)"), input (), mstr (G2, N), mstr (Z, N));
    s.tr += 4;
}

// ---- S1: non-zero determinant whose cofactor/determinant quotients overflow ---------------------------
// Statement: "a determinant so small that dividing the cofactors by it would overflow" is a singular outcome: the
// non-throwing determinant-based forms return the identity.  Operands M = diag(2^re) A diag(2^ce) with every
// entry, every cofactor and the determinant exactly representable (checked by exact_operands), so the library's
// cofactors and determinant are the exact ones and each quotient is one rounding of adj_ij/det * 2^(-ce_i-re_j).
//   Q = max exact |quotient| over the quotients the determinant-based path forms (affine path: the block).
//   Q >= 2^(emax+1) (exceeds every finite number of the type)         -> exactly the identity is demanded;
//   every exact inverse entry < max/4 (C07: guards fire only within a factor four of max; here it only selects
//   the cases where a finite result is required)                          -> the usual accuracy bound, hence finite;
//   in between                                                            -> the identity, or a finite result within the bound.
// Gauss-Jordan has no documented overflow guard: gjInverse and the non-affine Matrix44::inverse are not run here.
template <class T> struct Lim
{
    static ld  hi () { return ldexpl (1, std::numeric_limits<T>::max_exponent); }
    static ld  lo () { return (ld) std::numeric_limits<T>::max () / 4; }
    static int emin_sub () { return std::numeric_limits<T>::min_exponent - std::numeric_limits<T>::digits; }
    static int guard_exp () { return std::numeric_limits<T>::max_exponent - 2; } // 1/min = 2^126 / 2^1022
};
template <class T, int N> inline bool exact_operands (const Oracle<N>& O)
{
    int Rs = 0, Cs = 0;
    for (int i = 0; i < N; ++i) { Rs += O.re[i]; Cs += O.ce[i]; }
    const int lo = Lim<T>::emin_sub (), hi = std::numeric_limits<T>::max_exponent - 12;
    if (Rs + Cs < lo || Rs + Cs > hi) return false;
    for (int i = 0; i < N; ++i)
        for (int j = 0; j < N; ++j)
        {
            int e = O.re[i] + O.ce[j], c = Rs + Cs - O.re[j] - O.ce[i];
            if (e < lo || e > hi || c < lo || c > hi) return false;
        }
    return true;
}
template <class T, int N> inline void check_overflow (const Oracle<N>& O, Stats& s)
{
    typedef typename MT<T, N>::M M;
    if (O.singular) return;
    if (N == 4 && !O.affine) return;
    if (!exact_operands<T, N> (O)) { R ().fail ("harness.overflow-stage-operand-not-exact", in_str (O), "all entries, cofactors and the determinant representable", "exponent out of range"); return; }
    M m = build<T, N> (O);
    ++s.st;
    const int nb = O.affine ? N - 1 : N;
    ld ad = O.det < 0 ? -(ld) O.det : (ld) O.det, qdiv = 0, qall = 0;
    for (int i = 0; i < N; ++i)
        for (int j = 0; j < N; ++j)
        {
            ld q = ldexpl ((ld) (O.adj[i * N + j] < 0 ? -O.adj[i * N + j] : O.adj[i * N + j]) / ad, -O.ce[i] - O.re[j]);
            if (q > qall) qall = q;
            if (i < nb && j < nb && q > qdiv) qdiv = q;
        }
    const bool must = qdiv >= Lim<T>::hi (), below = qall < Lim<T>::lo ();
    if (must) { ++s.ovf_must; if (O.affine) ++s.ovf_aff_must; }
    else if (below) { ++s.ovf_below; if (O.affine) ++s.ovf_aff_below; }
    else ++s.ovf_window;
    const std::string path = N == 2 ? "" : (O.affine ? ".affine-path" : ".general-path");
    const ld B = C_BOUND * O.cond * ex::eps<T> () * O.normInv;
    auto jd = [&] (const M& X, const std::string& form, bool count) {
        const bool ident = is_identity (X, N);
        if (must)
        {
            if (!ident)
                R ().fail (mname<T> (N, form + ".overflowing-quotient-not-identity"), in_str (O),
                           "identity (exact max |cofactor/determinant| = " + vf::fmt (qdiv) + " >= 2^" + std::to_string (std::numeric_limits<T>::max_exponent) + ")", mstr (X, N));
            return;
        }
        ld e = max_err<T, N> (X, O);
        if (below)
        {
            if (!(e <= B))
                R ().fail (mname<T> (N, form + ".tiny-determinant.accuracy"), in_str (O), exact_str (O) + " each within " + vf::fmt (B) + " (max |exact entry| = " + vf::fmt (qall) + " < max/4)",
                           mstr (X, N) + " max error " + vf::fmt (e));
            else if ((double) (e / B) > s.w_ovf) s.w_ovf = (double) (e / B);
        }
        else
        {
            if (ident) { if (count) ++s.ovf_window_ident; }
            else if (!(e <= B))
                R ().fail (mname<T> (N, form + ".near-overflow.neither-identity-nor-accurate"), in_str (O), "identity, or " + exact_str (O) + " each within " + vf::fmt (B), mstr (X, N) + " max error " + vf::fmt (e));
        }
    };
    M X = m.inverse ();
    jd (X, "::inverse" + path, true);
    M X2 = m.inverse (false);
    if (!bitsame (X2, X, N)) jd (X2, "::inverse(bool)" + path, false);
    M        Y = m;
    const M& r = Y.invert ();
    if (!bitsame (Y, X, N) || &r != &Y) R ().fail (mname<T> (N, "::invert.vs-inverse"), in_str (O), mstr (X, N), mstr (Y, N));
    M        Z  = m;
    const M& r2 = Z.invert (false);
    if (!bitsame (Z, X2, N) || &r2 != &Z) R ().fail (mname<T> (N, "::invert(bool).vs-inverse(bool)"), in_str (O), mstr (X2, N), mstr (Z, N));
    s.tr += 4;
}

// ---- tiny entry: one entry of a lattice matrix perturbed by +-2^-k (a zero entry replaced, or a non-zero entry moved
// by one or two ulps: k = digits-2) -----------------------------------------------------------------------------
// M = A + sg*2^-k*E_pq.  Determinant and adjugate are affine functions of a single entry, so with
// (adj1, det1) those of A + E_pq:   adj(M) = adj + sg*2^-k*(adj1-adj),  det(M) = det + sg*2^-k*(det1-det), and
//   (M^-1)_ij = NUM_ij / DEN,  NUM_ij = adj_ij*2^k + sg*(adj1_ij-adj_ij),  DEN = det*2^k + sg*(det1-det)   (exact, __int128).
// The lattice x power-of-two scalings of the other stages commute exactly with an elimination that does not pivot by
// magnitude; these operands do not: a pivot search that takes the first non-zero entry divides by 2^-k and loses
// the O(1) entries of the other rows (k >= digits), while the matrix is as well conditioned as A.
//  * det(A) != 0 (cond of the order of cond(A)): all eight forms within C_BOUND*cond*eps*||M^-1|| of NUM/DEN.  NUM/DEN
//    is evaluated in long double (relative 2^-62) and norms likewise, so the bound is widened by the factor 1+2^-10.
//  * det(A) == 0, DEN != 0 (nearly singular: |det M| = |det1-det|*2^-k, cond ~ 2^k): the same bound wherever first-order
//    error analysis applies, C_BOUND*cond*eps <= 1/4 (the smaller k; returning the identity for such a matrix, as a
//    relative-tolerance singularity test would, is an error of ||M^-1||, four times the bound); for larger cond
//    (below 1/eps^2) only the statement's "no infinities or NaNs" is demanded.
//  * DEN == 0: exactly singular, but cofactor sums are not exact on these operands: nothing demanded (counted).
template <class T, int N> inline void check_tiny (const int* a, const i128* adj0, i128 det0, int p, int q, int sg, int k, Stats& s)
{
    typedef typename MT<T, N>::M M;
    i128 A1[N * N], adj1[N * N];
    for (int i = 0; i < N * N; ++i) A1[i] = a[i];
    A1[p * N + q] += 1;
    ex::adj_exact (A1, N, adj1);
    i128 det1 = 0;
    for (int j = 0; j < N; ++j) det1 += A1[j] * adj1[j * N + 0];
    const i128 two_k = (i128) 1 << k;
    const i128 DEN   = det0 * two_k + sg * (det1 - det0);
    if (DEN == 0) { ++s.tiny_sing; return; }
    const bool near = det0 == 0;
    M m;
    for (int i = 0; i < N; ++i) for (int j = 0; j < N; ++j) m[i][j] = (T) a[i * N + j];
    m[p][q] = (T) ((double) a[p * N + q] + ldexp ((double) sg, -k)); // exact: a = 0, or |a| <= 2 and k <= digits-2
    if (a[p * N + q] != 0) ++s.tiny_ulp;
    ++s.st;
    (near ? s.tiny_near : s.tiny_well)++;
    bool affine = N > 2 && m[N - 1][N - 1] == 1;
    for (int i = 0; i < N - 1; ++i) if (m[i][N - 1] != 0) affine = false;
    (affine ? s.tiny_affine : s.tiny_general)++;
    ld exact[N * N], normM = 0, normInv = 0;
    const ld den = (ld) DEN;
    for (int i = 0; i < N; ++i)
    {
        ld rm = 0, ri = 0;
        for (int j = 0; j < N; ++j)
        {
            exact[i * N + j] = (ld) (adj0[i * N + j] * two_k + sg * (adj1[i * N + j] - adj0[i * N + j])) / den;
            ri += fabsl (exact[i * N + j]);
            rm += fabsl ((ld) m[i][j]);
        }
        if (rm > normM) normM = rm;
        if (ri > normInv) normInv = ri;
    }
    const ld eps = ex::eps<T> (), cond = normM * normInv;
    const ld B = C_BOUND * cond * eps * normInv * (1 + ldexpl (1, -10));
    if (near && C_BOUND * cond * eps <= 0.25L) ++s.tiny_near_judged;
    auto input = [&] () {
        std::string t = "A=[";
        for (int i = 0; i < N * N; ++i) { if (i) t += ","; t += std::to_string (a[i]); }
        return t + "] then M[" + std::to_string (p) + "][" + std::to_string (q) + "]" + (a[p * N + q] ? "+=" : "=") + (sg < 0 ? "-" : "") + "2^-" + std::to_string (k) + " det(A)=" + ex::to_string (det0) + " cond_inf(M)=" + vf::fmt (cond);
    };
    auto jd = [&] (const M& X, const std::string& form, double& worst) {
        ld   e = 0;
        bool finite = true;
        for (int i = 0; i < N; ++i)
            for (int j = 0; j < N; ++j)
            {
                ld x = (ld) X[i][j];
                if (!(fabsl (x) <= (ld) std::numeric_limits<T>::max ())) { finite = false; continue; }
                ld d = fabsl (x - exact[i * N + j]);
                if (d > e) e = d;
            }
        if (near)
        {
            if (C_BOUND * cond * eps <= 0.25L)
            {
                if (!finite || !(e <= B))
                    R ().fail (mname<T> (N, form + ".nearly-singular.accuracy"), input (), "exact inverse (NUM/DEN) each within " + vf::fmt (B) + " (8*cond*eps*||inv||)", mstr (X, N) + " max error " + (finite ? vf::fmt (e) : std::string ("non-finite")));
                else if ((double) (e / B) > s.w_tiny_near) s.w_tiny_near = (double) (e / B);
            }
            else if (!finite && cond * eps * eps < 1) R ().fail (mname<T> (N, form + ".nearly-singular.nonfinite"), input (), "finite entries (cond < 1/eps^2)", mstr (X, N));
            return;
        }
        if (!finite || !(e <= B))
            R ().fail (mname<T> (N, form + ".tiny-entry.accuracy"), input (), "exact inverse (NUM/DEN) each within " + vf::fmt (B) + " (8*cond*eps*||inv||)", mstr (X, N) + " max error " + (finite ? vf::fmt (e) : std::string ("non-finite")));
        else if ((double) (e / B) > worst) worst = (double) (e / B);
    };
    const std::string path = N == 2 ? "" : (affine ? ".affine-path" : ".general-path");
    M X = m.inverse ();
    jd (X, "::inverse" + path, s.w_tiny_inv);
    M X2 = m.inverse (false);
    if (!bitsame (X2, X, N)) jd (X2, "::inverse(bool)" + path, s.w_tiny_inv);
    M        Y = m;
    const M& r = Y.invert ();
    if (!bitsame (Y, X, N) || &r != &Y) R ().fail (mname<T> (N, "::invert.vs-inverse"), input (), mstr (X, N), mstr (Y, N));
    M        Z  = m;
    const M& r2 = Z.invert (false);
    if (!bitsame (Z, X2, N) || &r2 != &Z) R ().fail (mname<T> (N, "::invert(bool).vs-inverse(bool)"), input (), mstr (X2, N), mstr (Z, N));
    s.tr += 4;
    tiny_gj<T, N> (m, jd, input, s);
}

template <class T> void run ();

} // namespace c06
