// C06 — explicit instantiation of all stages for float (one TU per scalar type)
#include "c06_run.hpp"
namespace c06 { template void run<float> (); }
