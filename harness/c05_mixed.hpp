// C05 — vector x matrix products whose vector element type S differs from the matrix element type T.
//
// The free operators  Vec<S> * Matrix<T>,  Vec<S> *= Matrix<T>  are `template <class S, class T>` and the members
// multVecMatrix / multDirMatrix are `template <class S>`: every one of them mixes the two element types in its sums
// and converts to S.  The S == T stages (c05_exact.hpp) cannot see where those conversions happen.  Here the same
// products are run for (S, T) in {float, double, int, short, int64_t, half} x {float, double}, S != T.
//
// Oracle (nothing beyond the statement: "equal the textbook sums of products of the operands' components", the
// homogeneous forms "append a 1 and divide by the last homogeneous coordinate"):
//  * operands are small integers, or small integers over a power of two (matrix only), such that every product and
//    every partial sum in any order is exactly representable in S, in T and in their common arithmetic type (checked
//    at run time per case: |numerator| <= 2048 for half, <= 32767 for short, < 2^24 otherwise; site
//    "oracle.precondition.mixed-operands-exact");
//  * plain forms and multDirMatrix: when the textbook sum is itself exactly representable in S (always for floating S;
//    for integral S only when the sum is an integer — other cases are not checked, and counted) the result must EQUAL
//    it, wherever the implementation converts between the types;
//  * homogeneous forms: numerators and w are exactly representable in S; the result must equal their quotient in S,
//    i.e. the exact rational rounded once to S for floating S (for half: float quotient rounded to half; that this is
//    the once-rounded rational is verified per case against the two neighbouring halves, site
//    "oracle.selfcheck.half-quotient"), and the C++ integer quotient for integral S.  w == 0 is skipped.
// All spellings (operator*, operator*=, multVecMatrix) must agree bitwise.
#pragma once
#include "c05_exact.hpp"
#include <half.h>

namespace c05 {

template <class S> struct SName;
template <> struct SName<float>   { static const char* s () { return "float"; } };
template <> struct SName<double>  { static const char* s () { return "double"; } };
template <> struct SName<int>     { static const char* s () { return "int"; } };
template <> struct SName<short>   { static const char* s () { return "short"; } };
template <> struct SName<int64_t> { static const char* s () { return "int64_t"; } };
template <> struct SName<half>    { static const char* s () { return "half"; } };

template <class S> struct SInfo
{
    enum { integral = std::numeric_limits<S>::is_integer };
    static S    from (i64 v) { return (S) v; }
    static ld   val (S v) { return (ld) v; }
    static i64  exact_limit () { return std::is_same<S, short>::value ? 32767 : (1 << 24) - 1; }
    static bool same (S a, S b) { return ex::same (a, b); }
};
template <> struct SInfo<half>
{
    enum { integral = 0 };
    static half from (i64 v) { return half ((float) v); }
    static ld   val (half v) { return (ld) (float) v; }
    static i64  exact_limit () { return 2048; }
    static bool same (half a, half b) { return a.bits () == b.bits (); }
};
// an exactly representable dyadic value num/den in S (floating S only)
template <class S> inline S dyadic (i64 num, int den) { return (S) ((double) num / den); }
template <> inline half     dyadic<half> (i64 num, int den) { return half ((float) num / (float) den); }

struct MixedClasses
{
    long long integral_S = 0, narrower_S = 0, wider_S = 0, fractional_integer_sum = 0, fractional_skipped = 0, inexact_quotient = 0,
              integer_quotient_truncated = 0, wzero = 0, projective = 0;
    void merge (const MixedClasses& o)
    {
        integral_S += o.integral_S; narrower_S += o.narrower_S; wider_S += o.wider_S; fractional_integer_sum += o.fractional_integer_sum;
        fractional_skipped += o.fractional_skipped; inexact_quotient += o.inexact_quotient; integer_quotient_truncated += o.integer_quotient_truncated;
        wzero += o.wzero; projective += o.projective;
    }
};

template <class S, class T> inline std::string st_in ()
{
    return std::string ("S=") + SName<S>::s () + " T=" + SName<T>::s () + " ";
}
template <class S, class T> inline void classify_pair (MixedClasses& mc)
{
    if (SInfo<S>::integral) ++mc.integral_S;
    else if (sizeof (S) < sizeof (T)) ++mc.narrower_S;
    else ++mc.wider_S;
}
template <class S, int N> inline std::string svec (const typename MT<S, N>::V& v)
{
    std::string s = "[";
    for (int i = 0; i < N; ++i) { if (i) s += ","; s += vf::fmt ((double) SInfo<S>::val (v[i])); }
    return s + "]";
}
template <class S, int N> inline typename MT<S, N>::V mkvecS (const int* a)
{
    typename MT<S, N>::V v;
    for (int i = 0; i < N; ++i) v[i] = SInfo<S>::from (a[i]);
    return v;
}
// matrix with entries m[i]/den (den a power of two: exact in float and double)
template <class T, int N> inline typename MT<T, N>::M mkden (const int* a, int den)
{
    typename MT<T, N>::M m;
    for (int i = 0; i < N; ++i) for (int j = 0; j < N; ++j) m[i][j] = (T) a[i * N + j] / (T) den;
    return m;
}
inline std::string den_str (int den) { return den == 1 ? std::string () : " (matrix entries are m/" + std::to_string (den) + ")"; }

// is num/den (exact) representable in S, and if so its value
template <class S> inline bool sum_in_S (i64 num, int den, S& out)
{
    if (SInfo<S>::integral)
    {
        if (num % den) return false;
        out = SInfo<S>::from (num / den);
        return true;
    }
    out = dyadic<S> (num, den);
    return true;
}
// `ab` = sum of the absolute values of the terms (numerators over den): bounds every partial sum in any order
template <class S, class T> inline bool mixed_precondition (const i64* ab, int n, int den, const std::string& in)
{
    for (int j = 0; j < n; ++j)
    {
        // integral S computes in T (>= 24 significand bits) and converts values <= sum/den; floating S needs the numerator itself exact
        i64 lim = SInfo<S>::integral ? std::min<i64> (SInfo<S>::exact_limit () * (i64) den, (1 << 24) - 1) : SInfo<S>::exact_limit ();
        if (ab[j] > lim)
        {
            R ().fail ("oracle.precondition.mixed-operands-exact", st_in<S, T> () + in, "sum |term numerators| <= " + std::to_string (lim), std::to_string (ab[j]));
            return false;
        }
    }
    return true;
}

// --- plain VecN<S> x MatrixNN<T> ----------------------------------------------------------------------
template <class S, class T> inline void mixed_dir22 (const Matrix22<T>& A, const Vec2<S>& x, const Vec2<S>& want, const std::string& in, Tally& t)
{
    Vec2<S> d (SInfo<S>::from (9), SInfo<S>::from (9));
    A.multDirMatrix (x, d);
    if (!(d[0] == want[0] && d[1] == want[1])) // as values: -0 == +0
        R ().fail ("Matrix22<T>::multDirMatrix(Vec2<S>).S!=T", in, svec<S, 2> (want), svec<S, 2> (d));
    t.tr += 1;
}
template <class S, class T> inline void mixed_dir22 (const Matrix33<T>&, const Vec3<S>&, const Vec3<S>&, const std::string&, Tally&) {}
template <class S, class T> inline void mixed_dir22 (const Matrix44<T>&, const Vec4<S>&, const Vec4<S>&, const std::string&, Tally&) {}

template <class S, class T, int N> inline void mixed_vecmat (const int* v, const int* m, int den, Tally& t, MixedClasses& mc)
{
    typedef typename MT<T, N>::M M;
    typedef typename MT<S, N>::V V;
    i64 num[N], ab[N];
    for (int j = 0; j < N; ++j)
    {
        i64 s = 0, a = 0;
        for (int k = 0; k < N; ++k) { i64 p = (i64) v[k] * m[k * N + j]; s += p; a += p < 0 ? -p : p; }
        num[j] = s; ab[j] = a;
    }
    V want;
    for (int j = 0; j < N; ++j)
    {
        S w;
        if (!sum_in_S<S> (num[j], den, w)) { ++mc.fractional_skipped; return; }
        want[j] = w;
    }
    std::string in = "v=" + ints (v, N) + " m=" + ints (m, N * N) + den_str (den);
    if (!mixed_precondition<S, T> (ab, N, den, in)) return;
    classify_pair<S, T> (mc);
    if (den != 1 && SInfo<S>::integral) ++mc.fractional_integer_sum;
    M A = mkden<T, N> (m, den);
    V x = mkvecS<S, N> (v);
    V y = x * A;
    bool bad = false;
    for (int j = 0; j < N; ++j) if (!(y[j] == want[j])) bad = true;
    std::string nm = "operator*(Vec" + std::to_string (N) + "<S>,Matrix" + std::to_string (N) + std::to_string (N) + "<T>).S!=T";
    if (bad) R ().fail (nm + (den != 1 ? ".fractional-matrix" : ""), st_in<S, T> () + in, svec<S, N> (want), svec<S, N> (y));
    V        z  = x;
    const V& rr = (z *= A);
    bool     sm = &rr == &z;
    for (int j = 0; j < N; ++j) if (!SInfo<S>::same (z[j], y[j])) sm = false;
    if (!sm) R ().fail ("operator*=(Vec" + std::to_string (N) + "<S>,Matrix" + std::to_string (N) + std::to_string (N) + "<T>).S!=T.vs-operator*", st_in<S, T> () + in, svec<S, N> (y), svec<S, N> (z));
    mixed_dir22<S, T> (A, x, want, st_in<S, T> () + in, t);
    t.st += 1;
    t.tr += 2;
}

// --- multDirMatrix, (N-1)-vector of S with an NxN matrix of T ----------------------------------------
template <class S, class T, int N> inline void mixed_dir (const int* v, const int* m, int den, Tally& t, MixedClasses& mc)
{
    typedef typename MT<T, N>::M     M;
    typedef typename MT<S, N - 1>::V V;
    i64 num[N - 1], ab[N - 1];
    for (int j = 0; j < N - 1; ++j)
    {
        i64 s = 0, a = 0;
        for (int k = 0; k < N - 1; ++k) { i64 p = (i64) v[k] * m[k * N + j]; s += p; a += p < 0 ? -p : p; }
        num[j] = s; ab[j] = a;
    }
    V want;
    for (int j = 0; j < N - 1; ++j)
    {
        S w;
        if (!sum_in_S<S> (num[j], den, w)) { ++mc.fractional_skipped; return; }
        want[j] = w;
    }
    std::string in = "v=" + ints (v, N - 1) + " m=" + ints (m, N * N) + den_str (den);
    if (!mixed_precondition<S, T> (ab, N - 1, den, in)) return;
    classify_pair<S, T> (mc);
    if (den != 1 && SInfo<S>::integral) ++mc.fractional_integer_sum;
    M A = mkden<T, N> (m, den);
    V x = mkvecS<S, N - 1> (v), d;
    for (int i = 0; i < N - 1; ++i) d[i] = SInfo<S>::from (9);
    A.multDirMatrix (x, d);
    bool bad = false;
    for (int j = 0; j < N - 1; ++j) if (!(d[j] == want[j])) bad = true;
    if (bad)
        R ().fail ("Matrix" + std::to_string (N) + std::to_string (N) + "<T>::multDirMatrix(Vec" + std::to_string (N - 1) + "<S>).S!=T" + (den != 1 ? ".fractional-matrix" : ""),
                   st_in<S, T> () + in, svec<S, N - 1> (want), svec<S, N - 1> (d));
    t.st += 1;
    t.tr += 1;
}

// --- homogeneous forms --------------------------------------------------------------------------------
// quotient of two exactly represented S values, as the statement's "divide" in S
template <class S> struct Quot
{
    static S div (S a, S b) { return (S) (a / b); }
    static bool check (i64, i64, S, const std::string&) { return true; }
};
template <> struct Quot<half>
{
    static half div (half a, half b) { return half ((float) a / (float) b); }
    // the float quotient rounded to half IS the rational rounded once to half (nearest): no other half is strictly closer
    static bool check (i64 n, i64 w, half q, const std::string& in)
    {
        if (!q.isFinite ()) return true;
        ld   e  = (ld) n / (ld) w;
        half lo, hi;
        uint16_t b = q.bits ();
        // neighbours in value order (handles the sign-magnitude encoding; +-0 neighbours are the smallest denormals)
        if ((b & 0x7fff) == 0) { lo.setBits (0x8001); hi.setBits (0x0001); }
        else if (b & 0x8000) { lo.setBits (b + 1); hi.setBits (b - 1); }
        else { lo.setBits (b - 1); hi.setBits (b + 1); }
        ld dq = fabsl ((ld) (float) q - e);
        bool ok = true;
        if (lo.isFinite () && fabsl ((ld) (float) lo - e) < dq) ok = false;
        if (hi.isFinite () && fabsl ((ld) (float) hi - e) < dq) ok = false;
        if (!ok) R ().fail ("oracle.selfcheck.half-quotient", in, "nearest half to " + vf::fmt ((double) e), vf::fmt ((double) (float) q));
        return ok;
    }
};

template <class S, class T, int N> inline void mixed_homog (const int* v, const int* m, int den, Tally& t, MixedClasses& mc)
{
    typedef typename MT<T, N>::M     M;
    typedef typename MT<S, N - 1>::V V;
    i64 num[N], ab[N];
    for (int j = 0; j < N; ++j)
    {
        i64 s = m[(N - 1) * N + j], a = s < 0 ? -s : s;
        for (int k = 0; k < N - 1; ++k) { i64 p = (i64) v[k] * m[k * N + j]; s += p; a += p < 0 ? -p : p; }
        num[j] = s; ab[j] = a;
    }
    if (num[N - 1] == 0) { ++mc.wzero; return; } // division by zero: outside the statement
    S sn[N];
    for (int j = 0; j < N; ++j)
        if (!sum_in_S<S> (num[j], den, sn[j])) { ++mc.fractional_skipped; return; }
    std::string in = "v=" + ints (v, N - 1) + " m=" + ints (m, N * N) + den_str (den) + " (exact numerators/w: " + ints (num, N) + ")";
    if (!mixed_precondition<S, T> (ab, N, den, in)) return;
    classify_pair<S, T> (mc);
    if (den != 1 && SInfo<S>::integral) ++mc.fractional_integer_sum;
    bool aff = m[N * N - 1] == den;
    for (int k = 0; k < N - 1; ++k) if (m[k * N + N - 1] != 0) aff = false;
    if (!aff) ++mc.projective;
    V    ref;
    bool inexact = false;
    for (int j = 0; j < N - 1; ++j)
    {
        ref[j] = Quot<S>::div (sn[j], sn[N - 1]);
        if (SInfo<S>::integral) { if (num[j] % num[N - 1]) inexact = true; }
        else
        {   // the quotient is not a dyadic rational: it is really rounded
            i64 dd = num[N - 1] < 0 ? -num[N - 1] : num[N - 1];
            dd /= (i64) ex::gcd ((i128) num[j], (i128) dd);
            if (dd & (dd - 1)) inexact = true;
        }
        if (!Quot<S>::check (num[j], num[N - 1], ref[j], st_in<S, T> () + in)) return;
    }
    if (inexact) ++(SInfo<S>::integral ? mc.integer_quotient_truncated : mc.inexact_quotient);
    M A = mkden<T, N> (m, den);
    V x = mkvecS<S, N - 1> (v);
    V y = x * A;
    bool bad = false;
    for (int j = 0; j < N - 1; ++j) if (!(y[j] == ref[j])) bad = true;
    const std::string vn = "Vec" + std::to_string (N - 1) + "<S>", mn = "Matrix" + std::to_string (N) + std::to_string (N) + "<T>";
    const std::string cls = std::string (den != 1 ? ".fractional-matrix" : "") + (inexact ? (SInfo<S>::integral ? ".integer-quotient" : ".inexact-quotient") : "");
    if (bad) R ().fail ("operator*(" + vn + "," + mn + ").S!=T" + cls, st_in<S, T> () + in, svec<S, N - 1> (ref), svec<S, N - 1> (y));
    V        z  = x;
    const V& rr = (z *= A);
    bool     sm = &rr == &z;
    for (int j = 0; j < N - 1; ++j) if (!SInfo<S>::same (z[j], y[j])) sm = false;
    if (!sm) R ().fail ("operator*=(" + vn + "," + mn + ").S!=T.vs-operator*", st_in<S, T> () + in, svec<S, N - 1> (y), svec<S, N - 1> (z));
    V d;
    for (int i = 0; i < N - 1; ++i) d[i] = SInfo<S>::from (9);
    A.multVecMatrix (x, d);
    bool dbad = false;
    for (int j = 0; j < N - 1; ++j) if (!(d[j] == ref[j])) dbad = true;
    if (dbad) R ().fail (mn + "::multVecMatrix(" + vn + ").S!=T" + cls, st_in<S, T> () + in, svec<S, N - 1> (ref), svec<S, N - 1> (d));
    t.st += 1;
    t.tr += 3;
}

// ---- enumeration ---------------------------------------------------------------------------------------
// generators: dense signed odd primes <= 37 (two of the six sparse); every entry / 2 or / 4 is a proper fraction
inline void mixed_generator (int g, int n2, int* m)
{
    for (int i = 0; i < n2; ++i)
    {
        m[i] = sgn_pat (g, i) * ex::PRIMES[1 + (3 * g + 7 * i) % 11]; // 3 .. 37, odd
        if (g >= 4 && (i + g) % 3 == 0) m[i] = 0;
    }
}

template <class S, class T, int N> inline void mixed_plain_dim (Tally& t, MixedClasses& mc)
{
    static const int P[4] = {3, 5, 7, 11};
    // basis pairs: p e_i x q E_kl
    for (int i = 0; i < N; ++i)
        for (int kl = 0; kl < N * N; ++kl)
        {
            int v[N] = {0}, m[N * N] = {0};
            v[i]  = P[i];
            m[kl] = -ex::PRIMES[kl];
            mixed_vecmat<S, T, N> (v, m, 1, t, mc);
        }
    // L(2)^N sources x 6 generators x denominators {1, 2, 4}
    for (int g = 0; g < 6; ++g)
    {
        int m[N * N];
        mixed_generator (g, N * N, m);
        for (int den = 1; den <= 4; den *= 2)
            for (uint64_t vi = 0; vi < ex::ipow (5, N); ++vi)
            {
                int v[N];
                ex::decode (vi, 5, N, v, -2);
                mixed_vecmat<S, T, N> (v, m, den, t, mc);
            }
    }
    // every {0,+-1} (N <= 3) / 0-1 (N = 4) pattern matrix under a generic vector
    static const int GV[4] = {3, -5, 7, 2};
    const unsigned base = N <= 3 ? 3 : 2;
    for (uint64_t idx = 0; idx < ex::ipow (base, N * N); ++idx)
    {
        int p[N * N];
        ex::decode (idx, base, N * N, p, N <= 3 ? -1 : 0);
        mixed_vecmat<S, T, N> (GV, p, 1, t, mc);
    }
}

template <class S, class T, int N> inline void mixed_proj_dim (Tally& t, MixedClasses& mc)
{
    static const int P[3] = {3, 5, 7};
    for (int i = -1; i < N - 1; ++i)
        for (int kl = 0; kl < N * N; ++kl)
        {
            int v[N - 1] = {0}, m[N * N] = {0};
            if (i >= 0) v[i] = P[i];
            m[kl] = -ex::PRIMES[kl];
            if (i >= 0) mixed_dir<S, T, N> (v, m, 1, t, mc);
            m[kl] = ex::PRIMES[kl];
            m[N * N - 1] += 1;
            mixed_homog<S, T, N> (v, m, 1, t, mc);
        }
    // 6 generators x last column {(0,..,0,1)} + {-1,0,1,2}^(N-1) x W x denominators {1,2,4} x source L(2)^(N-1).
    // With denominator den the last column is scaled by den as well, so that w keeps the same value set.
    static const int W[8] = {1, -1, 2, -2, 4, 3, -3, 5};
    const uint64_t   nlc  = ex::ipow (4, N - 1) * 8 + 1;
    for (int g = 0; g < 6; ++g)
    {
        int m[N * N];
        mixed_generator (g, N * N, m);
        for (int den = 1; den <= 4; den *= 2)
            for (uint64_t lc = 0; lc < nlc; ++lc)
            {
                if (lc == 0)
                {
                    for (int k = 0; k < N - 1; ++k) m[k * N + N - 1] = 0;
                    m[N * N - 1] = den;
                }
                else
                {
                    int d[N - 1];
                    ex::decode ((lc - 1) / 8, 4, N - 1, d, -1);
                    for (int k = 0; k < N - 1; ++k) m[k * N + N - 1] = d[k] * den;
                    m[N * N - 1] = W[(lc - 1) % 8] * den;
                }
                for (uint64_t vi = 0; vi < ex::ipow (5, N - 1); ++vi)
                {
                    int v[N - 1];
                    ex::decode (vi, 5, N - 1, v, -2);
                    mixed_homog<S, T, N> (v, m, den, t, mc);
                    mixed_dir<S, T, N> (v, m, den, t, mc);
                }
            }
    }
    static const int GV[3] = {3, -5, 7};
    const unsigned base = N <= 3 ? 3 : 2;
    for (uint64_t idx = 0; idx < ex::ipow (base, N * N); ++idx)
    {
        int p[N * N];
        ex::decode (idx, base, N * N, p, N <= 3 ? -1 : 0);
        mixed_homog<S, T, N> (GV, p, 1, t, mc);
        mixed_dir<S, T, N> (GV, p, 1, t, mc);
    }
}

// part: 0..2 plain N = 2,3,4; 3,4 homogeneous/direction N = 3,4
template <class S, class T> inline void mixed_pair (int part, MixedClasses& total)
{
    Tally        t;
    MixedClasses mc;
    switch (part)
    {
        case 0: mixed_plain_dim<S, T, 2> (t, mc); break;
        case 1: mixed_plain_dim<S, T, 3> (t, mc); break;
        case 2: mixed_plain_dim<S, T, 4> (t, mc); break;
        case 3: mixed_proj_dim<S, T, 3> (t, mc); break;
        default: mixed_proj_dim<S, T, 4> (t, mc); break;
    }
    t.flush ();
    total.merge (mc);
}

template <class T> struct Other;
template <> struct Other<float>  { typedef double type; };
template <> struct Other<double> { typedef float type; };

// all S != T for one matrix element type T
template <class T> void run_mixed ()
{
    const std::string tl = TN<T>::l ();
    if (!R ().stage ("mixed-element-types.matrix-" + tl)) return;
    MixedClasses mc[25];
    // 5 vector element types x 5 (form, dimension) parts; the largest part (homogeneous N = 4) first
    bool complete = vf::parallel_chunks (25, 1, [&] (uint64_t lo, uint64_t hi, unsigned) {
        for (uint64_t i = lo; i < hi; ++i)
        {
            int part = 4 - (int) (i / 5);
            switch (i % 5)
            {
                case 0: mixed_pair<typename Other<T>::type, T> (part, mc[i]); break;
                case 1: mixed_pair<int, T> (part, mc[i]); break;
                case 2: mixed_pair<short, T> (part, mc[i]); break;
                case 3: mixed_pair<int64_t, T> (part, mc[i]); break;
                default: mixed_pair<half, T> (part, mc[i]); break;
            }
        }
    });
    MixedClasses s;
    for (int i = 0; i < 25; ++i) s.merge (mc[i]);
    R ().cls ("mixed.integral-S", s.integral_S);
    R ().cls ("mixed.floating-S-narrower-than-T", s.narrower_S);
    if (sizeof (T) == 4) R ().cls ("mixed.floating-S-wider-than-T", s.wider_S);
    R ().cls ("mixed.integral-S.fractional-matrix-entries-integer-sums", s.fractional_integer_sum);
    R ().cls ("mixed.inexact-quotient-rounded-once-in-S", s.inexact_quotient);
    R ().cls ("mixed.integral-S.truncated-integer-quotient", s.integer_quotient_truncated);
    R ().cls ("mixed.projective-last-column", s.projective);
    R ().add ("mixed_cases_not_checked_sum_not_an_integer", s.fractional_skipped);
    R ().add ("mixed_homog_w_zero_skipped", s.wzero);
    if (!complete) { R ().stage_partial ("deadline reached before all five vector element types ran"); return; }
    R ().stage_done ("Vec<S> x Matrix<" + tl + "> (operator*, operator*=, multVecMatrix, multDirMatrix; plain N=2,3,4, homogeneous/direction N=3,4) for S in {" +
                     std::string (sizeof (T) == 4 ? "double" : "float") + ", int, short, int64_t, half}: basis pairs; L(2) sources x 6 prime generators x entry denominators {1,2,4} x "
                     "last columns {-1,0,1,2}^(n-1) x {+-1,+-2,4,+-3,5}; every {0,+-1} 2x2/3x3 and 0/1 4x4 pattern matrix under a generic vector");
}

} // namespace c05
