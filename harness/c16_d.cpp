// C16 (part d) — operation histories (findings/audits/audit4.md, C16 item 3).
// frustum-core checks every relation on freshly CONSTRUCTED frusta and, after modifyNearAndFar / window / set(fov), only
// re-reads the accessors; setOrthographic() is never called there and set(fov) is only applied to a default (perspective)
// frustum.  Here every frustum of the alphabet is driven through
//     setOrthographic(!o) | setOrthographic(!o) twice | modifyNearAndFar (3) | window (4) | set(near,far,fovx|fovy,aspect) (2)
//     | setOrthographic(!o); modifyNearAndFar; window
// and afterwards (1) the state is compared with the definition of the operation and (2) the FULL relation set is re-run on
// the resulting object against the ideal frustum of the parameters read back through the accessors:
//     projectionMatrix (corners -> cube, layout), planes() (order, unit outward normals, own corners), normalizedZToDepth at
//     the clipping planes, projectPointToScreen / projectScreenToRay at the corners, fovx / fovy / aspect.
// Tolerances.  The parameters of a result are arbitrary T values (no longer few-bit dyadics), so r-l, r+l, ... round once:
// every matrix entry carries <= 3 eps relative error and an NDC coordinate is a sum of two terms of magnitude
// <= 2 kappa, kappa_x = (|l|+|r|)/(r-l), kappa_y = (|b|+|t|)/(t-b), kappa_z = (f+n)/(f-n):  error <= 13 eps kappa, bound 16 eps kappa.
// Screen projection 24 eps kappa (frustum-core's 8 eps (2|x'|+|l|+|r|)/(r-l) with |x'| <= max(|l|,|r|)); planes, depth, ray, fov:
// the bounds of frustum-core.
#include "c16.hpp"

namespace c16 {
using namespace vf;

template <class T> static L3 xform2 (const Matrix44<T>& M, const L3& p)
{
    LD o[4];
    for (int j = 0; j < 4; ++j) o[j] = p.x * (LD) M[0][j] + p.y * (LD) M[1][j] + p.z * (LD) M[2][j] + (LD) M[3][j];
    return {o[0] / o[3], o[1] / o[3], o[2] / o[3]};
}

template <class T> static FSpec readback (const Frustum<T>& g)
{
    return {(double) g.nearPlane (), (double) g.farPlane (), (double) g.left (), (double) g.right (), (double) g.bottom (), (double) g.top (), g.orthographic (), false};
}

// the full relation set on g; op names the history for the site, in describes it completely
template <class T> static ll relations (const Frustum<T>& g, const std::string& op, const std::string& in)
{
    const LD e = ex::eps<T> ();
    const FSpec F = readback (g);
    const LD n = F.n, f = F.f, l = F.l, r = F.r, b = F.b, t = F.t;
    const std::string S0 = "Frustum::after(" + op + ").";
    if (!(n > 0 && f > n && l < r && b < t)) { R ().fail (S0 + "state-degenerate", in, "near < far, left < right, bottom < top", F.str ()); return 1; }
    const Ideal I = ideal (F);
    const LD kx = (fabsl (l) + fabsl (r)) / (r - l), ky = (fabsl (b) + fabsl (t)) / (t - b), kz = (f + n) / (f - n);
    ll k_t = 0;
    // projectionMatrix
    const Matrix44<T> M = g.projectionMatrix ();
    for (int c = 0; c < 8; ++c)
    {
        L3 want = {(c == 0 || c == 1 || c == 4 || c == 5) ? -1.0L : 1.0L, (c == 0 || c == 3 || c == 4 || c == 7) ? -1.0L : 1.0L, c < 4 ? -1.0L : 1.0L};
        L3 got  = xform2 (M, I.cor[c]);
        ++k_t;
        if (!(fabsl (got.x - want.x) <= 16 * e * kx && fabsl (got.y - want.y) <= 16 * e * ky && fabsl (got.z - want.z) <= 16 * e * kz))
            R ().fail (S0 + "projectionMatrix.corners-to-cube", in + " -> " + F.str () + " corner " + s (I.cor[c]), s (want), s (got));
    }
    if (!(M[0][1] == 0 && M[0][2] == 0 && M[0][3] == 0 && M[1][0] == 0 && M[1][2] == 0 && M[1][3] == 0 && M[2][3] == (F.ortho ? 0 : -1) && M[3][3] == (F.ortho ? 1 : 0)))
        R ().fail (S0 + "projectionMatrix.layout", in + " -> " + F.str (), F.ortho ? "orthographic layout" : "perspective layout", "different");
    // the throwing spellings of the accessors (separate copies of the code; on a non-degenerate frustum they must not throw and
    // are the same documented quantities, so they are held to the same bounds): sites "...Exc..."
    try
    {
        const Matrix44<T> ME = g.projectionMatrixExc ();
        for (int c = 0; c < 8; ++c)
        {
            L3 want = {(c == 0 || c == 1 || c == 4 || c == 5) ? -1.0L : 1.0L, (c == 0 || c == 3 || c == 4 || c == 7) ? -1.0L : 1.0L, c < 4 ? -1.0L : 1.0L};
            L3 got  = xform2 (ME, I.cor[c]);
            ++k_t;
            if (!(fabsl (got.x - want.x) <= 16 * e * kx && fabsl (got.y - want.y) <= 16 * e * ky && fabsl (got.z - want.z) <= 16 * e * kz))
                R ().fail (S0 + "projectionMatrixExc.corners-to-cube", in + " -> " + F.str () + " corner " + s (I.cor[c]), s (want), s (got));
        }
        if (!(ME[0][1] == 0 && ME[0][2] == 0 && ME[0][3] == 0 && ME[1][0] == 0 && ME[1][2] == 0 && ME[1][3] == 0 && ME[2][3] == (F.ortho ? 0 : -1) && ME[3][3] == (F.ortho ? 1 : 0)))
            R ().fail (S0 + "projectionMatrixExc.layout", in + " -> " + F.str (), F.ortho ? "orthographic layout" : "perspective layout", "different");
        for (int zi = 0; zi < 2; ++zi)
        {
            const T d = g.normalizedZToDepthExc ((T) zi);
            const LD wd = zi ? -f : -n, tol = F.ortho ? 8 * e * f : 8 * e * (f / n) * fabsl (wd);
            ++k_t;
            if (!(fabsl ((LD) d - wd) <= tol)) R ().fail (S0 + "normalizedZToDepthExc.clipping-plane", in + " -> " + F.str () + " zval=" + std::to_string (zi), s (wd), fmt (d));
        }
        for (int c = 0; c < 8; ++c)
        {
            const Vec3<T> p = toV<T> (I.cor[c]);
            const Vec2<T> sc = g.projectPointToScreenExc (p);
            const LD wx = (c == 0 || c == 1 || c == 4 || c == 5) ? -1 : 1, wy = (c == 0 || c == 3 || c == 4 || c == 7) ? -1 : 1;
            ++k_t;
            if (!(fabsl ((LD) sc.x - wx) <= 24 * e * kx && fabsl ((LD) sc.y - wy) <= 24 * e * ky)) R ().fail (S0 + "projectPointToScreenExc.corner", in + " -> " + F.str () + " p=" + s (p), "(" + s (wx) + "," + s (wy) + ")", "(" + fmt (sc.x) + "," + fmt (sc.y) + ")");
        }
        const LD wa = (r - l) / (t - b);
        ++k_t;
        if (!(fabsl ((LD) g.aspectExc () - wa) <= 4 * e * wa)) R ().fail (S0 + "aspectExc", in + " -> " + F.str (), s (wa), fmt (g.aspectExc ()));
    }
    catch (...) { R ().fail (S0 + "Exc-accessor.threw-on-non-degenerate-frustum", in + " -> " + F.str (), "no exception", "exception"); }
    // planes()
    Plane3<T> P[6];
    g.planes (P);
    static const int ON[6][4] = {{1, 2, 5, 6}, {2, 3, 6, 7}, {0, 3, 4, 7}, {0, 1, 4, 5}, {0, 1, 2, 3}, {4, 5, 6, 7}};
    for (int i = 0; i < 6; ++i)
    {
        const L3 pn = toL (P[i].normal);
        const std::string pin = in + " -> " + F.str () + " plane " + std::to_string (i);
        k_t += 2;
        if (!(linf (pn - I.nrm[i]) <= 8 * e)) R ().fail (S0 + "planes.normal", pin, s (I.nrm[i]), s (pn));
        if (!(fabsl ((LD) P[i].distance - I.off[i]) <= 8 * e * fabsl (I.off[i]))) R ().fail (S0 + "planes.offset", pin, s (I.off[i]), fmt (P[i].distance));
        for (int c : ON[i])
        {
            LD dc = dot (pn, I.cor[c]) - (LD) P[i].distance;
            if (!(fabsl (dc) <= 16 * e * (l1 (I.cor[c]) + 1))) R ().fail (S0 + "planes.contains-corner", pin + " corner " + s (I.cor[c]), "0", s (dc));
        }
        if (!(dot (pn, I.centre) - (LD) P[i].distance < 0)) R ().fail (S0 + "planes.outward", pin, "centre on the negative side", s (dot (pn, I.centre) - (LD) P[i].distance));
    }
    // depth at the clipping planes
    for (int zi = 0; zi < 2; ++zi)
    {
        const T d = g.normalizedZToDepth ((T) zi);
        const LD wd = zi ? -f : -n, tol = F.ortho ? 8 * e * f : 8 * e * (f / n) * fabsl (wd);
        ++k_t;
        if (!(fabsl ((LD) d - wd) <= tol)) R ().fail (S0 + "normalizedZToDepth.clipping-plane", in + " -> " + F.str () + " zval=" + std::to_string (zi), s (wd), fmt (d));
    }
    // screen projection of the eight corners, and the ray through the four screen corners
    for (int c = 0; c < 8; ++c)
    {
        const Vec3<T> p = toV<T> (I.cor[c]);
        const Vec2<T> sc = g.projectPointToScreen (p);
        const LD wx = (c == 0 || c == 1 || c == 4 || c == 5) ? -1 : 1, wy = (c == 0 || c == 3 || c == 4 || c == 7) ? -1 : 1;
        ++k_t;
        if (!(fabsl ((LD) sc.x - wx) <= 24 * e * kx && fabsl ((LD) sc.y - wy) <= 24 * e * ky)) R ().fail (S0 + "projectPointToScreen.corner", in + " -> " + F.str () + " p=" + s (p), "(" + s (wx) + "," + s (wy) + ")", "(" + fmt (sc.x) + "," + fmt (sc.y) + ")");
    }
    for (int c = 0; c < 4; ++c)
    {
        const LD sx = (c == 0 || c == 1) ? -1 : 1, sy = (c == 0 || c == 3) ? -1 : 1;
        const Line3<T> ray = g.projectScreenToRay (Vec2<T> ((T) sx, (T) sy));
        const L3 rp = toL (ray.pos), rd = toL (ray.dir);
        ++k_t;
        if (!(fabsl (dot (rd, rd) - 1) <= 8 * e) || !(rd.z < 0)) R ().fail (S0 + "projectScreenToRay.direction", in + " -> " + F.str (), "unit, pointing to -z", s (rd));
        for (int q : {c, c + 4})
        {
            const L3 Pq = I.cor[q], v = Pq - rp, o = v - rd * (dot (v, rd) / dot (rd, rd));
            const LD k = F.ortho ? 1 : (q < 4 ? 1 : f / n);
            if (!(linf (o) <= 8 * e * (l1 (Pq) + (fabsl (l) + fabsl (r) + fabsl (b) + fabsl (t)) * k + 1))) R ().fail (S0 + "projectScreenToRay.through-corner", in + " -> " + F.str () + " screen (" + s (sx) + "," + s (sy) + ")", "ray through " + s (Pq), "misses by " + s (o));
        }
    }
    // fov / aspect
    {
        const LD wx = atan2l (r, n) - atan2l (l, n), wy = atan2l (t, n) - atan2l (b, n), wa = (r - l) / (t - b);
        k_t += 3;
        if (!(fabsl ((LD) g.fovx () - wx) <= 8 * e)) R ().fail (S0 + "fovx", in + " -> " + F.str (), s (wx), fmt (g.fovx ()));
        if (!(fabsl ((LD) g.fovy () - wy) <= 8 * e)) R ().fail (S0 + "fovy", in + " -> " + F.str (), s (wy), fmt (g.fovy ()));
        if (!(fabsl ((LD) g.aspect () - wa) <= 4 * e * wa)) R ().fail (S0 + "aspect", in + " -> " + F.str (), s (wa), fmt (g.aspect ()));
    }
    return k_t;
}

template <class T> static void history ()
{
    const LD   e  = ex::eps<T> ();
    const auto FS = frusta ();
    std::string st = std::string ("frustum-history.") + tname<T> ();
    if (!R ().stage (st)) return;
    std::atomic<ll> c_hist (0), c_flip_o (0), c_flip_p (0), c_mod (0), c_win (0), c_fov_o (0), c_fov_p (0), c_exc_o (0), c_exc_p (0), c_chain (0), trans (0);
    const LD pi = 3.14159265358979323846264338327950288L;
    bool ok = parallel_chunks (FS.size (), 16, [&] (uint64_t lo, uint64_t hi, unsigned) {
        ll k_h = 0, k_fo = 0, k_fp = 0, k_m = 0, k_w = 0, k_vo = 0, k_vp = 0, k_xo = 0, k_xp = 0, k_c = 0, k_t = 0;
        for (uint64_t fi = lo; fi < hi; ++fi)
        {
            const FSpec& F = FS[fi];
            const Frustum<T> fr = F.make<T> ();
            const std::string in0 = std::string ("T=") + tname<T> () + " " + F.str ();
            const LD n = F.n, f = F.f, l = F.l, r = F.r, b = F.b, t = F.t;
            auto same6 = [&] (const Frustum<T>& g) { return g.nearPlane () == fr.nearPlane () && g.farPlane () == fr.farPlane () && g.left () == fr.left () && g.right () == fr.right () && g.top () == fr.top () && g.bottom () == fr.bottom (); };
            // ---- setOrthographic(!o)
            {
                Frustum<T> g = fr;
                g.setOrthographic (!F.ortho);
                const std::string in = in0 + " .setOrthographic(" + (F.ortho ? "false" : "true") + ")";
                ++k_h; (F.ortho ? k_fo : k_fp)++;
                if (!(same6 (g) && g.orthographic () == !F.ortho)) R ().fail ("Frustum::after(setOrthographic).state", in, "same six parameters, projection kind flipped", readback (g).str ());
                else k_t += relations (g, "setOrthographic", in);
                g.setOrthographic (F.ortho);
                ++k_h;
                if (!(g == fr)) R ().fail ("Frustum::after(setOrthographic twice).state", in + " .setOrthographic(" + (F.ortho ? "true" : "false") + ")", "the original frustum", readback (g).str ());
                g.setOrthographic (F.ortho); // idempotent
                if (!(g == fr)) R ().fail ("Frustum::after(setOrthographic idempotent).state", in0 + " .setOrthographic(its own kind)", "unchanged", readback (g).str ());
            }
            // ---- modifyNearAndFar
            static const double NF[][2] = {{0.5, 1}, {2, 2}, {1.5, 2}};
            for (auto& nf : NF)
            {
                Frustum<T> g = fr; const T nn = (T) (n * nf[0]), ff = (T) (f * nf[1]);
                g.modifyNearAndFar (nn, ff);
                const std::string in = in0 + " .modifyNearAndFar(" + fmt (nn) + "," + fmt (ff) + ")";
                ++k_h; ++k_m;
                const LD k = F.ortho ? 1 : nf[0];
                const LD wv[4] = {l * k, r * k, t * k, b * k}; const T gv[4] = {g.left (), g.right (), g.top (), g.bottom ()};
                bool okst = g.nearPlane () == nn && g.farPlane () == ff && g.orthographic () == F.ortho;
                for (int q = 0; q < 4; ++q) if (!(fabsl ((LD) gv[q] - wv[q]) <= (F.ortho ? 0 : 8 * e * fabsl (wv[q])))) okst = false;
                if (!okst) R ().fail ("Frustum::after(modifyNearAndFar).state", in, "near/far stored; window kept (orthographic) or scaled by near'/near (perspective)", readback (g).str ());
                else k_t += relations (g, "modifyNearAndFar", in);
            }
            // ---- window
            static const double WR[][4] = {{-1, 1, 1, -1}, {-0.5, 0.5, 0.25, -0.75}, {0, 1, 1, 0}, {-1, -0.25, 0.5, -1}};
            for (auto& wr : WR)
            {
                const Frustum<T> g = fr.window ((T) wr[0], (T) wr[1], (T) wr[2], (T) wr[3]);
                const std::string in = in0 + " .window(" + fmt (wr[0]) + "," + fmt (wr[1]) + "," + fmt (wr[2]) + "," + fmt (wr[3]) + ")";
                ++k_h; ++k_w;
                const LD wl = l + (r - l) * (1 + wr[0]) / 2, wrr = l + (r - l) * (1 + wr[1]) / 2, wt = b + (t - b) * (1 + wr[2]) / 2, wb = b + (t - b) * (1 + wr[3]) / 2;
                const LD tx = 4 * e * (fabsl (l) + fabsl (r)), ty = 4 * e * (fabsl (b) + fabsl (t));
                if (!(fabsl ((LD) g.left () - wl) <= tx && fabsl ((LD) g.right () - wrr) <= tx && fabsl ((LD) g.top () - wt) <= ty && fabsl ((LD) g.bottom () - wb) <= ty && g.nearPlane () == fr.nearPlane () && g.farPlane () == fr.farPlane () && g.orthographic () == F.ortho))
                    R ().fail ("Frustum::after(window).state", in, "the sub-rectangle, same near/far/kind", readback (g).str ());
                else k_t += relations (g, "window", in);
            }
            // ---- set(near, far, fovx, fovy, aspect) applied to an EXISTING frustum of either kind: the result is perspective
            // Both spellings: set(...) and the throwing form setExc(...) (a separate copy of the code; it throws only when fovx and
            // fovy are both non-zero, which is never the case here), each on both starting kinds, and (start 1) after the kind was
            // flipped with setOrthographic first. "Set functions change the entire state of the Frustum" (ImathFrustum.h).
            for (int start = 0; start < 2; ++start)
            for (int spell = 0; spell < 2; ++spell)
            for (int mode = 0; mode < 2; ++mode)
            {
                Frustum<T> g = fr; const T nn = (T) (2 * n), ff = (T) (16 * n), phi = (T) (pi / 3), a = (T) (4.0L / 3);
                if (start == 1) g.setOrthographic (!F.ortho);
                const bool was_ortho = start == 1 ? !F.ortho : F.ortho;
                const std::string SP = spell ? "setExc" : "set";
                bool threw = false;
                if (spell == 0) { if (mode == 0) g.set (nn, ff, phi, (T) 0, a); else g.set (nn, ff, (T) 0, phi, a); }
                else { try { if (mode == 0) g.setExc (nn, ff, phi, (T) 0, a); else g.setExc (nn, ff, (T) 0, phi, a); } catch (...) { threw = true; } }
                const std::string in = in0 + (start == 1 ? std::string (" .setOrthographic(") + (F.ortho ? "false" : "true") + ")" : std::string ()) + " ." + SP + "(near=" + fmt (nn) + ", far=" + fmt (ff) + (mode == 0 ? ", fovx=" : ", fovx=0, fovy=") + fmt (phi) + (mode == 0 ? ", fovy=0" : "") + ", aspect=" + fmt (a) + ")";
                ++k_h; (spell ? (was_ortho ? k_xo : k_xp) : (was_ortho ? k_vo : k_vp))++;
                if (threw) { R ().fail ("Frustum::setExc(fov).threw-on-valid-arguments", in, "no exception (only one of fovx/fovy is non-zero)", "exception"); continue; }
                const LD tn = tanl ((LD) phi / 2), wr_ = mode == 0 ? 2 * n * tn : 2 * n * tn * (LD) a, wt_ = mode == 0 ? 2 * n * tn / (LD) a : 2 * n * tn;
                if (!(g.nearPlane () == nn && g.farPlane () == ff && !g.orthographic () && g.left () == -g.right () && g.bottom () == -g.top () && fabsl ((LD) g.right () - wr_) <= 8 * e * wr_ && fabsl ((LD) g.top () - wt_) <= 8 * e * wt_))
                    R ().fail (was_ortho ? "Frustum::after(" + SP + "(fov) on an orthographic frustum).state" : "Frustum::after(" + SP + "(fov)).state", in, "a symmetric PERSPECTIVE frustum with the requested field of view", readback (g).str ());
                else k_t += relations (g, SP + "(fov)", in);
            }
            // ---- chain
            {
                Frustum<T> g = fr;
                g.setOrthographic (!F.ortho);
                const T nn = (T) (2 * n), ff = (T) (2 * f);
                g.modifyNearAndFar (nn, ff);
                const Frustum<T> w = g.window ((T) -0.5, (T) 0.5, (T) 0.25, (T) -0.75);
                const std::string in = in0 + " .setOrthographic(" + (F.ortho ? "false" : "true") + ") .modifyNearAndFar(" + fmt (nn) + "," + fmt (ff) + ") .window(-0.5,0.5,0.25,-0.75)";
                ++k_h; ++k_c;
                const LD k = !F.ortho ? 1 : 2; // the new kind decides: orthographic keeps the window, perspective scales it by near'/near = 2
                const LD L = l * k, Rr = r * k, B = b * k, Tt = t * k;
                const LD wl = L + (Rr - L) * 0.25L, wrr = L + (Rr - L) * 0.75L, wt = B + (Tt - B) * 0.625L, wb = B + (Tt - B) * 0.125L;
                const LD tx = 16 * e * (fabsl (L) + fabsl (Rr)), ty = 16 * e * (fabsl (B) + fabsl (Tt));
                if (!(fabsl ((LD) w.left () - wl) <= tx && fabsl ((LD) w.right () - wrr) <= tx && fabsl ((LD) w.top () - wt) <= ty && fabsl ((LD) w.bottom () - wb) <= ty && w.nearPlane () == nn && w.farPlane () == ff && w.orthographic () == !F.ortho))
                    R ().fail ("Frustum::after(setOrthographic; modifyNearAndFar; window).state", in, "kind flipped, near/far stored, window (scaled if now perspective) cut to the sub-rectangle", readback (w).str ());
                else k_t += relations (w, "setOrthographic; modifyNearAndFar; window", in);
            }
        }
        c_hist += k_h; c_flip_o += k_fo; c_flip_p += k_fp; c_mod += k_m; c_win += k_w; c_fov_o += k_vo; c_fov_p += k_vp; c_exc_o += k_xo; c_exc_p += k_xp; c_chain += k_c; trans += k_t;
    });
    R ().add ("states", c_hist); R ().add ("evaluations", c_hist); R ().add ("transitions", trans);
    R ().cls ("history.setOrthographic(false)-on-orthographic", c_flip_o); R ().cls ("history.setOrthographic(true)-on-perspective", c_flip_p);
    R ().cls ("history.modifyNearAndFar", c_mod); R ().cls ("history.window", c_win);
    R ().cls ("history.set(fov)-on-orthographic", c_fov_o); R ().cls ("history.set(fov)-on-perspective", c_fov_p);
    R ().cls ("history.setExc(fov)-on-orthographic", c_exc_o); R ().cls ("history.setExc(fov)-on-perspective", c_exc_p); R ().cls ("history.three-operation-chain", c_chain);
    if (ok) R ().stage_done (std::to_string (FS.size ()) + " frusta x 19 operation histories (set(fov) and setExc(fov), fovx / fovy form, directly and after setOrthographic(!kind)), state + full relation set (projectionMatrix, planes, depth, screen projection, rays, fov; the ...Exc spellings of the accessors under the same bounds) after each");
    else R ().stage_partial ("deadline");
}

void run_history () { history<float> (); history<double> (); }
} // namespace c16
