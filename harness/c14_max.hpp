// C14 — stages added after the audit of the first harness:
//   max-face   : box faces AT +-numeric_limits<T>::max() (infinite boxes, half spaces, slabs, the canonical empty
//                box) with ordinary small-integer origins and directions; exact oracle in the numbers a*W+b (Big).
//   signed     : the integer lattice shifted so that box coordinates take both signs.
//   negzero    : -0.0 as direction component and as box / origin coordinate.
#pragma once
#include "c14.hpp"
#include "c14_lat.hpp"

namespace c14 {

// ---- max-face ---------------------------------------------------------------------------------------------------
// Per-axis (min,max): (-W,W) unbounded, (1,W) and (-W,1) half lines, (0,1) ordinary, (W,-W) the canonical empty
// interval (Box::makeEmpty), (W,W) flat at the extreme, thorough also (-1,1), (-W,-W), (1,-W) ... every product, so
// makeInfinite() (all axes (-W,W)) and makeEmpty() (all axes (W,-W)) are members.
// Origins {-1,0,2}^3, directions {-3..3}^3 minus 0 (quick {-2..2}^3).
//
// Every slab parameter t = (face - origin)/dir of a finite face is a small rational; of a face at +-W it is
// (+-W - o)/d with |d| >= 1: |t| <= W + 2. All failures of this stage carry the site suffix ".box-face-at-max".
// Cases in which some exact parameter is W+1 or W+2 (origin on the far side of 0; the difference face - origin
// itself rounds to +-W) are counted as a class of their own; the exact truth value and the exact points (all inside
// the box, hence representable) are defined there as well and are demanded.
// Tolerance of the points: the general one of c14.hpp (2*eps*M + 2*denorm_min, M ~ W here; the rounding of a
// difference +-W - o adds a relative 2/W < 2^-126 to the three roundings of the analysis there: still < 4u).
//
// Checked domain: a difference face - origin = +-W - o with o in {-1,2} is not a number of T (it rounds to +-W; half
// an ulp of W is 2^103 resp. 2^970). A case whose exact truth value (line or ray) differs from the truth value of the
// problem in which every such difference is replaced by its correctly rounded value rests its hit/miss decision on
// one part in 2^127 resp. 2^1023 of a parameter: no evaluation in T can see that, the case is outside the checked
// domain (counted, not judged). All other cases - in particular every case with origin coordinate 0 on the axes
// that have a face at +-W - are judged against the EXACT truth value and the exact points.
template <class T> inline void rounded_truth (const Big<T>* mn, const Big<T>* mx, const Big<T>* p, const Big<T>* d, bool& line, bool& ray)
{
    typedef Big<T> B;
    line = ray = false;
    for (int i = 0; i < 3; ++i) if (mx[i] < mn[i]) return;
    bool have = false; Frac<B> tin{0, 1}, tout{0, 1};
    for (int i = 0; i < 3; ++i)
    {
        if (d[i] == 0) { if (p[i] < mn[i] || p[i] > mx[i]) return; continue; } // compared directly, no difference formed
        B dl = mn[i] - p[i], dh = mx[i] - p[i];
        if (dl.b) dl.c = 0; // fl(+-W - o) = +-W
        if (dh.b) dh.c = 0;
        Frac<B> lo, hi;
        if (d[i] > 0) { lo = {dl, d[i]}; hi = {dh, d[i]}; } else { lo = {-dh, -d[i]}; hi = {-dl, -d[i]}; }
        if (!have) { tin = lo; tout = hi; have = true; }
        else { if (lt (tin, lo)) tin = lo; if (lt (hi, tout)) tout = hi; }
    }
    line = le (tin, tout);
    ray  = line && tout.n >= 0;
}

template <class T> bool run_maxface (bool thorough)
{
    typedef Big<T> B;
    std::vector<std::pair<B, B>> AX = {{-B::W (), B::W ()}, {B (1), B::W ()}, {-B::W (), B (1)}, {B (0), B (1)}, {B::W (), -B::W ()}, {B::W (), B::W ()}};
    if (thorough) { AX.push_back ({B (-1), B (1)}); AX.push_back ({-B::W (), -B::W ()}); AX.push_back ({B (1), -B::W ()}); }
    const int OC[3] = {-1, 0, 2};
    const int DR = thorough ? 3 : 2;
    const uint64_t NA = AX.size (), NB = NA * NA * NA, ND = ex::ipow (2 * DR + 1, 3);
    Tally total, beyond; std::mutex mu;
    std::atomic<long long> n_inf (0), n_half (0), n_canon_empty (0), n_eq (0), n_beyond (0), n_extreme_empty (0), n_out (0), n_origin_off (0);
    bool ok = vf::parallel_chunks (NB, 1, [&] (uint64_t lo, uint64_t hi, unsigned) {
        Tally tl, tb; long long l_inf = 0, l_half = 0, l_ce = 0, l_eq = 0, l_bey = 0, l_ee = 0, l_out = 0, l_off = 0;
        for (uint64_t bi = lo; bi < hi; ++bi)
        {
            B mn[3], mx[3]; uint64_t x = bi; int nunb = 0, nface = 0, ncanon = 0; bool empty = false;
            for (int i = 0; i < 3; ++i)
            {
                auto& a = AX[x % NA]; x /= NA; mn[i] = a.first; mx[i] = a.second;
                if (mn[i] == -B::W () && mx[i] == B::W ()) ++nunb;
                if (mn[i].b || mx[i].b) ++nface;
                if (mn[i] == B::W () && mx[i] == -B::W ()) ++ncanon;
                if (mx[i] < mn[i]) empty = true;
            }
            for (int oi = 0; oi < 27; ++oi)
            {
                int oc[3]; ex::decode (oi, 3, 3, oc);
                B p[3] = {B (OC[oc[0]]), B (OC[oc[1]]), B (OC[oc[2]])};
                for (uint64_t di = 0; di < ND; ++di)
                {
                    int dc[3]; ex::decode (di, 2 * DR + 1, 3, dc, -DR);
                    if (!dc[0] && !dc[1] && !dc[2]) continue;
                    B d[3] = {B (dc[0]), B (dc[1]), B (dc[2])};
                    // predicates on the input
                    bool bey = false, eq = false;
                    for (int i = 0; i < 3 && !empty; ++i)
                    {
                        if (dc[i] == 0) continue;
                        const B ad = dc[i] < 0 ? -d[i] : d[i];
                        for (const B* f : {&mn[i], &mx[i]})
                        {
                            B n = *f - p[i]; if (n < B (0)) n = -n;
                            if (n > B::W () * ad) bey = true;                     // |t| > W
                            // the library's guard operands: fl(|face - origin|) == fl(W*|dir|)  (|dir| = 1 and a face at +-W)
                            if (f->b && (dc[i] == 1 || dc[i] == -1)) eq = true;
                        }
                    }
                    if (!empty)
                    {
                        const Truth<B> tr = slab<B> (mn, mx, p, d);
                        bool rl, rr; rounded_truth<T> (mn, mx, p, d, rl, rr);
                        if (rl != tr.line || rr != tr.ray) { ++l_out; continue; } // outside the checked domain (see above)
                        bool off = false; // judged although some difference +-W - o is inexact
                        for (int i = 0; i < 3; ++i) off = off || (dc[i] != 0 && (mn[i].b || mx[i].b) && OC[oc[i]] != 0);
                        if (off) ++l_off;
                    }
                    CaseOpt opt; opt.regime = 0;
                    opt.cls = ".box-face-at-max";
                    one_case<T, B> (mn, mx, p, d, bey ? tb : tl, opt);
                    if (bey) ++l_bey;
                    if (eq) ++l_eq;
                    if (!empty && nunb == 3) ++l_inf;
                    if (!empty && nface && nunb < 3) ++l_half;
                    if (ncanon == 3) ++l_ce;
                    if (empty && nface) ++l_ee;
                }
            }
        }
        n_inf += l_inf; n_half += l_half; n_canon_empty += l_ce; n_eq += l_eq; n_beyond += l_bey; n_extreme_empty += l_ee; n_out += l_out; n_origin_off += l_off;
        std::lock_guard<std::mutex> g (mu); total += tl; beyond += tb;
    });
    total += beyond;
    publish (total, "max-face.");
    vf::R ().cls ("max-face.box.makeInfinite()", n_inf.load ());
    vf::R ().cls ("max-face.box.half-space-or-slab(some face at +-max)", n_half.load ());
    vf::R ().cls ("max-face.box.makeEmpty()(canonical empty)", n_canon_empty.load ());
    vf::R ().cls ("max-face.box.empty-with-coordinates-at-max", n_extreme_empty.load ());
    vf::R ().cls ("max-face.guard-at-equality(|face-origin| == max*|dir|)", n_eq.load ());
    vf::R ().cls ("max-face.some-exact-t-is-max+1-or-max+2", n_beyond.load ());
    vf::R ().cls ("max-face.judged-with-inexact-difference(face-origin rounds to +-max)", n_origin_off.load ());
    vf::R ().add ("max-face_cases_outside_domain(truth rests on a sub-ulp difference of parameters)", n_out.load ());
    vf::R ().note_max (std::string ("worst max-face point error / (eps*M), ") + tname<T> (), total.worst);
    return ok;
}

// ---- signed lattice ---------------------------------------------------------------------------------------------
// Boxes: every (min,max) over {-2..1} per axis (flat and inverted included), origins {-3..2}^3, directions
// {-1,0,1}^3 minus 0 (thorough {-2..2}^3): every box coordinate takes both signs (the first lattice has all box
// coordinates >= 0, so |b.min|, |b.max| in place of b.min, b.max would be invisible there).
template <class T> bool run_signed (bool thorough)
{
    const int K = 4, BLO = -2, OLO = -3, ON = 6, DR = thorough ? 2 : 1;
    const uint64_t NB = ex::ipow ((uint64_t) K * K, 3), NO = ex::ipow (ON, 3), ND = ex::ipow (2 * DR + 1, 3);
    Tally total; std::mutex mu; std::atomic<long long> n_neg (0), n_straddle (0);
    bool ok = vf::parallel_chunks (NB, 4, [&] (uint64_t lo, uint64_t hi, unsigned) {
        Tally tl; long long l_neg = 0, l_str = 0;
        CaseOpt opt; opt.cls = ".signed-box";
        for (uint64_t bi = lo; bi < hi; ++bi)
        {
            long long mn[3], mx[3]; uint64_t x = bi; bool allneg = true, straddle = false;
            for (int i = 0; i < 3; ++i)
            {
                int dgt = (int) (x % (K * K)); x /= K * K; mn[i] = BLO + dgt % K; mx[i] = BLO + dgt / K;
                allneg = allneg && mn[i] < 0 && mx[i] < 0;
                straddle = straddle || (mn[i] < 0 && mx[i] > 0);
            }
            for (uint64_t oi = 0; oi < NO; ++oi)
            {
                int oc[3]; ex::decode (oi, ON, 3, oc, OLO);
                long long p[3] = {oc[0], oc[1], oc[2]};
                for (uint64_t di = 0; di < ND; ++di)
                {
                    int dc[3]; ex::decode (di, 2 * DR + 1, 3, dc, -DR);
                    if (!dc[0] && !dc[1] && !dc[2]) continue;
                    long long d[3] = {dc[0], dc[1], dc[2]};
                    one_case<T, long long> (mn, mx, p, d, tl, opt);
                    if (allneg) ++l_neg;
                    if (straddle) ++l_str;
                }
            }
        }
        n_neg += l_neg; n_straddle += l_str;
        std::lock_guard<std::mutex> g (mu); total += tl;
    });
    publish (total, "signed.");
    vf::R ().cls ("signed.box.all-coordinates-negative", n_neg.load ());
    vf::R ().cls ("signed.box.straddles-zero-on-some-axis", n_straddle.load ());
    return ok;
}

// ---- -0.0 -------------------------------------------------------------------------------------------------------
// Boxes: every (min,max) over {-1,0,1} per axis, origins {-1,0,1}^3, directions {-1,0,1}^3 minus 0, and for each
// case every subset of the three direction components (8) times every subset of {origin, box.min, box.max} (8) whose
// zero components are passed as -0.0 (subsets that change nothing because no selected component is zero are skipped,
// and counted once). -0.0 IS the number 0: same oracle, same checks (ip == origin stays bitwise: -0.0 in, -0.0 out).
template <class T> bool run_negzero (bool)
{
    static const long long C[3] = {-1, 0, 1};
    Tally total; std::mutex mu; std::atomic<long long> n_dir (0), n_coord (0);
    bool ok = vf::parallel_chunks (729, 1, [&] (uint64_t lo, uint64_t hi, unsigned) {
        Tally tl; long long l_dir = 0, l_coord = 0;
        for (uint64_t bi = lo; bi < hi; ++bi)
        {
            long long mn[3], mx[3]; uint64_t x = bi;
            for (int i = 0; i < 3; ++i) { int g = (int) (x % 9); x /= 9; mn[i] = C[g % 3]; mx[i] = C[g / 3]; }
            for (int oi = 0; oi < 27; ++oi)
            {
                int oc[3]; ex::decode (oi, 3, 3, oc, -1);
                long long p[3] = {oc[0], oc[1], oc[2]};
                for (int di = 0; di < 27; ++di)
                {
                    int dc[3]; ex::decode (di, 3, 3, dc, -1);
                    if (!dc[0] && !dc[1] && !dc[2]) continue;
                    long long d[3] = {dc[0], dc[1], dc[2]};
                    unsigned zero = 0; // which of the 12 components are zero
                    for (int i = 0; i < 3; ++i) zero |= (unsigned) (d[i] == 0) << i | (unsigned) (p[i] == 0) << (3 + i) | (unsigned) (mn[i] == 0) << (6 + i) | (unsigned) (mx[i] == 0) << (9 + i);
                    unsigned seen[64]; int ns = 0;
                    for (unsigned dm = 0; dm < 8; ++dm) for (unsigned gm = 0; gm < 8; ++gm)
                    {
                        unsigned m = dm | ((gm & 1) ? 0x038u : 0) | ((gm & 2) ? 0x1c0u : 0) | ((gm & 4) ? 0xe00u : 0);
                        m &= zero;
                        if (!m) continue; // nothing negated: the plain case is in the other stages
                        bool dup = false; for (int k = 0; k < ns; ++k) dup = dup || seen[k] == m;
                        if (dup) continue;
                        seen[ns++] = m;
                        CaseOpt opt; opt.cls = ".negative-zero"; opt.negzero = m;
                        one_case<T, long long> (mn, mx, p, d, tl, opt);
                        if (m & 7) ++l_dir;
                        if (m & ~7u) ++l_coord;
                    }
                }
            }
        }
        n_dir += l_dir; n_coord += l_coord;
        std::lock_guard<std::mutex> g (mu); total += tl;
    });
    publish (total, "negzero.");
    vf::R ().cls ("negzero.direction-component-is--0.0", n_dir.load ());
    vf::R ().cls ("negzero.box-or-origin-coordinate-is--0.0", n_coord.load ());
    return ok;
}

} // namespace c14
