// C14 double instantiations of the post-audit stages
#include "c14_max.hpp"
namespace c14 { template bool run_maxface<double> (bool); template bool run_signed<double> (bool); template bool run_negzero<double> (bool); }
