#include "c04.hpp"
namespace c04 {
void register_vec3f (Jobs& jobs) { reg_vec<Vec3<half>> (jobs); reg_vec<Vec3<float>> (jobs); reg_vec<Vec3<double>> (jobs); }
}
