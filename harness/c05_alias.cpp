// C05 — aliased operands of the product spellings (added after an independently seeded change was missed):
// the compound-assignment spelling of every product must equal the operator spelling also when the right-hand side
// IS the left-hand side (q *= q, m *= m) and the member forms with an output argument must tolerate dst aliasing
// src (multVecMatrix(v, v), multDirMatrix(v, v)) — an implementation that overwrites part of *this while it still
// reads the argument fails exactly there. Integer-valued operands (distinct primes, both signs), so every product is
// exact and the comparison is bitwise.
#include "../engine/exact.hpp"
#include "../engine/report.hpp"
#include <ImathMatrix.h>
#include <ImathQuat.h>
#include <ImathVec.h>

using namespace IMATH_NAMESPACE;
using vf::R;

namespace {
struct Tally { long long n = 0, tr = 0, static_alias = 0; };

template <class A, class T, int N> void fillp (A& a, int g)
{
    T* p = reinterpret_cast<T*> (&a);
    for (int i = 0; i < N; ++i)
    {
        int v = ex::PRIMES[(i + g) % 20];
        if ((g >> (i % 4)) & 1) v = -v;
        p[i] = (T) v;
    }
}
template <class A, class T, int N> bool eq (const A& a, const A& b)
{
    const T *p = reinterpret_cast<const T*> (&a), *q = reinterpret_cast<const T*> (&b);
    for (int i = 0; i < N; ++i) if (!ex::same (p[i], q[i])) return false;
    return true;
}
template <class A, class T, int N> std::string show (const A& a)
{
    const T* p = reinterpret_cast<const T*> (&a);
    vf::Msg m;
    for (int i = 0; i < N; ++i) { if (i) m << " "; m << (double) p[i]; }
    return m.str ();
}

template <class A, class T, int N> void square (const std::string& site, const char* tn, Tally& t)
{
    for (int g = 0; g < 16; ++g)
    {
        A a, c;
        fillp<A, T, N> (a, g);
        c = a;
        A want = a * c; // operator spelling on an independent copy
        const A& r = (a *= a); // aliased compound assignment
        ++t.n; t.tr += 2;
        if (!eq<A, T, N> (a, want) || &r != &a)
            R ().fail (site + "::operator*=.rhs-aliases-self", std::string ("T=") + tn + " a=[" + show<A, T, N> (c) + "]", show<A, T, N> (want), show<A, T, N> (a));
        // and with an independent copy the compound form equals the operator form (same alphabet)
        A b = c;
        b *= c;
        if (!eq<A, T, N> (b, want)) R ().fail (site + "::operator*=.vs-operator*", std::string ("T=") + tn + " a=[" + show<A, T, N> (c) + "]", show<A, T, N> (want), show<A, T, N> (b));
    }
}

template <class T> void run (const char* tn, Tally& t)
{
    square<Quat<T>, T, 4> ("Quat", tn, t);
    // q /= q  ==  q / copy(q)  (quaternion quotient; small integers: the quotient is computed the same way either way)
    for (int g = 0; g < 16; ++g)
    {
        Quat<T> a, c;
        fillp<Quat<T>, T, 4> (a, g);
        c = a;
        Quat<T> want = a / c;
        a /= a;
        ++t.n; t.tr += 2;
        if (!eq<Quat<T>, T, 4> (a, want)) R ().fail ("Quat::operator/=.rhs-aliases-self", std::string ("T=") + tn + " q=[" + show<Quat<T>, T, 4> (c) + "]", show<Quat<T>, T, 4> (want), show<Quat<T>, T, 4> (a));
    }
    square<Matrix22<T>, T, 4> ("Matrix22", tn, t);
    square<Matrix33<T>, T, 9> ("Matrix33", tn, t);
    square<Matrix44<T>, T, 16> ("Matrix44", tn, t);
    // the static three-argument form with the destination aliasing a source, and x = x * x: the result must be what the
    // same product gives with an independent destination (an implementation that writes cells of c while it still reads a
    // or b fails exactly here)
    for (int g = 0; g < 16; ++g)
    {
        typedef Matrix44<T> M;
        M a, b;
        fillp<M, T, 16> (a, g);
        fillp<M, T, 16> (b, g + 5);
        const M ab = a * b, aa = a * a;
        { M x = a, y = b; M::multiply (x, y, x); if (!eq<M, T, 16> (x, ab)) R ().fail ("Matrix44::multiply(a,b,c).c-aliases-a", std::string ("T=") + tn + " a=[" + show<M, T, 16> (a) + "] b=[" + show<M, T, 16> (b) + "]", show<M, T, 16> (ab), show<M, T, 16> (x)); }
        { M x = a, y = b; M::multiply (x, y, y); if (!eq<M, T, 16> (y, ab)) R ().fail ("Matrix44::multiply(a,b,c).c-aliases-b", std::string ("T=") + tn + " a=[" + show<M, T, 16> (a) + "] b=[" + show<M, T, 16> (b) + "]", show<M, T, 16> (ab), show<M, T, 16> (y)); }
        { M x = a; M::multiply (x, x, x); if (!eq<M, T, 16> (x, aa)) R ().fail ("Matrix44::multiply(a,b,c).a-b-c-all-alias", std::string ("T=") + tn + " a=[" + show<M, T, 16> (a) + "]", show<M, T, 16> (aa), show<M, T, 16> (x)); }
        { M x = a; x = M::multiply (x, x); if (!eq<M, T, 16> (x, aa)) R ().fail ("Matrix44::multiply(a,b).assigned-to-operand", std::string ("T=") + tn + " a=[" + show<M, T, 16> (a) + "]", show<M, T, 16> (aa), show<M, T, 16> (x)); }
        { M x = a; x = x * x; if (!eq<M, T, 16> (x, aa)) R ().fail ("Matrix44::operator*.assigned-to-operand", std::string ("T=") + tn + " a=[" + show<M, T, 16> (a) + "]", show<M, T, 16> (aa), show<M, T, 16> (x)); }
        { Matrix33<T> x; fillp<Matrix33<T>, T, 9> (x, g); const Matrix33<T> c = x, w = c * c; x = x * x; if (!eq<Matrix33<T>, T, 9> (x, w)) R ().fail ("Matrix33::operator*.assigned-to-operand", std::string ("T=") + tn + " a=[" + show<Matrix33<T>, T, 9> (c) + "]", show<Matrix33<T>, T, 9> (w), show<Matrix33<T>, T, 9> (x)); }
        { Matrix22<T> x; fillp<Matrix22<T>, T, 4> (x, g); const Matrix22<T> c = x, w = c * c; x = x * x; if (!eq<Matrix22<T>, T, 4> (x, w)) R ().fail ("Matrix22::operator*.assigned-to-operand", std::string ("T=") + tn + " a=[" + show<Matrix22<T>, T, 4> (c) + "]", show<Matrix22<T>, T, 4> (w), show<Matrix22<T>, T, 4> (x)); }
        { Quat<T> x; fillp<Quat<T>, T, 4> (x, g); const Quat<T> c = x, w = c * c; x = x * x; if (!eq<Quat<T>, T, 4> (x, w)) R ().fail ("Quat::operator*.assigned-to-operand", std::string ("T=") + tn + " q=[" + show<Quat<T>, T, 4> (c) + "]", show<Quat<T>, T, 4> (w), show<Quat<T>, T, 4> (x)); }
        t.n += 8; t.tr += 8; ++t.static_alias;
    }
    // dst aliasing src in the member forms; affine last column so the homogeneous divide is by exactly 1
    for (int g = 0; g < 16; ++g)
    {
        Matrix44<T> m; fillp<Matrix44<T>, T, 16> (m, g);
        m[0][3] = m[1][3] = m[2][3] = 0; m[3][3] = 1;
        Matrix33<T> n; fillp<Matrix33<T>, T, 9> (n, g);
        n[0][2] = n[1][2] = 0; n[2][2] = 1;
        Vec3<T> v ((T) 3, (T) -5, (T) 7), w, d;
        Vec2<T> v2 ((T) 3, (T) -5), w2, d2;
        m.multVecMatrix (v, w);  { Vec3<T> x = v; m.multVecMatrix (x, x); if (!eq<Vec3<T>, T, 3> (x, w)) R ().fail ("Matrix44::multVecMatrix.dst-aliases-src", std::string ("T=") + tn + " m=[" + show<Matrix44<T>, T, 16> (m) + "]", show<Vec3<T>, T, 3> (w), show<Vec3<T>, T, 3> (x)); }
        m.multDirMatrix (v, d);  { Vec3<T> x = v; m.multDirMatrix (x, x); if (!eq<Vec3<T>, T, 3> (x, d)) R ().fail ("Matrix44::multDirMatrix.dst-aliases-src", std::string ("T=") + tn + " m=[" + show<Matrix44<T>, T, 16> (m) + "]", show<Vec3<T>, T, 3> (d), show<Vec3<T>, T, 3> (x)); }
        n.multVecMatrix (v2, w2); { Vec2<T> x = v2; n.multVecMatrix (x, x); if (!eq<Vec2<T>, T, 2> (x, w2)) R ().fail ("Matrix33::multVecMatrix.dst-aliases-src", std::string ("T=") + tn + " m=[" + show<Matrix33<T>, T, 9> (n) + "]", show<Vec2<T>, T, 2> (w2), show<Vec2<T>, T, 2> (x)); }
        n.multDirMatrix (v2, d2); { Vec2<T> x = v2; n.multDirMatrix (x, x); if (!eq<Vec2<T>, T, 2> (x, d2)) R ().fail ("Matrix33::multDirMatrix.dst-aliases-src", std::string ("T=") + tn + " m=[" + show<Matrix33<T>, T, 9> (n) + "]", show<Vec2<T>, T, 2> (d2), show<Vec2<T>, T, 2> (x)); }
        // cross product with itself through the compound spelling: v %= v  ==  v % copy(v)  (== 0)
        { Vec3<T> x = v, c = v; x %= x; if (!eq<Vec3<T>, T, 3> (x, v % c)) R ().fail ("Vec3::operator%=.rhs-aliases-self", std::string ("T=") + tn, show<Vec3<T>, T, 3> (v % c), show<Vec3<T>, T, 3> (x)); }
        // v *= m equals v * m (free operators)
        { Vec3<T> x = v; x *= m; if (!eq<Vec3<T>, T, 3> (x, v * m)) R ().fail ("Vec3*=Matrix44.vs-operator*", std::string ("T=") + tn, show<Vec3<T>, T, 3> (v * m), show<Vec3<T>, T, 3> (x)); }
        { Vec2<T> x = v2; x *= n; if (!eq<Vec2<T>, T, 2> (x, v2 * n)) R ().fail ("Vec2*=Matrix33.vs-operator*", std::string ("T=") + tn, show<Vec2<T>, T, 2> (v2 * n), show<Vec2<T>, T, 2> (x)); }
        t.n += 6; t.tr += 12;
    }
}
} // namespace

void c05_alias_stage ()
{
    if (!R ().stage ("aliased-operands")) return;
    Tally t;
    run<float> ("float", t);
    run<double> ("double", t);
    R ().add ("states", t.n); R ().add ("evaluations", t.n); R ().add ("transitions", t.tr);
    R ().cls ("alias.compound-product-with-itself-or-dst=src", t.n);
    R ().cls ("alias.static-multiply-destination-is-a-source", t.static_alias);
    R ().stage_done ("q *= q, m *= m (Matrix22/33/44), multVecMatrix/multDirMatrix with dst = src, v *= m vs v * m; Matrix44::multiply(a,b,c) with c = a, c = b, a = b = c; x = x * x; 16 signed prime operands each; float and double; exact");
}
