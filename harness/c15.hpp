// C15 — shared helpers for the line / plane / sphere / triangle harness (c15.cpp, c15_b.cpp, c15_c.cpp).
//
// All inputs are small-integer (lattice) or dyadic data, so the *ideal* geometric answer is a
// rational number; it is evaluated with integer numerators/denominators and rounded once to long
// double (64-bit significand: exact to 2^-64 relative).  Where the input is not rational (nearly
// parallel directions built in floating point) the oracle works in long double on the stored
// operands.  Tolerances are stated next to each check, from the error analysis of a *correct*
// floating-point implementation of the documented formula, and are never data-fitted.
#pragma once
#include "../engine/exact.hpp"
#include "../engine/report.hpp"
#include <ImathBox.h>
#include <ImathLine.h>
#include <ImathLineAlgo.h>
#include <ImathMatrix.h>
#include <ImathPlane.h>
#include <ImathSphere.h>
#include <ImathVec.h>
#include <ImathVecAlgo.h>
#include <algorithm>

namespace c15 {
using namespace IMATH_NAMESPACE;
typedef long double LD;
typedef long long   ll;

struct I3
{
    ll x, y, z;
    I3 operator+ (const I3& o) const { return {x + o.x, y + o.y, z + o.z}; }
    I3 operator- (const I3& o) const { return {x - o.x, y - o.y, z - o.z}; }
    I3 operator* (ll s) const { return {x * s, y * s, z * s}; }
    bool operator== (const I3& o) const { return x == o.x && y == o.y && z == o.z; }
    bool operator< (const I3& o) const { return x != o.x ? x < o.x : (y != o.y ? y < o.y : z < o.z); }
};
inline ll dot (const I3& a, const I3& b) { return a.x * b.x + a.y * b.y + a.z * b.z; }
inline I3 cross (const I3& a, const I3& b) { return {a.y * b.z - a.z * b.y, a.z * b.x - a.x * b.z, a.x * b.y - a.y * b.x}; }
inline ll l1 (const I3& a) { return std::llabs (a.x) + std::llabs (a.y) + std::llabs (a.z); }

struct L3
{
    LD x, y, z;
    L3 operator+ (const L3& o) const { return {x + o.x, y + o.y, z + o.z}; }
    L3 operator- (const L3& o) const { return {x - o.x, y - o.y, z - o.z}; }
    L3 operator* (LD s) const { return {x * s, y * s, z * s}; }
};
inline LD dot (const L3& a, const L3& b) { return a.x * b.x + a.y * b.y + a.z * b.z; }
inline L3 cross (const L3& a, const L3& b) { return {a.y * b.z - a.z * b.y, a.z * b.x - a.x * b.z, a.x * b.y - a.y * b.x}; }
inline LD len (const L3& a) { return sqrtl (dot (a, a)); }
inline LD l1 (const L3& a) { return fabsl (a.x) + fabsl (a.y) + fabsl (a.z); }
inline LD linf (const L3& a) { return std::max (fabsl (a.x), std::max (fabsl (a.y), fabsl (a.z))); }
inline L3 toL (const I3& a) { return {(LD) a.x, (LD) a.y, (LD) a.z}; }
template <class T> inline L3 toL (const Vec3<T>& a) { return {(LD) a.x, (LD) a.y, (LD) a.z}; }
template <class T> inline Vec3<T> toV (const I3& a) { return Vec3<T> ((T) a.x, (T) a.y, (T) a.z); }
template <class T> inline bool finite3 (const Vec3<T>& a) { return std::isfinite (a.x) && std::isfinite (a.y) && std::isfinite (a.z); }

template <class T> inline const char* tname ();
template <> inline const char* tname<float> () { return "float"; }
template <> inline const char* tname<double> () { return "double"; }

inline std::string s (const I3& a) { return "(" + std::to_string (a.x) + "," + std::to_string (a.y) + "," + std::to_string (a.z) + ")"; }
template <class T> inline std::string s (const Vec3<T>& a) { return "(" + vf::fmt (a.x) + "," + vf::fmt (a.y) + "," + vf::fmt (a.z) + ")"; }
inline std::string s (const L3& a) { char b[160]; snprintf (b, sizeof b, "(%.21Lg,%.21Lg,%.21Lg)", a.x, a.y, a.z); return b; }
inline std::string s (LD a) { char b[64]; snprintf (b, sizeof b, "%.21Lg", a); return b; }

// lattice L(k)^3
inline std::vector<I3> lattice (int k)
{
    std::vector<I3> o;
    for (ll x = -k; x <= k; ++x)
        for (ll y = -k; y <= k; ++y)
            for (ll z = -k; z <= k; ++z) o.push_back ({x, y, z});
    return o;
}

// Direction alphabet: all sign / permutation images of the lattice vectors whose length is an integer
// (normalisation exact or one rounding: (1,0,0), (3,4,0)/5, (1,2,2)/3, (2,3,6)/7) and of generic ones.
inline std::vector<I3> directions ()
{
    const ll base[][3] = {{1, 0, 0}, {3, 4, 0}, {1, 2, 2}, {2, 3, 6}, {1, 1, 0}, {1, 1, 1}, {1, 2, 3}};
    const int p[6][3]  = {{0, 1, 2}, {0, 2, 1}, {1, 0, 2}, {1, 2, 0}, {2, 0, 1}, {2, 1, 0}};
    std::set<I3> st;
    for (auto& b : base)
        for (auto& pi : p)
            for (int sg = 0; sg < 8; ++sg)
                st.insert ({b[pi[0]] * ((sg & 1) ? -1 : 1), b[pi[1]] * ((sg & 2) ? -1 : 1), b[pi[2]] * ((sg & 4) ? -1 : 1)});
    return std::vector<I3> (st.begin (), st.end ());
}
// a small sub-alphabet with one representative of every family, several octants
inline std::vector<I3> directions_small ()
{
    return {{1, 0, 0}, {0, -1, 0}, {0, 0, 1}, {3, 4, 0}, {0, -4, 3}, {1, 2, 2}, {-2, 1, 2}, {2, 3, 6}, {6, -2, 3}, {1, 1, 0}, {1, -1, 1}, {1, 2, 3}, {-3, 1, 2}};
}

// per-component closeness of a library vector to the oracle
template <class T> inline LD maxdiff (const Vec3<T>& g, const L3& w) { return linf (toL (g) - w); }

void run_lines ();
void run_vecalgo ();
void run_planes ();
void run_sphere ();
void run_triangle ();
void run_scale ();      // c15_d.cpp
void run_graded ();     // c15_e.cpp
void run_affine ();     // c15_e.cpp
void run_cvertex ();    // c15_e.cpp
void run_farsphere ();  // c15_e.cpp
void run_dirty ();      // c15_dirty.cpp
} // namespace c15
