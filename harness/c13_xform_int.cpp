// C13 — transform / affineTransform with an INTEGER box: Box3i / Box3s x Matrix44<float/double>, the four overloads.
// (the library instantiates transform<S,T> for any S; (S)m[j][i] is exact on the integer-valued matrices used here)
#include "c13_xform.hpp"

namespace c13 {

bool run_transforms_int (bool thorough)
{
    bool ok = true;
    ok &= xf::all_stages_int<int, float> (thorough);
    ok &= xf::all_stages_int<short, double> (thorough);
    if (thorough)
    {
        ok &= xf::all_stages_int<int, double> (thorough);
        ok &= xf::all_stages_int<short, float> (thorough);
    }
    return ok;
}

} // namespace c13
