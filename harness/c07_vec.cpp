// C07, vector part:
//   * normalize / normalizeExc / normalizeNonNull and normalized / normalizedExc / normalizedNonNull for
//     Vec2/3/4 <float|double>, over the C08 exponent-sweep alphabet (c08_alpha.hpp) and the 12^N boundary product;
//   * Vec3<T>(Vec4<S>, InfException) against Vec3<T>(Vec4<S>) for (S,T) in {float,double}^2, over the guard
//     alphabet w = a, (x,y,z) in B(a)^3 (both sides of |v| >= max*|w| to the ulp, every slot).
// There is no Vec2(Vec3<S>) / Vec2(Vec3<S>,InfException) pair in ImathVec.h (checked: the only InfException
// constructor is Vec3(Vec4<S>,InfException)).
#include "c07_common.hpp"
#include "c08_alpha.hpp"
#include <ImathVec.h>

using namespace vf;
using namespace IMATH_NAMESPACE;

namespace c07 {
namespace {

template <class T, int N> struct VecOf;
template <class T> struct VecOf<T, 2> { typedef Vec2<T> type; static Vec2<T> make (const T* c) { return Vec2<T> (c[0], c[1]); } };
template <class T> struct VecOf<T, 3> { typedef Vec3<T> type; static Vec3<T> make (const T* c) { return Vec3<T> (c[0], c[1], c[2]); } };
template <class T> struct VecOf<T, 4> { typedef Vec4<T> type; static Vec4<T> make (const T* c) { return Vec4<T> (c[0], c[1], c[2], c[3]); } };

template <class T, int N> std::string show (const T* c)
{
    Msg m;
    m << "Vec" << N << "<" << tname<T> () << ">(";
    for (int i = 0; i < N; ++i) { if (i) m << ", "; m << c[i]; }
    m << ")";
    return m.str ();
}
template <class V, int N> std::string showv (const V& v)
{
    Msg m;
    m << "(";
    for (int i = 0; i < N; ++i) { if (i) m << ", "; m << v[i]; }
    m << ")";
    return m.str ();
}

struct NTally
{
    long long states = 0, transitions = 0, zero = 0, scaled = 0, generic = 0, negzero_only = 0;
};

template <class T, int N> struct NormChecker
{
    typedef typename VecOf<T, N>::type V;
    std::string                        pfx = std::string ("Vec") + char ('0' + N) + "<" + tname<T> () + ">";
    const long double                  dom_max = sqrtl ((long double) tmax<T> ()) / 2;

    static bool eq (const V& a, const V& b)
    {
        for (int i = 0; i < N; ++i)
            if (!same_bits (a[i], b[i])) return false;
        return true;
    }
    static bool all_zero (const V& a)
    {
        for (int i = 0; i < N; ++i)
            if (!(a[i] == T (0))) return false;
        return true;
    }

    void check (const T* c, NTally& t) const
    {
        const V v = VecOf<T, N>::make (c);
        ++t.states;
        bool        zero = true, anyneg = false;
        long double s = 0;
        for (int i = 0; i < N; ++i)
        {
            if (c[i] != 0) zero = false;
            if (std::signbit (c[i])) anyneg = true;
            s += (long double) c[i] * (long double) c[i];
        }
        if (zero) { ++t.zero; if (anyneg) ++t.negzero_only; }
        else if (s < 2 * (long double) tmin<T> ()) ++t.scaled;
        else ++t.generic;

        // unchecked forms
        const V u = v.normalized ();
        V       ui = v; ui.normalize ();
        // The unchecked forms report failure by producing the zero vector *because the input is the zero vector*.
        // Inside the domain of the length() contract (|c| <= sqrt(max)/2, C08) that is the only way to get one; outside
        // it the squares overflow, length() is inf and every form returns zeros without any failure being reported, so
        // there only the differential relations are asserted.
        const bool reports_failure = zero;
        bool       in_domain = true;
        for (int i = 0; i < N; ++i)
            if (fabsl ((long double) c[i]) > dom_max) in_domain = false;
        if (!zero && !eq (u, ui)) C0X_FAIL (pfx + "::normalize.vs-normalized", (show<T, N> (c)), (showv<V, N>) (u), (showv<V, N>) (ui));
        if (in_domain && all_zero (u) != zero)
            C0X_FAIL (pfx + "::normalized.zero-result-iff-zero-input", (show<T, N> (c)), zero ? "zero vector" : "non-zero vector", (showv<V, N>) (u));
        if (in_domain && all_zero (ui) != zero)
            C0X_FAIL (pfx + "::normalize.zero-result-iff-zero-input", (show<T, N> (c)), zero ? "zero vector" : "non-zero vector", (showv<V, N>) (ui));

        // checked, value form
        V   e1;
        int th = run_checked ([&] { e1 = v.normalizedExc (); });
        ++t.transitions;
        if (th == NONE)
        {
            if (reports_failure) C0X_FAIL (pfx + "::normalizedExc.no-throw-when-normalized-reports-zero", (show<T, N> (c)), "std::domain_error", (showv<V, N>) (e1));
            else if (!eq (e1, u)) C0X_FAIL (pfx + "::normalizedExc.bitwise-vs-normalized", (show<T, N> (c)), (showv<V, N>) (u), (showv<V, N>) (e1));
        }
        else
        {
            if (th != DOMAIN_ERROR) C0X_FAIL (pfx + "::normalizedExc.exception-type", (show<T, N> (c)), "std::domain_error", thrown_name (th));
            if (!reports_failure) C0X_FAIL (pfx + "::normalizedExc.throws-on-non-zero-vector", (show<T, N> (c)), (showv<V, N>) (u), thrown_name (th));
        }
        // checked, in-place form
        V e2 = v;
        th   = run_checked ([&] { e2.normalizeExc (); });
        ++t.transitions;
        if (th == NONE)
        {
            if (reports_failure) C0X_FAIL (pfx + "::normalizeExc.no-throw-when-normalize-reports-zero", (show<T, N> (c)), "std::domain_error", (showv<V, N>) (e2));
            else if (!eq (e2, ui)) C0X_FAIL (pfx + "::normalizeExc.bitwise-vs-normalize", (show<T, N> (c)), (showv<V, N>) (ui), (showv<V, N>) (e2));
        }
        else
        {
            if (th != DOMAIN_ERROR) C0X_FAIL (pfx + "::normalizeExc.exception-type", (show<T, N> (c)), "std::domain_error", thrown_name (th));
            if (!reports_failure) C0X_FAIL (pfx + "::normalizeExc.throws-on-non-zero-vector", (show<T, N> (c)), (showv<V, N>) (ui), thrown_name (th));
        }
        // NonNull forms: precondition non-null
        if (!zero)
        {
            V n1 = v.normalizedNonNull ();
            V n2 = v; n2.normalizeNonNull ();
            t.transitions += 2;
            if (!eq (n1, u)) C0X_FAIL (pfx + "::normalizedNonNull.bitwise-vs-normalized", (show<T, N> (c)), (showv<V, N>) (u), (showv<V, N>) (n1));
            if (!eq (n2, ui)) C0X_FAIL (pfx + "::normalizeNonNull.bitwise-vs-normalize", (show<T, N> (c)), (showv<V, N>) (ui), (showv<V, N>) (n2));
        }
    }
};

static void nfold (NTally& a, const NTally& b)
{
    a.states += b.states; a.transitions += b.transitions; a.zero += b.zero; a.scaled += b.scaled; a.generic += b.generic; a.negzero_only += b.negzero_only;
}

template <class T, int N> bool norm_sweep (const std::vector<int>& mants, const std::vector<unsigned>& signs, uint64_t& size)
{
    NormChecker<T, N> ck;
    c08::Space        sp = c08::sweep_space<T> (N, mants, signs);
    size = sp.size ();
    std::mutex mu;
    NTally     total;
    bool ok = parallel_chunks (sp.size (), 1u << 15, [&] (uint64_t lo, uint64_t hi, unsigned) {
        NTally t;
        T      c[N];
        for (uint64_t i = lo; i < hi; ++i)
            if (sp.decode<T> (i, c)) ck.check (c, t);
        std::lock_guard<std::mutex> g (mu);
        nfold (total, t);
    });
    // boundary product (zero vectors with every sign pattern, domain corners, max)
    {
        const T pos[7] = {T (0), tden<T> (), tmin<T> (), T (1), up (T (1)), std::ldexp (T (1), std::numeric_limits<T>::max_exponent / 2 - 2), tmax<T> ()};
        T       al[14];
        for (int i = 0; i < 7; ++i) { al[2 * i] = pos[i]; al[2 * i + 1] = -pos[i]; }
        uint64_t n = ex::ipow (14, N);
        for (uint64_t i = 0; i < n; ++i)
        {
            int d[N];
            ex::decode (i, 14, N, d);
            T c[N];
            for (int j = 0; j < N; ++j) c[j] = al[d[j]];
            ck.check (c, total);
        }
        size += n;
    }
    R ().add ("states", total.states);
    R ().add ("evaluations", total.states);
    R ().add ("transitions", total.transitions);
    R ().cls ("normalize.zero-vector(checked form must throw)", total.zero);
    R ().cls ("normalize.negative-zero-vector", total.negzero_only);
    R ().cls ("normalize.scaled-length-path", total.scaled);
    R ().cls ("normalize.generic", total.generic);
    return ok;
}

// =================================================================================================
// Vec3<T>(Vec4<S>, InfException)  vs  Vec3<T>(Vec4<S>)
// =================================================================================================
struct V4Tally
{
    long long states = 0, w_zero = 0, w_sub = 0, below = 0, at = 0, above = 0, w_ge1 = 0, generic = 0, threw = 0;
};

// S-typed alphabets that contain the guard thresholds of both S and T (where representable in S)
template <class S, class U> void add_if_exact (std::vector<S>& out, U v)
{
    S s = (S) v;
    if (std::isfinite (s) && (U) s == v) out.push_back (s);
}
template <class S, class T> std::vector<S> a_values ()
{
    std::vector<S> r;
    for (S a : alpha_a<S> ()) r.push_back (a);
    for (T a : alpha_a<T> ()) add_if_exact<S, T> (r, a);
    r.push_back (S (7));
    std::sort (r.begin (), r.end ());
    r.erase (std::unique (r.begin (), r.end ()), r.end ());
    return r;
}
template <class S, class T> std::vector<S> b_values (S a)
{
    std::vector<S> r;
    for (S b : alpha_b<S> (a)) r.push_back (b);
    T at = (T) a;
    if ((S) at == a)
        for (T b : alpha_b<T> (at)) add_if_exact<S, T> (r, b);
    r.push_back (S (0.1)); // a value that is not exactly representable in the narrower type
    std::sort (r.begin (), r.end ());
    r.erase (std::unique (r.begin (), r.end ()), r.end ());
    return r;
}

template <class S, class T> void vec3_from_vec4 (bool thorough)
{
    const bool        mixed = !std::is_same<S, T>::value;
    const std::string base  = std::string ("Vec3<") + tname<T> () + ">(Vec4<" + tname<S> () + ">,InfException)";
    const std::string pfx   = mixed ? base + ".S!=T" : base;
    // the quotient is formed in S by the unchecked form and delivered in T: "overflow" means leaving the range of either
    const long double M     = std::min ((long double) tmax<T> (), (long double) tmax<S> ());
    std::vector<S>    A     = signed_all (a_values<S, T> ());
    std::mutex        mu;
    V4Tally           total;
    parallel_chunks (A.size (), 1, [&] (uint64_t lo, uint64_t hi, unsigned) {
        V4Tally t;
        for (uint64_t ai = lo; ai < hi; ++ai)
        {
            const S        w  = A[ai];
            std::vector<S> B  = signed_all (b_values<S, T> (std::fabs (w)));
            const size_t   nb = B.size ();
            // S == T: the full cube B^3 (every slot combination on both sides of the threshold).
            // S != T: one slot ranges over B, the other two over a small generic set (bounded deviation) -
            //         the mixed-type alphabet B is twice as large and every inexact quotient is a (known) failure.
            const S      G3[4] = {S (0), S (1), S (-3), S (0.1)};
            // thorough (audit2 C07 S5): the full cube for S != T as well (the oracle is differential, so the cube needs no
            // exactness restriction; only the cost kept it out of the quick tier)
            const bool   cube = !mixed || thorough;
            const size_t total_cases = cube ? nb * nb * nb : 3 * nb * 16;
            for (size_t idx = 0; idx < total_cases; ++idx)
                    {
                        S xyz[3];
                        if (cube) { xyz[0] = B[idx % nb]; xyz[1] = B[(idx / nb) % nb]; xyz[2] = B[idx / nb / nb]; }
                        else
                        {
                            size_t slot = idx % 3, r = idx / 3;
                            S      b = B[r % nb]; r /= nb;
                            S      g0 = G3[r % 4], g1 = G3[r / 4];
                            xyz[slot] = b; xyz[(slot + 1) % 3] = g0; xyz[(slot + 2) % 3] = g1;
                        }
                        const Vec4<S> v (xyz[0], xyz[1], xyz[2], w);
                        ++t.states;
                        // classes, by predicates on the input (definition: quotient v_i / w against max of T)
                        long double qmax = 0, aw = fabsl ((long double) w);
                        bool        nan0 = false;
                        for (int c = 0; c < 3; ++c)
                        {
                            long double n = fabsl ((long double) v[c]);
                            long double q = (aw == 0) ? (n == 0 ? 0 : INFINITY) : n / aw;
                            if (aw == 0 && n == 0) nan0 = true;
                            if (q > qmax) qmax = q;
                        }
                        if (aw == 0) ++t.w_zero;
                        else if (aw >= 1) ++t.w_ge1;
                        else
                        {
                            if (aw < (long double) tmin<T> ()) ++t.w_sub;
                            if (qmax == M) ++t.at;
                            else if (qmax > M) ++t.above;
                            else if (qmax >= M / 4) ++t.below;
                            else ++t.generic;
                        }
                        auto in = [&] () -> std::string { return Msg () << "Vec4<" << tname<S> () << ">(" << v.x << ", " << v.y << ", " << v.z << ", " << v.w << ")"; };
                        // unchecked
                        const Vec3<T> u (v);
                        Vec3<T>       c3;
                        int           th = run_checked ([&] { c3 = Vec3<T> (v, INF_EXCEPTION); });
                        const bool    u_nonfinite = !(std::isfinite (u.x) && std::isfinite (u.y) && std::isfinite (u.z));
                        if (th == NONE)
                        {
                            bool eq = same_bits (c3.x, u.x) && same_bits (c3.y, u.y) && same_bits (c3.z, u.z);
                            if (!eq)
                                C0X_FAIL (pfx + ".bitwise", in (), Msg () << "(" << u.x << ", " << u.y << ", " << u.z << ")",
                                           Msg () << "(" << c3.x << ", " << c3.y << ", " << c3.z << ")");
                            else if (u_nonfinite)
                                // documented: "Throws an exception if w is zero or if division by w would overflow"
                                C0X_FAIL (pfx + ".nonfinite-quotient-not-guarded", in (), "std::domain_error", Msg () << "(" << c3.x << ", " << c3.y << ", " << c3.z << ")");
                        }
                        else
                        {
                            ++t.threw;
                            if (th != DOMAIN_ERROR) C0X_FAIL (pfx + ".exception-type", in (), "std::domain_error", thrown_name (th));
                            // the guard may fire only if w == 0 or some exact quotient reaches max/4 (max of the narrower of S and T)
                            if (!(aw == 0 || qmax >= M / 4))
                                C0X_FAIL (pfx + ".guard-fires-below-max/4", in (), Msg () << "no exception: largest exact |v_i/w| = " << qmax,
                                           thrown_name (th));
                            (void) nan0;
                        }
                    }
        }
        std::lock_guard<std::mutex> g (mu);
        total.states += t.states; total.w_zero += t.w_zero; total.w_sub += t.w_sub; total.below += t.below; total.at += t.at; total.above += t.above;
        total.w_ge1 += t.w_ge1; total.generic += t.generic; total.threw += t.threw;
    });
    R ().add ("states", total.states);
    R ().add ("evaluations", total.states);
    R ().add ("transitions", total.states);
    R ().cls ("Vec3(Vec4).w=0", total.w_zero);
    R ().cls ("Vec3(Vec4).w-subnormal", total.w_sub);
    R ().cls ("Vec3(Vec4).|w|<1.quotient-in-[max/4,max)", total.below);
    R ().cls ("Vec3(Vec4).|w|<1.quotient==max", total.at);
    R ().cls ("Vec3(Vec4).|w|<1.quotient>max", total.above);
    R ().cls ("Vec3(Vec4).|w|>=1", total.w_ge1);
    R ().cls ("Vec3(Vec4).generic", total.generic);
    R ().add (std::string ("Vec3(Vec4<") + tname<S> () + ">)->" + tname<T> () + " checked form threw", total.threw);
}

} // namespace

void stage_normalize_family ()
{
    const bool th = R ().thorough ();
    const std::vector<int> M4 = {0, 1, 2, 3}, M2 = {2, 3}, M1 = {3};
    struct Run { const char* name; std::function<bool (uint64_t&)> f; };
    std::vector<Run> runs = {
        {"normalize.Vec2f", [&] (uint64_t& n) { return norm_sweep<float, 2> (M4, c08::all_signs (2), n); }},
        {"normalize.Vec2d", [&] (uint64_t& n) { return norm_sweep<double, 2> (M4, c08::all_signs (2), n); }},
        {"normalize.Vec3f", [&] (uint64_t& n) { return norm_sweep<float, 3> (th ? M4 : M2, th ? c08::all_signs (3) : c08::four_signs (3), n); }},
        {"normalize.Vec3d", [&] (uint64_t& n) { return norm_sweep<double, 3> (th ? M4 : M1, c08::four_signs (3), n); }},
        {"normalize.Vec4f", [&] (uint64_t& n) { return norm_sweep<float, 4> (th ? M2 : M1, c08::four_signs (4), n); }},
        {"normalize.Vec4d", [&] (uint64_t& n) { return norm_sweep<double, 4> (M1, th ? c08::four_signs (4) : std::vector<unsigned>{0u, 10u}, n); }},
    };
    for (auto& r : runs)
    {
        if (!R ().stage (r.name)) continue;
        uint64_t n  = 0;
        bool     ok = r.f (n);
        std::string what = "exponent-sweep alphabet (every exponent of the type x slots x relative exponents x mantissas x signs) + 14^N boundary product: " +
                           std::to_string (n) + " index points, 6 forms each";
        if (ok) R ().stage_done (what);
        else R ().stage_partial (what);
    }
}

void stage_vec3_from_vec4 ()
{
    const bool th = R ().thorough ();
    if (R ().stage ("Vec3(Vec4,InfException).float<-float")) { vec3_from_vec4<float, float> (th); R ().stage_done ("w in A (both signs) x (x,y,z) in B(w)^3"); }
    if (R ().stage ("Vec3(Vec4,InfException).double<-double")) { vec3_from_vec4<double, double> (th); R ().stage_done ("w in A (both signs) x (x,y,z) in B(w)^3"); }
    if (R ().stage ("Vec3(Vec4,InfException).double<-float")) { vec3_from_vec4<float, double> (th); R ().stage_done (th ? "w in A_S u A_T x (x,y,z) in (B_S u B_T)(w)^3" : "w in A_S u A_T x one of x,y,z in (B_S u B_T)(w), the other two in {0,1,-3,0.1}"); }
    if (R ().stage ("Vec3(Vec4,InfException).float<-double")) { vec3_from_vec4<double, float> (th); R ().stage_done (th ? "w in A_S u A_T x (x,y,z) in (B_S u B_T)(w)^3" : "w in A_S u A_T x one of x,y,z in (B_S u B_T)(w), the other two in {0,1,-3,0.1}"); }
    Vec4<double> v (1.0, 2.0, 0.1, 3.0);
    Vec3<float>  a (v), b (v, INF_EXCEPTION);
    R ().sample (Msg () << "Vec3<float>(Vec4<double>(1,2,0.1,3)).x unchecked " << a.x << " checked " << b.x);
}

} // namespace c07
