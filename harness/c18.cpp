// C18 — random generators: explicit-state search of the rand48 family in lock-step with glibc.
//
// State of the system under test: (Imath's hidden static 48-bit state S, one caller-owned 48-bit state U).
// Operations: erand48(U), nrand48(U), drand48(), lrand48(), srand48(sigma)   [sigma := U read as a signed 48-bit
// number, so the seed varies with the state and exercises sign extension and bits above 32].
// Reference models, both run beside the real code at every step:
//   (1) glibc's functions of the same names (srand48/seed48 put glibc's hidden state where Imath's is);
//   (2) the POSIX definition X' = (0x5DEECE66D X + 0xB) mod 2^48 written out in c18.hpp.
// Checked at every step: nrand48/lrand48 identical to glibc and to the definition; erand48/drand48 in [0,1),
// |imath - glibc| < 2^-48 and *equal* to the packing Imath documents (ImathRandom.cpp: 48 state bits + the top
// 4 bits repeated); caller-visible successor state identical to glibc's and the definition's; a call on one
// state never changes the other (U is compared after every static call; S is read back completely at the end
// of every sequence: drand48() returns all 48 bits of S' exactly, and the LCG step is a bijection; glibc's
// hidden state is read back through seed48()).
// Enumerated: every call sequence of length 1..4 (5+25+125+625) from every initial state of the alphabet:
// U with exactly one non-zero 16-bit word (3 x 65535, exhaustive) + all-zeros, paired round-robin with the
// srand48 seeds B(long); and 2^k, 2^k-1 (k <= 48), the multiplier's carry boundaries, the pre-images of
// all-zeros/all-ones x every seed of B(long).
//
// glibc's and Imath's hidden states are process-global, so the search is sharded over forked worker
// *processes* (each has its own copy of both hidden states); results come back through pipes.
#include "c18.hpp"
#include <ImathRandom.h>
#include <stdlib.h>
#include <sys/wait.h>
#include <unistd.h>

using namespace vf;
using namespace c18;

namespace {

struct Fail { std::string site, input, expected, got; };
struct Shard
{
    std::map<std::string, long long> counters;
    // keyed by the address of the site literal: the failing path must stay cheap (a broken generator fails ~10^8
    // times); records are only formatted for the first 4 occurrences. Merged by name when published.
    std::map<const char*, std::pair<long long, std::vector<Fail>>> fails;
    template <class F> void fail (const char* site, F&& make) // make() -> Fail
    {
        auto& f = fails[site];
        if (++f.first <= 4) f.second.push_back (make ());
    }
};
struct Merged
{
    std::map<std::string, long long>                               counters;
    std::map<std::string, std::pair<long long, std::vector<Fail>>> fails;
};

#define SHFAIL(site, step, ...) sh.fail (site, [&] { return Fail{site, describe (in, seq, len, step), __VA_ARGS__}; })

const char OPN[5] = {'e', 'n', 'd', 'l', 's'};

struct Init { uint64_t U; long seed; };

std::string describe (const Init& in, const int* seq, int len, int step)
{
    std::string s = "U=" + st (in.U) + " srand48(" + std::to_string (in.seed) + ") seq=";
    for (int i = 0; i < len; ++i) s += OPN[seq[i]];
    s += " step=" + std::to_string (step);
    return s;
}

// run one call sequence from one initial state; returns number of operation applications compared
inline int run_sequence (const Init& in, const int* seq, int len, Shard& sh)
{
    unsigned short ui[3], ug[3];
    unpack (in.U, ui);
    unpack (in.U, ug);
    uint64_t Um = in.U, Sm = def_srand (in.seed);
    IM::srand48 (in.seed);
    ::srand48 (in.seed);
    bool static_touched = false;
    int  napplied = 0;
    for (int k = 0; k < len; ++k)
    {
        int op = seq[k];
        ++napplied;
        const uint64_t before = pack (ui); // the caller-owned state as it really is (independence is judged against this, not the model)
        switch (op)
        {
            case 0: // erand48(U)
            {
                double vi = IM::erand48 (ui), vg = ::erand48 (ug);
                Um = lcg (Um);
                if (!(vi >= 0.0 && vi < 1.0)) SHFAIL ("erand48.range", k, "[0,1)", fmt (vi));
                if (!(std::fabs (vi - vg) < 3.5527136788005009e-15)) SHFAIL ("erand48.value-vs-posix", k, fmt (vg) + " +- 2^-48", fmt (vi));
                if (vi != def_erand_imath (Um)) SHFAIL ("erand48.documented-packing", k, fmt (def_erand_imath (Um)), fmt (vi));
                if (vg != def_erand_posix (Um)) SHFAIL ("oracle.glibc-vs-definition", k, fmt (def_erand_posix (Um)), fmt (vg));
                if (pack (ui) != pack (ug) || pack (ui) != Um) SHFAIL ("erand48.successor-state", k, st (Um), st (pack (ui)));
                break;
            }
            case 1: // nrand48(U)
            {
                long vi = IM::nrand48 (ui), vg = ::nrand48 (ug);
                Um = lcg (Um);
                if (vi != vg || vi != def_nrand (Um)) SHFAIL ("nrand48.value", k, fmt (vg), fmt (vi));
                if (vg != def_nrand (Um)) SHFAIL ("oracle.glibc-vs-definition", k, fmt (def_nrand (Um)), fmt (vg));
                if (pack (ui) != pack (ug) || pack (ui) != Um) SHFAIL ("nrand48.successor-state", k, st (Um), st (pack (ui)));
                break;
            }
            case 2: // drand48()
            {
                double vi = IM::drand48 (), vg = ::drand48 ();
                Sm = lcg (Sm);
                static_touched = true;
                if (!(vi >= 0.0 && vi < 1.0)) SHFAIL ("drand48.range", k, "[0,1)", fmt (vi));
                if (!(std::fabs (vi - vg) < 3.5527136788005009e-15)) SHFAIL ("drand48.value-vs-posix", k, fmt (vg) + " +- 2^-48", fmt (vi));
                if (vi != def_erand_imath (Sm)) SHFAIL ("drand48.documented-packing", k, fmt (def_erand_imath (Sm)), fmt (vi));
                if (vg != def_erand_posix (Sm)) SHFAIL ("oracle.glibc-vs-definition", k, fmt (def_erand_posix (Sm)), fmt (vg));
                if (pack (ui) != before) SHFAIL ("independence.caller-state-changed-by-drand48", k, st (before), st (pack (ui)));
                break;
            }
            case 3: // lrand48()
            {
                long vi = IM::lrand48 (), vg = ::lrand48 ();
                Sm = lcg (Sm);
                static_touched = true;
                if (vi != vg || vi != def_nrand (Sm)) SHFAIL ("lrand48.value", k, fmt (vg), fmt (vi));
                if (vg != def_nrand (Sm)) SHFAIL ("oracle.glibc-vs-definition", k, fmt (def_nrand (Sm)), fmt (vg));
                if (pack (ui) != before) SHFAIL ("independence.caller-state-changed-by-lrand48", k, st (before), st (pack (ui)));
                break;
            }
            default: // srand48(sigma), sigma = U as a signed 48-bit integer
            {
                long sigma = (long) ((int64_t) (Um << 16) >> 16);
                IM::srand48 (sigma);
                ::srand48 (sigma);
                Sm = def_srand (sigma);
                static_touched = true;
                if (pack (ui) != before) SHFAIL ("independence.caller-state-changed-by-srand48", k, st (before), st (pack (ui)));
                break;
            }
        }
    }
    // complete read-back of both hidden states
    unsigned short zero[3] = {0, 0, 0};
    uint64_t       Sg = pack (::seed48 (zero)); // glibc's hidden state before the probe
    if (Sg != Sm) SHFAIL ("oracle.glibc-vs-definition", len, st (Sm), st (Sg));
    double   probe = IM::drand48 ();
    uint64_t want  = lcg (Sm);
    ++napplied;
    if (probe != def_erand_imath (want))
    {
        // which relation broke is decided by the *sequence* (a property of the input): without any static call in
        // it only srand48's seeding or a leak from the caller-state calls can be responsible
        bool        has_s = false, has_static_draw = false;
        for (int k = 0; k < len; ++k) { has_s |= seq[k] == 4; has_static_draw |= (seq[k] == 2 || seq[k] == 3); }
        const char* site = !static_touched ? "static-state.after-caller-state-calls-only"
                                           : (has_s && !has_static_draw ? "srand48.state" : "static-state.successor");
        SHFAIL (site, len, "drand48() = " + fmt (def_erand_imath (want)) + " (S' = " + st (want) + ")", fmt (probe));
    }
    return napplied;
}

void run_shard (const std::vector<Init>& inits, size_t lo, size_t hi, Shard& sh)
{
    long long seqs = 0, trans = 0, hist[5] = {0, 0, 0, 0, 0};
    for (size_t i = lo; i < hi; ++i)
    {
        for (int len = 1; len <= 4; ++len)
        {
            int total = 1;
            for (int k = 0; k < len; ++k) total *= 5;
            for (int code = 0; code < total; ++code)
            {
                int seq[4], c = code;
                for (int k = 0; k < len; ++k) { seq[k] = c % 5; c /= 5; }
                trans += run_sequence (inits[i], seq, len, sh);
                ++seqs;
                ++hist[len];
            }
        }
    }
    sh.counters["states"] += (long long) (hi - lo);
    sh.counters["evaluations"] += seqs;
    sh.counters["traces"] += seqs;
    sh.counters["transitions"] += trans;
    for (int len = 1; len <= 4; ++len) sh.counters["sequences_of_length_" + std::to_string (len)] += hist[len];
}

// ---- fork-based sharding ---------------------------------------------------------------------------
std::string esc (const std::string& s) { std::string o; for (char c : s) o += (c == '\t' || c == '\n') ? ' ' : c; return o; }

void write_all (int fd, const std::string& s)
{
    size_t off = 0;
    while (off < s.size ())
    {
        ssize_t w = write (fd, s.data () + off, s.size () - off);
        if (w <= 0) _exit (3);
        off += (size_t) w;
    }
}

// returns false if a worker died
bool run_forked (const std::vector<Init>& inits, Merged& total, unsigned nproc)
{
    struct Child { pid_t pid; int fd; };
    std::vector<Child> kids;
    size_t             n = inits.size (), per = (n + nproc - 1) / nproc;
    fflush (stdout); fflush (stderr);
    for (unsigned p = 0; p < nproc; ++p)
    {
        size_t lo = p * per, hi = std::min (n, lo + per);
        if (lo >= hi) break;
        int fds[2];
        if (pipe (fds) != 0) return false;
        pid_t pid = fork ();
        if (pid < 0) return false;
        if (pid == 0)
        {
            close (fds[0]);
            Shard sh;
            run_shard (inits, lo, hi, sh);
            std::string out;
            for (auto& kv : sh.counters) out += "C\t" + kv.first + "\t" + std::to_string (kv.second) + "\n";
            Merged m;
            for (auto& kv : sh.fails)
            {
                auto& t = m.fails[kv.first];
                t.first += kv.second.first;
                for (auto& f : kv.second.second) if (t.second.size () < 4) t.second.push_back (f);
            }
            for (auto& kv : m.fails)
            {
                out += "N\t" + kv.first + "\t" + std::to_string (kv.second.first) + "\n";
                for (auto& f : kv.second.second) out += "F\t" + esc (f.site) + "\t" + esc (f.input) + "\t" + esc (f.expected) + "\t" + esc (f.got) + "\n";
            }
            out += "END\n";
            write_all (fds[1], out);
            close (fds[1]);
            _exit (0);
        }
        close (fds[1]);
        kids.push_back ({pid, fds[0]});
    }
    bool ok = true;
    for (auto& k : kids)
    {
        std::string buf;
        char        tmp[65536];
        ssize_t     r;
        while ((r = read (k.fd, tmp, sizeof tmp)) > 0) buf.append (tmp, (size_t) r);
        close (k.fd);
        int status = 0;
        waitpid (k.pid, &status, 0);
        if (!WIFEXITED (status) || WEXITSTATUS (status) != 0 || buf.size () < 4 || buf.substr (buf.size () - 4) != "END\n") { ok = false; continue; }
        std::istringstream is (buf);
        std::string        line;
        while (std::getline (is, line))
        {
            std::vector<std::string> f;
            size_t                   p = 0, q;
            while ((q = line.find ('\t', p)) != std::string::npos) { f.push_back (line.substr (p, q - p)); p = q + 1; }
            f.push_back (line.substr (p));
            if (f[0] == "C" && f.size () == 3) total.counters[f[1]] += atoll (f[2].c_str ());
            else if (f[0] == "N" && f.size () == 3) total.fails[f[1]].first += atoll (f[2].c_str ());
            else if (f[0] == "F" && f.size () == 5) { auto& v = total.fails[f[1]].second; if (v.size () < 4) v.push_back ({f[1], f[2], f[3], f[4]}); }
        }
    }
    return ok;
}

// merge a shard into the report (failure counts stay exact: the first <= 4 records carry the inputs, the
// remaining occurrences are registered with the first record's input)
void publish (Merged& sh)
{
    for (auto& kv : sh.counters) R ().add (kv.first, kv.second);
    for (auto& kv : sh.fails)
    {
        auto&     recs = kv.second.second;
        long long cnt  = kv.second.first, done = 0;
        for (auto& f : recs) { R ().fail (f.site, f.input, f.expected, f.got); ++done; }
        if (recs.empty ()) continue;
        // R().fail keeps only 4 records per site; register the rest of the count in bulk
        long long rest = cnt - done;
        if (rest > 0) R ().vcount[kv.first] += rest; // private member: C18 is built with -fno-access-control (see the spec); single-threaded here
    }
}

} // namespace

int main (int argc, char** argv)
{
    R ().property = "C18";
    R ().parse (argc, argv);
    R ().assume ("reference model: the rand48 family of the glibc this harness is linked against, cross-checked at every step against the POSIX recurrence written out in c18.hpp");
    R ().assume ("unsigned long / long are 64-bit (LP64)");

    const std::vector<long> seeds = seed_alphabet ();

    // ---------- explicit-state search, depth <= 4
    if (R ().stage ("rand48-lockstep-depth4"))
    {
        std::vector<Init> inits;
        size_t            rr = 0;
        inits.push_back ({0, seeds[rr++ % seeds.size ()]});
        for (int w = 0; w < 3; ++w)
            for (uint64_t v = 1; v < 65536; ++v) inits.push_back ({v << (16 * w), seeds[rr++ % seeds.size ()]});
        long long single = (long long) inits.size ();
        std::vector<uint64_t> B = state_boundary_alphabet ();
        for (uint64_t u : B)
            for (long s : seeds) inits.push_back ({u, s});
        Merged total;
        bool  ok = run_forked (inits, total, nthreads ());
        publish (total);
        R ().cls ("rand48.init.single-nonzero-word", single);
        R ().cls ("rand48.init.boundary-state-x-every-seed", (long long) (B.size () * seeds.size ()));
        long long neg = 0, big = 0;
        for (auto& i : inits) { if (i.seed < 0) ++neg; if ((uint64_t) i.seed > 0xffffffffull) ++big; }
        R ().cls ("rand48.init.negative-seed", neg);
        R ().cls ("rand48.init.seed-wider-than-32-bits", big);
        {
            unsigned short s[3] = {0x330e, 0xabcd, 0x1234};
            R ().sample ("erand48({0x330e,0xabcd,0x1234}) = " + fmt (IM::erand48 (s)) + " -> state " + st (pack (s)));
            unsigned short t[3] = {0x330e, 0xabcd, 0x1234};
            R ().sample ("nrand48({0x330e,0xabcd,0x1234}) = " + fmt (IM::nrand48 (t)));
            IM::srand48 (-1);
            R ().sample ("srand48(-1); lrand48() = " + fmt (IM::lrand48 ()));
        }
        if (ok) R ().stage_done (std::to_string (inits.size ()) + " initial (U, seed) states x every call sequence of length 1..4 over {erand48,nrand48,drand48,lrand48,srand48} (780 each), lock-step with glibc and the POSIX recurrence");
        else { R ().fail ("harness.worker-died", "rand48-lockstep-depth4"); R ().stage_partial ("a worker process failed"); }
    }

    // ---------- the documented 48-bit packing on every successor state with one non-zero word
    if (R ().stage ("erand48-packing"))
    {
        std::vector<uint64_t> X = {0, M48, 0xAAAAAAAAAAAAull, 0x555555555555ull, 0xF00000000000ull, 0x0FFFFFFFFFFFull};
        for (int w = 0; w < 3; ++w)
            for (uint64_t v = 1; v < 65536; ++v) X.push_back (v << (16 * w));
        long long n = 0, top = 0;
        for (uint64_t x : X)
        {
            uint64_t       pre = lcg_prev (x);
            unsigned short ui[3], ug[3];
            unpack (pre, ui); unpack (pre, ug);
            double vi = IM::erand48 (ui), vg = ::erand48 (ug);
            ++n;
            if (x >> 44) ++top;
            std::string in = "U=" + st (pre) + " (successor " + st (x) + ")";
            if (lcg (pre) != x) R ().fail ("oracle.selfcheck.lcg-inverse", in);
            if (pack (ui) != x) R ().fail ("erand48.successor-state", in, st (x), st (pack (ui)));
            if (vi != def_erand_imath (x)) R ().fail ("erand48.documented-packing", in, fmt (def_erand_imath (x)), fmt (vi));
            if (!(vi >= 0 && vi < 1)) R ().fail ("erand48.range", in, "[0,1)", fmt (vi));
            if (!(std::fabs (vi - vg) < 3.5527136788005009e-15)) R ().fail ("erand48.value-vs-posix", in, fmt (vg), fmt (vi));
        }
        R ().add ("states", n); R ().add ("evaluations", n); R ().add ("transitions", n);
        R ().cls ("erand48.packing.top-nibble-nonzero(replicated bits visible)", top);
        R ().stage_done ("every successor state with exactly one non-zero 16-bit word (3 x 65535) + all-zeros, all-ones, 4 patterns: value == documented packing, |imath-glibc| < 2^-48");
    }

    // ---------- orbit from seed 0
    if (R ().stage ("rand48-orbit-from-0"))
    {
        const uint64_t N = R ().thorough () ? (1ull << 28) : (1ull << 22), NS = R ().thorough () ? (1ull << 24) : (1ull << 20);
        unsigned short ui[3] = {0, 0, 0}, ug[3] = {0, 0, 0};
        uint64_t       Um = 0, i = 0;
        long long      bad = 0;
        for (; i < N; ++i)
        {
            if ((i & 0xfffff) == 0 && R ().out_of_time ()) break;
            Um = lcg (Um);
            if (i & 1)
            {
                long vi = IM::nrand48 (ui), vg = ::nrand48 (ug);
                if (vi != vg || vi != def_nrand (Um)) { ++bad; R ().fail ("nrand48.value", "orbit from 0, step " + std::to_string (i), fmt (vg), fmt (vi)); }
            }
            else
            {
                double vi = IM::erand48 (ui), vg = ::erand48 (ug);
                if (vi != def_erand_imath (Um) || !(std::fabs (vi - vg) < 3.5527136788005009e-15) || !(vi >= 0 && vi < 1))
                { ++bad; R ().fail ("erand48.value-vs-posix", "orbit from 0, step " + std::to_string (i), fmt (vg), fmt (vi)); }
            }
            if (pack (ui) != Um || pack (ug) != Um) { ++bad; R ().fail ("rand48.orbit.successor-state", "orbit from 0, step " + std::to_string (i), st (Um), st (pack (ui))); }
            if (bad > 1000) break;
        }
        // the static pair along its own orbit from srand48(0)
        IM::srand48 (0); ::srand48 (0);
        uint64_t Sm = def_srand (0), j = 0;
        for (; j < NS && bad <= 1000; ++j)
        {
            Sm = lcg (Sm);
            if (j & 1)
            {
                long vi = IM::lrand48 (), vg = ::lrand48 ();
                if (vi != vg || vi != def_nrand (Sm)) { ++bad; R ().fail ("lrand48.value", "srand48(0), step " + std::to_string (j), fmt (vg), fmt (vi)); }
            }
            else
            {
                double vi = IM::drand48 (), vg = ::drand48 ();
                if (vi != def_erand_imath (Sm) || !(std::fabs (vi - vg) < 3.5527136788005009e-15)) { ++bad; R ().fail ("drand48.value-vs-posix", "srand48(0), step " + std::to_string (j), fmt (vg), fmt (vi)); }
            }
        }
        R ().add ("states", (long long) (i + j)); R ().add ("evaluations", (long long) (i + j)); R ().add ("transitions", (long long) (i + j));
        R ().add ("orbit_states_followed", (long long) i);
        if (i == N && j == NS) R ().stage_done ("orbit of the caller-owned state from 0 followed for " + std::to_string (N) + " consecutive states (erand48/nrand48 alternating), static state from srand48(0) for " + std::to_string (NS));
        else R ().stage_partial (std::to_string (i) + " of " + std::to_string (N) + " orbit states");
    }

    c18_generator_stages ();
    return R ().finish ();
}
