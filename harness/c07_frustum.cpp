// C07, Frustum part: every ...Exc method against its unchecked twin, and setExc against set.
//
//   projectionMatrixExc / projectionMatrix      aspectExc / aspect
//   localToScreenExc / localToScreen (protected; reached through a derived class)
//   projectPointToScreenExc / projectPointToScreen
//   ZToDepthExc / ZToDepth       normalizedZToDepthExc / normalizedZToDepth      DepthToZExc / DepthToZ
//   screenRadiusExc / screenRadius      worldRadiusExc / worldRadius        setExc / set
//
// Enumerated (float and double, orthographic and perspective):
//   pair sweep   : a well-conditioned base frustum (two variants) in which every PAIR of the six parameters
//                  (near, far, left, right, top, bottom) ranges over the signed boundary alphabet V x V
//                  (0, denorm_min, min, 1/4, 1-ulp, 1, 2, 3, 2^(emax/2), max; thorough adds 2^-digits, 1+ulp, 2^digits, max/2);
//                  on each such frustum every operation is run over its own argument alphabet.
//   guard sweeps : for every guard  |a| < 1 && |b| > max*|a|  a family that realises (denominator, numerator)
//                  = (a, b) exactly, (a, b) over the product A x B(a) of c07_common.hpp, both signs - i.e. both
//                  sides of each threshold to the ulp - wherever the two can be set independently from the
//                  inputs (2/(r-l), 2n/(r-l), 2n/(t-b), 2/(f-n), (r-l)/(t-b), (l-2p+r)/(l-r), (2d+f+n)/(f-n),
//                  2fn/depth, n/p.z, p.z/n).  (For r+l against r-l and f+n against f-n the two cannot be chosen
//                  independently with finite inputs; those guards are reached through r == l, f == n and the pair sweep.)
// Oracle (differential):
//   D1  checked returns            => result bitwise equal to the unchecked form's (NaN matches NaN);
//   D2  checked throws             => typeid == std::domain_error;
//   D3  checked throws             => one of the quotients the operation forms (numerator and denominator
//                                     evaluated from the documented formula in T) has a zero denominator, a
//                                     non-finite operand, or |num/den| >= max/4;
//   D4  all quotients have a non-zero denominator and |num/den| <= max/8 => checked does not throw;
//   D5  a division of two finite operands overflows or divides a non-zero by zero => checked throws
//       (0/0 is reported separately; the guards use a strict '>', so it is not an overflow to them).
#include "c07_common.hpp"
#include "c08_alpha.hpp" // c08::Site / C0X_FAIL
#include <ImathFrustum.h>

using namespace vf;
using namespace IMATH_NAMESPACE;

namespace c07 {
namespace {

template <class T> struct FX : public Frustum<T>
{
    FX (T n, T f, T l, T r, T t, T b, bool o) : Frustum<T> (n, f, l, r, t, b, o) {}
    using Frustum<T>::localToScreen;
    using Frustum<T>::localToScreenExc;
};

template <class T> struct P6 { T n, f, l, r, t, b; bool ortho; };

template <class T> std::string showf (const P6<T>& p)
{
    return Msg () << "Frustum<" << tname<T> () << ">(near=" << p.n << ", far=" << p.f << ", left=" << p.l << ", right=" << p.r << ", top=" << p.t << ", bottom=" << p.b
                  << ", ortho=" << p.ortho << ")";
}

inline bool same_res (float a, float b) { return same_bits (a, b); }
inline bool same_res (double a, double b) { return same_bits (a, b); }
inline bool same_res (long a, long b) { return a == b; }
template <class T> bool same_res (const Vec2<T>& a, const Vec2<T>& b) { return same_bits (a.x, b.x) && same_bits (a.y, b.y); }
template <class T> bool same_res (const Matrix44<T>& a, const Matrix44<T>& b)
{
    for (int i = 0; i < 4; ++i)
        for (int j = 0; j < 4; ++j)
            if (!same_bits (a[i][j], b[i][j])) return false;
    return true;
}
inline std::string show_res (float a) { return Msg () << a; }
inline std::string show_res (double a) { return Msg () << a; }
inline std::string show_res (long a) { return std::to_string (a); }
template <class T> std::string show_res (const Vec2<T>& a) { return Msg () << "(" << a.x << ", " << a.y << ")"; }
template <class T> std::string show_res (const Matrix44<T>& a)
{
    Msg m;
    m << "{";
    for (int i = 0; i < 4; ++i)
        for (int j = 0; j < 4; ++j) { if (i || j) m << ", "; m << a[i][j]; }
    m << "}";
    return m.str ();
}

struct FTally
{
    long long frusta = 0, ops = 0, threw = 0, returned = 0, near_threshold = 0, overflow_div = 0, zero_over_zero = 0, zero_over_zero_returned = 0, benign = 0, wide_z = 0, wide_z_threw = 0;
    void add (const FTally& o)
    {
        frusta += o.frusta; ops += o.ops; threw += o.threw; returned += o.returned; near_threshold += o.near_threshold; overflow_div += o.overflow_div;
        zero_over_zero += o.zero_over_zero; zero_over_zero_returned += o.zero_over_zero_returned; benign += o.benign; wide_z += o.wide_z; wide_z_threw += o.wide_z_threw;
    }
};

// one operation instance: run both forms and apply D1..D5.  OPNAME is a compile-time-constant per call site.
// A non-finite operand (an intermediate that overflowed in T) counts as justification for a throw and is never
// "well-conditioned".  `compare`: false when the result involves an out-of-range floating->long conversion
// (undefined behaviour, not comparable).
#define C07_OP(OPNAME, TT, RES, INPUT, UNCHECKED, CHECKED, QS, NQ, COMPARE, TALLY)                                                          \
    do {                                                                                                                                 \
        static const std::string op_ = std::string ("Frustum<") + tname<TT> () + ">::" + OPNAME;                                          \
        ++(TALLY).ops;                                                                                                                   \
        RES u_ = (UNCHECKED);                                                                                                            \
        RES c_ = RES ();                                                                                                                 \
        int th_ = run_checked ([&] { c_ = (CHECKED); });                                                                                 \
        QuotJudgement<TT> j_ = judge_quotients<TT> (QS, NQ);                                                                             \
        if (j_.benign) ++(TALLY).benign;                                                                                                 \
        if (j_.overflow) ++(TALLY).overflow_div;                                                                                         \
        if (j_.zero_over_zero) ++(TALLY).zero_over_zero;                                                                                 \
        if (j_.justified && !j_.overflow) ++(TALLY).near_threshold;                                                                      \
        if (th_ == NONE)                                                                                                                 \
        {                                                                                                                                \
            ++(TALLY).returned;                                                                                                          \
            if ((COMPARE) && !same_res (c_, u_)) C0X_FAIL (op_ + ".bitwise-vs-unchecked", (INPUT), show_res (u_), show_res (c_));        \
            if (j_.overflow) C0X_FAIL (op_ + ".overflowing-quotient-not-guarded", (INPUT), "std::domain_error", show_res (c_));          \
            else if (j_.zero_over_zero) ++(TALLY).zero_over_zero_returned;                                                               \
        }                                                                                                                                \
        else                                                                                                                             \
        {                                                                                                                                \
            ++(TALLY).threw;                                                                                                             \
            if (th_ != DOMAIN_ERROR) C0X_FAIL (op_ + ".exception-type", (INPUT), "std::domain_error", thrown_name (th_));                \
            if (j_.benign) C0X_FAIL (op_ + ".throws-on-well-conditioned", (INPUT), "no exception (every quotient <= max/8)", thrown_name (th_)); \
            else if (!j_.justified) C0X_FAIL (op_ + ".guard-fires-below-max/4", (INPUT), "no exception (every quotient < max/4)", thrown_name (th_)); \
        }                                                                                                                                \
    } while (0)

template <class T> struct FrustumChecker
{
    const long double TM = (long double) tmax<T> ();

    // ---- projectionMatrix, aspect: functions of the frustum only
    void frustum_ops (const P6<T>& p, FTally& t) const
    {
        FX<T> F (p.n, p.f, p.l, p.r, p.t, p.b, p.ortho);
        const T rpl = p.r + p.l, rml = p.r - p.l, tpb = p.t + p.b, tmb = p.t - p.b, fpn = p.f + p.n, fmn = p.f - p.n;
        {
            Quot<T> q[6];
            q[0] = {rpl, rml}; q[1] = {tpb, tmb}; q[2] = {fpn, fmn};
            if (p.ortho) { q[3] = {T (2), rml}; q[4] = {T (2), tmb}; q[5] = {T (2), fmn}; }
            else
            {
                T ftn = T (-2) * p.f * p.n, twon = T (2) * p.n;
                q[3] = {ftn, fmn}; q[4] = {twon, rml}; q[5] = {twon, tmb};
            }
            C07_OP ("projectionMatrixExc", T, Matrix44<T>, showf (p), F.projectionMatrix (), F.projectionMatrixExc (), q, 6, true, t);
        }
        {
            Quot<T> q[1] = {{rml, tmb}};
            C07_OP ("aspectExc", T, T, showf (p), F.aspect (), F.aspectExc (), q, 1, true, t);
        }
    }

    void local_to_screen (const P6<T>& p, const Vec2<T>& pt, FTally& t) const
    {
        FX<T>   F (p.n, p.f, p.l, p.r, p.t, p.b, p.ortho);
        Quot<T> q[2] = {{p.l - T (2) * pt.x + p.r, p.l - p.r}, {p.b - T (2) * pt.y + p.t, p.b - p.t}};
        C07_OP ("localToScreenExc", T, Vec2<T>, showf (p) + (Msg () << " p=(" << pt.x << ", " << pt.y << ")").str (), F.localToScreen (pt), F.localToScreenExc (pt), q, 2, true, t);
    }

    void project_point (const P6<T>& p, const Vec3<T>& pt, FTally& t) const
    {
        FX<T>   F (p.n, p.f, p.l, p.r, p.t, p.b, p.ortho);
        Vec2<T> lp;
        if (p.ortho || pt.z == T (0)) lp = Vec2<T> (pt.x, pt.y);
        else lp = Vec2<T> (pt.x * p.n / -pt.z, pt.y * p.n / -pt.z); // the perspective divide (documented formula); not itself a guarded quotient
        Quot<T> q[2] = {{p.l - T (2) * lp.x + p.r, p.l - p.r}, {p.b - T (2) * lp.y + p.t, p.b - p.t}};
        C07_OP ("projectPointToScreenExc", T, Vec2<T>, showf (p) + (Msg () << " point=(" << pt.x << ", " << pt.y << ", " << pt.z << ")").str (), F.projectPointToScreen (pt),
                F.projectPointToScreenExc (pt), q, 2, true, t);
    }

    void normalized_z (const P6<T>& p, T z, FTally& t) const
    {
        FX<T>   F (p.n, p.f, p.l, p.r, p.t, p.b, p.ortho);
        Quot<T> q[1];
        int     nq   = 0;
        if (!p.ortho)
        {
            T Zp = z * T (2) - T (1);
            T ftn = 2 * p.f * p.n;
            T den = Zp * (p.f - p.n) - p.f - p.n;
            q[0] = {ftn, den}; nq = 1;
        }
        C07_OP ("normalizedZToDepthExc", T, T, showf (p) + (Msg () << " zval=" << z).str (), F.normalizedZToDepth (z), F.normalizedZToDepthExc (z), q, nq, true, t);
    }

    void z_to_depth (const P6<T>& p, long zval, long zmin, long zmax, FTally& t) const
    {
        FX<T>     F (p.n, p.f, p.l, p.r, p.t, p.b, p.ortho);
        const int zdiff = (int) (zmax - zmin);
        std::string in = showf (p) + " zval=" + std::to_string (zval) + " zmin=" + std::to_string (zmin) + " zmax=" + std::to_string (zmax);
        if (zdiff == 0)
        {   // documented: "Bad call to Frustum::ZToDepth: zmax == zmin"
            ++t.ops;
            T   r  = T ();
            int th = run_checked ([&] { r = F.ZToDepthExc (zval, zmin, zmax); });
            if (th == NONE) C0X_FAIL (std::string ("Frustum<") + tname<T> () + ">::ZToDepthExc.no-throw-on-zmax==zmin", in, "std::domain_error", show_res (r));
            else { ++t.threw; if (th != DOMAIN_ERROR) C0X_FAIL (std::string ("Frustum<") + tname<T> () + ">::ZToDepthExc.exception-type", in, "std::domain_error", thrown_name (th)); }
            return;
        }
        long zv = zval;
        if (zv > zmax + 1) zv -= zdiff;
        T       fz = (T (zv) - T (zmin)) / T (zdiff);
        Quot<T> q[1];
        int     nq   = 0;
        if (!p.ortho)
        {
            T Zp = fz * T (2) - T (1), ftn = 2 * p.f * p.n, den = Zp * (p.f - p.n) - p.f - p.n;
            q[0] = {ftn, den}; nq = 1;
        }
        C07_OP ("ZToDepthExc", T, T, in, F.ZToDepth (zval, zmin, zmax), F.ZToDepthExc (zval, zmin, zmax), q, nq, true, t);
    }

    // Z ranges WIDER than INT_MAX (ZToDepth / ZToDepthExc take long arguments; both copies narrow zmax-zmin the same way):
    // purely differential - the pair must agree bit for bit, and a throw must be the documented type.  No quotient
    // judgement: what zmax-zmin becomes after the narrowing is not part of the documented behaviour.
    void z_to_depth_wide (const P6<T>& p, long zval, long zmin, long zmax, FTally& t) const
    {
        static const std::string op = std::string ("Frustum<") + tname<T> () + ">::ZToDepthExc.z-range-wider-than-INT_MAX";
        FX<T> F (p.n, p.f, p.l, p.r, p.t, p.b, p.ortho);
        ++t.ops; ++t.wide_z;
        T   u = F.ZToDepth (zval, zmin, zmax), c = T ();
        int th = run_checked ([&] { c = F.ZToDepthExc (zval, zmin, zmax); });
        auto in = [&] () { return showf (p) + " zval=" + std::to_string (zval) + " zmin=" + std::to_string (zmin) + " zmax=" + std::to_string (zmax); };
        if (th == NONE) { ++t.returned; if (!same_res (c, u)) C0X_FAIL (op + ".bitwise-vs-unchecked", in (), show_res (u), show_res (c)); }
        else { ++t.threw; ++t.wide_z_threw; if (th != DOMAIN_ERROR) C0X_FAIL (op + ".exception-type", in (), "std::domain_error", thrown_name (th)); }
    }

    void depth_to_z (const P6<T>& p, T depth, long zmin, long zmax, FTally& t) const
    {
        FX<T>   F (p.n, p.f, p.l, p.r, p.t, p.b, p.ortho);
        Quot<T> q[2];
        int     nq  = 0;
        T       fmn = p.f - p.n, Zp;
        if (p.ortho)
        {
            T fpn = T (2) * depth + p.f + p.n;
            q[0] = {fpn, fmn}; nq = 1;
            Zp = -fpn / fmn;
        }
        else
        {
            T ftn = T (2) * p.f * p.n;
            q[0]  = {ftn, depth};
            T fpn = ftn / depth + p.f + p.n;
            q[1]  = {fpn, fmn}; nq = 2;
            Zp = fpn / fmn;
        }
        // the result is long(0.5*(Zp+1)*zdiff)+zmin: converting an out-of-range or non-finite double to long is
        // undefined behaviour, so the two results are compared only when the value is safely inside the range of long
        double v       = 0.5 * ((double) Zp + 1) * (double) (zmax - zmin);
        bool   compare = std::isfinite (v) && std::fabs (v) < 4e18;
        C07_OP ("DepthToZExc", T, long, showf (p) + (Msg () << " depth=" << depth).str () + " zmin=" + std::to_string (zmin) + " zmax=" + std::to_string (zmax),
                F.DepthToZ (depth, zmin, zmax), F.DepthToZExc (depth, zmin, zmax), q, nq, compare, t);
    }

    void radii (const P6<T>& p, T pz, T radius, FTally& t) const
    {
        FX<T>   F (p.n, p.f, p.l, p.r, p.t, p.b, p.ortho);
        Vec3<T> pt (T (0.5), T (-0.25), pz);
        std::string in = showf (p) + (Msg () << " p.z=" << pz << " radius=" << radius).str ();
        {
            Quot<T> q[1] = {{-p.n, pz}};
            C07_OP ("screenRadiusExc", T, T, in, F.screenRadius (pt, radius), F.screenRadiusExc (pt, radius), q, 1, true, t);
        }
        {
            Quot<T> q[1] = {{pz, -p.n}};
            C07_OP ("worldRadiusExc", T, T, in, F.worldRadius (pt, radius), F.worldRadiusExc (pt, radius), q, 1, true, t);
        }
    }
};


// --------------------------------------------------------------------------------------------------------
template <class T> T& param (P6<T>& p, int i)
{
    switch (i) { case 0: return p.n; case 1: return p.f; case 2: return p.l; case 3: return p.r; case 4: return p.t; default: return p.b; }
}
template <class T> P6<T> base_frustum (int variant, bool ortho)
{
    if (variant == 0) return P6<T>{T (1), T (8), T (-1), T (2), T (1.5), T (-0.5), ortho};
    return P6<T>{T (0.5), T (1024), T (-3), T (-1), T (0.25), T (-2), ortho};
}

// every operation on one frustum, each over its own argument alphabet
template <class T> void all_ops (const FrustumChecker<T>& ck, const P6<T>& p, const std::vector<T>& Vs, bool rich, FTally& t)
{
    ++t.frusta;
    ck.frustum_ops (p, t);
    static const long ZP[7][2] = {{0, 0}, {5, 5}, {0, 1}, {0, 255}, {-5, 65535}, {0, 2147483647L}, {100, 0}};
    for (T z : {T (0), T (0.25), T (0.5), T (1), T (2), T (-1), down (T (1)), tden<T> (), tmax<T> ()}) ck.normalized_z (p, z, t);
    for (auto& zp : ZP)
        for (long zv : {zp[0], zp[1], zp[1] + 1, zp[1] + 2, (zp[0] + zp[1]) / 2, -1L}) ck.z_to_depth (p, zv, zp[0], zp[1], t);
    {
        static const long ZW[4][2] = {{0, 4294967295L}, {-2147483648L, 2147483647L}, {0, 1L << 40}, {-5, 2147483647L}};
        for (auto& zw : ZW)
            for (long zv : {zw[0], zw[1], zw[0] + (zw[1] - zw[0]) / 2, zw[1] + 2}) ck.z_to_depth_wide (p, zv, zw[0], zw[1], t);
    }
    if (!rich)
    {   // a reduced argument alphabet (used inside the guard families, where the frustum itself carries the threshold)
        ck.local_to_screen (p, Vec2<T> (T (0.3), T (-0.7)), t);
        ck.project_point (p, Vec3<T> (T (0.3), T (-0.7), T (-5)), t);
        ck.depth_to_z (p, T (-3), 0, 65535, t);
        ck.radii (p, T (-5), T (1), t);
        return;
    }
    for (T v : Vs)
    {
        ck.local_to_screen (p, Vec2<T> (v, T (-0.7)), t);
        ck.local_to_screen (p, Vec2<T> (T (0.3), v), t);
        ck.project_point (p, Vec3<T> (T (0.3), T (-0.7), v), t);
        ck.project_point (p, Vec3<T> (tmax<T> (), T (1), v), t);
        ck.project_point (p, Vec3<T> (v, T (-0.7), T (-5)), t);
        ck.project_point (p, Vec3<T> (T (0.3), v, -tden<T> ()), t);
        for (int k = 0; k < 4; ++k) ck.depth_to_z (p, v, ZP[k + 2][0], ZP[k + 2][1], t);
        // Z ranges WIDER than INT_MAX (DepthToZ / DepthToZExc take and return long): the pair must still agree bit for bit
        {
            static const long ZW[4][2] = {{0, 4294967295L}, {-2147483648L, 2147483647L}, {0, 1L << 40}, {-5, 2147483647L}};
            for (auto& zw : ZW) ck.depth_to_z (p, v, zw[0], zw[1], t);
        }
        ck.radii (p, v, T (1), t);
        ck.radii (p, v, tmax<T> (), t);
    }
}

template <class T> void publish (const FTally& t)
{
    R ().add ("states", t.frusta);
    R ().add ("evaluations", t.ops);
    R ().add ("transitions", t.ops);
    R ().cls ("frustum.checked-form-threw", t.threw);
    R ().cls ("frustum.checked-form-returned.generic", t.returned);
    R ().cls ("frustum.quotient-overflows-or-divides-by-zero", t.overflow_div);
    R ().cls ("frustum.quotient>=max/4-or-nonfinite-operand-without-overflow", t.near_threshold);
    R ().cls ("frustum.well-conditioned(all-quotients<=max/8)", t.benign);
    R ().cls ("frustum.0/0", t.zero_over_zero);
    R ().cls ("frustum.ZToDepth.z-range-wider-than-INT_MAX", t.wide_z);
    R ().add (std::string ("frustum<") + tname<T> () + "> operations that returned a 0/0 NaN without throwing (information)", t.zero_over_zero_returned);
}

template <class T> bool pair_sweep (uint64_t& nfrusta, uint64_t& nvals)
{
    FrustumChecker<T> ck;
    const std::vector<T> Vs = signed_all (alpha_v<T> (R ().thorough ()));
    nvals = Vs.size ();
    const uint64_t nv = Vs.size (), n = 15 * nv * nv * 2 * 2;
    static const int PAIRS[15][2] = {{0, 1}, {0, 2}, {0, 3}, {0, 4}, {0, 5}, {1, 2}, {1, 3}, {1, 4}, {1, 5}, {2, 3}, {2, 4}, {2, 5}, {3, 4}, {3, 5}, {4, 5}};
    std::mutex mu;
    FTally     total;
    bool ok = parallel_chunks (n, 16, [&] (uint64_t lo, uint64_t hi, unsigned) {
        FTally t;
        for (uint64_t idx = lo; idx < hi; ++idx)
        {
            uint64_t k = idx;
            bool ortho = k & 1; k >>= 1;
            int  var   = (int) (k & 1); k >>= 1;
            T    v1 = Vs[k % nv]; k /= nv;
            T    v0 = Vs[k % nv]; k /= nv;
            const int* pr = PAIRS[k];
            P6<T> p = base_frustum<T> (var, ortho);
            param (p, pr[0]) = v0;
            param (p, pr[1]) = v1;
            all_ops (ck, p, Vs, true, t);
        }
        std::lock_guard<std::mutex> g (mu);
        total.add (t);
    });
    publish<T> (total);
    nfrusta = total.frusta;
    return ok;
}

// guard families: (denominator, numerator) = (a, b) realised exactly from the inputs
template <class T> bool guard_sweep (uint64_t& nfrusta)
{
    FrustumChecker<T> ck;
    const std::vector<T> Vs = signed_all (alpha_v<T> (false));
    const std::vector<T> A  = signed_all (alpha_a<T> ());
    std::mutex mu;
    FTally     total;
    bool ok = parallel_chunks (A.size (), 1, [&] (uint64_t lo, uint64_t hi, unsigned) {
        FTally t;
        for (uint64_t ai = lo; ai < hi; ++ai)
        {
            const T a = A[ai];
            for (T b : signed_all (alpha_b<T> (std::fabs (a))))
                for (int var = 0; var < 2; ++var)
                {
                    P6<T> p;
                    // F1: orthographic, constant numerator 2:  r-l = a / t-b = a / f-n = a   (b unused: once per a)
                    if (b == 0)
                    {
                        p = base_frustum<T> (var, true); p.l = 0; p.r = a; all_ops (ck, p, Vs, false, t);
                        p = base_frustum<T> (var, true); p.b = 0; p.t = a; all_ops (ck, p, Vs, false, t);
                        p = base_frustum<T> (var, true); p.n = 0; p.f = a; all_ops (ck, p, Vs, false, t);
                        p = base_frustum<T> (var, false); p.n = 0; p.f = a; all_ops (ck, p, Vs, false, t);
                    }
                    // F2: perspective, 2*near against r-l and t-b:  near = b/2
                    p = base_frustum<T> (var, false); p.l = 0; p.r = a; p.n = b / 2; all_ops (ck, p, Vs, false, t);
                    p = base_frustum<T> (var, false); p.b = 0; p.t = a; p.n = b / 2; all_ops (ck, p, Vs, false, t);
                    // F3: aspect: (r-l)/(t-b) = b/a
                    p = base_frustum<T> (var, var == 1); p.l = 0; p.r = b; p.b = 0; p.t = a; ++t.frusta; ck.frustum_ops (p, t);
                    // F4: localToScreen / projectPointToScreen: l-r = a, l-2p+r = b-a (b absorbs a at the threshold)
                    for (int ortho = 0; ortho < 2; ++ortho)
                    {
                        p = base_frustum<T> (var, ortho); p.l = 0; p.r = -a; ++t.frusta;
                        ck.local_to_screen (p, Vec2<T> (-b / 2, T (0.25)), t);
                        ck.project_point (p, Vec3<T> (-b / 2, T (0.25), T (-1)), t);       // perspective: near = 1 or 0.5
                        ck.project_point (p, Vec3<T> (T (1), T (0.25), a), t);             // p.z at the alphabet
                        p = base_frustum<T> (var, ortho); p.b = 0; p.t = -a; ++t.frusta;
                        ck.local_to_screen (p, Vec2<T> (T (0.25), -b / 2), t);
                        ck.project_point (p, Vec3<T> (T (0.25), -b / 2, T (-1)), t);
                    }
                    // F5: DepthToZ orthographic: f-n = a, 2*depth+f+n = b+a
                    p = base_frustum<T> (var, true); p.n = 0; p.f = a; ++t.frusta;
                    ck.depth_to_z (p, b / 2, 0, 65535, t);
                    // F6: DepthToZ perspective, first guard: depth = a, 2*far*near = b
                    p = base_frustum<T> (var, false); p.n = 1; p.f = b / 2; ++t.frusta;
                    ck.depth_to_z (p, a, 0, 65535, t);
                    //     second guard: 2fn/depth + f + n against f - n < 1 (reached with depth between 2fn/max and ~4fn/max)
                    for (T f : {T (1.5), T (1.25), up (T (1)), T (1)})
                    {
                        p = base_frustum<T> (var, false); p.n = 1; p.f = f; ++t.frusta;
                        ck.depth_to_z (p, a, 0, 255, t);
                        ck.depth_to_z (p, b, 0, 255, t);
                    }
                    // F7: screenRadius: near/p.z = b/a ; worldRadius: p.z/near = b/a
                    p = base_frustum<T> (var, false); p.n = b; ++t.frusta;
                    ck.radii (p, a, T (1), t);
                    p = base_frustum<T> (var, false); p.n = a; ++t.frusta;
                    ck.radii (p, b, T (1), t);
                    // F8: normalizedZToDepth perspective: far, near from (a, b) in both orders, zval on the special values
                    for (T z : {T (0), T (1), T (2), T (0.5)})
                    {
                        p = base_frustum<T> (var, false); p.f = a; p.n = b; ++t.frusta; ck.normalized_z (p, z, t);
                        p = base_frustum<T> (var, false); p.f = b; p.n = a; ++t.frusta; ck.normalized_z (p, z, t);
                    }
                }
        }
        std::lock_guard<std::mutex> g (mu);
        total.add (t);
    });
    publish<T> (total);
    nfrusta = total.frusta;
    return ok;
}

// setExc against set
template <class T> void set_exc (long long& cases, long long& threw)
{
    const std::string op = std::string ("Frustum<") + tname<T> () + ">::setExc";
    const T fov[] = {T (0), T (-0.0), tden<T> (), T (0.5), T (1), T (1.5707963267948966), T (3), T (-1), tmax<T> ()};
    const T asp[] = {T (0), T (0.5), T (1), T (2), T (-1), tden<T> (), tmax<T> ()};
    const T nr[]  = {T (0), T (0.5), T (1), tmax<T> (), tden<T> ()};
    const T fr[]  = {T (1), T (1000), tmax<T> ()};
    for (T fx : fov) for (T fy : fov) for (T as : asp) for (T n : nr) for (T f : fr)
        for (int was_ortho = 0; was_ortho < 2; ++was_ortho)
        {
            ++cases;
            Frustum<T> U (T (7), T (9), T (-2), T (3), T (4), T (-5), was_ortho != 0), C (U);
            U.set (n, f, fx, fy, as);
            int  th   = run_checked ([&] { C.setExc (n, f, fx, fy, as); });
            bool both = (fx != T (0) && fy != T (0));
            std::string in = Msg () << "setExc(near=" << n << ", far=" << f << ", fovx=" << fx << ", fovy=" << fy << ", aspect=" << as << ") from orthographic=" << (was_ortho != 0);
            if (th == NONE)
            {
                bool eq = same_bits (U.nearPlane (), C.nearPlane ()) && same_bits (U.farPlane (), C.farPlane ()) && same_bits (U.left (), C.left ()) &&
                          same_bits (U.right (), C.right ()) && same_bits (U.top (), C.top ()) && same_bits (U.bottom (), C.bottom ()) && U.orthographic () == C.orthographic ();
                if (!eq) C0X_FAIL (op + ".state-bitwise-vs-set", in, "state after set()", "different state");
                // documented: "fovx and fovy cannot both be non-zero"
                if (both) C0X_FAIL (op + ".no-throw-when-both-fov-nonzero", in, "std::domain_error", "returned");
            }
            else
            {
                ++threw;
                if (th != DOMAIN_ERROR) C0X_FAIL (op + ".exception-type", in, "std::domain_error", thrown_name (th));
                if (!both) C0X_FAIL (op + ".throws-with-one-fov-zero", in, "no exception", thrown_name (th));
            }
        }
}

template <class T> void frustum_stages ()
{
    const std::string tn = tname<T> ();
    if (R ().stage ("frustum.guards." + tn))
    {
        uint64_t n = 0;
        bool ok = guard_sweep<T> (n);
        std::string w = "guard families F1-F8: (denominator, numerator) = (a, b) over A x B(a), both signs, 2 base frusta: " + std::to_string (n) + " frusta";
        if (ok) R ().stage_done (w); else R ().stage_partial (w);
    }
    if (R ().stage ("frustum.setExc." + tn))
    {
        long long c = 0, th = 0;
        set_exc<T> (c, th);
        R ().add ("states", c); R ().add ("transitions", c); R ().add ("evaluations", c);
        R ().cls ("setExc.both-fov-nonzero(throws)", th);
        R ().cls ("setExc.returns.generic", c - th);
        R ().stage_done ("fovx, fovy in 9 values x aspect 7 x near 5 x far 3 x previous orthographic flag = " + std::to_string (c) + " calls");
    }
    if (R ().stage ("frustum.pairs." + tn))
    {
        uint64_t n = 0, nv = 0;
        bool ok = pair_sweep<T> (n, nv);
        std::string w = "every pair of the six frustum parameters over the signed boundary alphabet (" + std::to_string (nv) + " x " + std::to_string (nv) + ") x 15 pairs x 2 base frusta x {perspective, orthographic}: " +
                        std::to_string (n) + " frusta, every operation over its argument alphabet";
        if (ok) R ().stage_done (w); else R ().stage_partial (w);
    }
}

} // namespace

void stage_frustum ()
{
    frustum_stages<float> ();
    frustum_stages<double> ();
    Frustum<float> F (1.f, 8.f, 0.f, std::ldexp (1.f, -127), 1.5f, -0.5f, true);
    int th1 = run_checked ([&] { (void) F.projectionMatrixExc (); });
    Frustum<float> G (1.f, 8.f, 0.f, std::ldexp (1.f, -127) + std::numeric_limits<float>::denorm_min (), 1.5f, -0.5f, true);
    int th2 = run_checked ([&] { (void) G.projectionMatrixExc (); });
    R ().sample (std::string ("orthographic Frustumf right-left = 2^-127: projectionMatrixExc ") + thrown_name (th1) + "; right-left = 2^-127+2^-149: " + thrown_name (th2));
}

} // namespace c07
