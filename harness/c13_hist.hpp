// C13 — histories: explicit-state breadth-first search over the REAL extendBy(point) / extendBy(box)
// transition functions, from {default-constructed, makeEmpty(), every non-empty lattice box}.
// Model = bounding box of the union of everything added so far (empty set: nothing added).
// Canonical key = (min,max) of the object, which is its complete state (two public members, no
// hidden fields). Soundness of de-duplicating on it: the invariant checked on every transition is
// impl == model, and bbox(A u B) = bbox(bbox(A) u B), so the model's future depends on its past only
// through its bounding box, i.e. through the key. A transition whose result differs from the model is
// reported and NOT expanded further. When the frontier becomes empty before the depth bound, every
// history of ANY length over the alphabet has been covered.
#pragma once
#include "c13_common.hpp"

namespace c13 {

struct HModel
{
    bool empty = true;
    int  mn[4] = {0, 0, 0, 0}, mx[4] = {0, 0, 0, 0};
};

template <class V> struct HLat
{
    typedef Shape<V> S;
    enum { D = S::D };
    static uint32_t NSTATE () { return (uint32_t) ex::ipow (36, D); } // id NSTATE = the empty set
    static uint32_t key (const HModel& m)
    {
        if (m.empty) return NSTATE ();
        uint32_t k = 0, mul = 1;
        for (int i = 0; i < D; ++i) { k += mul * (uint32_t) ((m.mn[i] + 1) + 6 * (m.mx[i] + 1)); mul *= 36; }
        return k;
    }
    static HModel unkey (uint32_t k)
    {
        HModel m;
        if (k == NSTATE ()) return m;
        m.empty = false;
        for (int i = 0; i < D; ++i) { int d = (int) (k % 36); k /= 36; m.mn[i] = d % 6 - 1; m.mx[i] = d / 6 - 1; }
        return m;
    }
};

template <class V> inline bool matches (const typename Shape<V>::Box& b, const HModel& m)
{
    typedef Shape<V> S;
    if (m.empty) return canonical_empty<V> (b);
    for (int i = 0; i < S::D; ++i)
        if (S::at (b.min, i) != (typename S::T) m.mn[i] || S::at (b.max, i) != (typename S::T) m.mx[i]) return false;
    return true;
}
template <class V> inline typename Shape<V>::Box realise (const HModel& m)
{
    if (m.empty) return typename Shape<V>::Box ();
    return mkbox<V> (m.mn, m.mx);
}
inline std::string mstr (const HModel& m, int D)
{
    if (m.empty) return "{}";
    std::string s = "[";
    for (int i = 0; i < D; ++i) s += (i ? "," : "") + std::to_string (m.mn[i]);
    s += "]..[";
    for (int i = 0; i < D; ++i) s += (i ? "," : "") + std::to_string (m.mx[i]);
    return s + "]";
}

template <class V, class G> bool hist_one (bool thorough, int maxdepth)
{
    typedef Shape<V>        S;
    typedef HLat<V>         HL;
    typedef typename S::Box B;
    typedef typename Shape<G>::Box GB;
    const bool twin = !std::is_same<V, G>::value;
    const int  D = S::D;
    const std::string K = S::kind ();
    auto& R = vf::R ();

    // ---- operation alphabet -------------------------------------------------------------------------
    struct Op { bool isbox; HModel arg; }; // point: arg.mn == arg.mx ; box: arg (possibly empty)
    std::vector<Op> ops;
    // points {-1..4}^D; quick tier in 4-D: {0..3}^4 (the 4-D instantiation is the same generic template that is
    // explored over the full alphabet in 2-D/3-D through G2/G3; thorough does the full 4-D alphabet)
    const bool small4 = D == 4 && !thorough;
    const int  NC = small4 ? 4 : 6, C0 = small4 ? 0 : -1;
    const uint64_t NP = ex::ipow (NC, D);
    for (uint64_t p = 0; p < NP; ++p)
    {
        Op o; o.isbox = false; o.arg.empty = false;
        ex::decode (p, NC, D, o.arg.mn, C0);
        for (int i = 0; i < D; ++i) o.arg.mx[i] = o.arg.mn[i];
        ops.push_back (o);
    }
    std::vector<HModel> lattice_boxes; // every non-empty lattice box, coordinates {0..3}
    for (uint64_t b = 0; b < ex::ipow (16, D); ++b)
    {
        HModel m; m.empty = false; uint64_t x = b; bool ok = true, reduced = true;
        for (int i = 0; i < D; ++i) { int d = (int) (x % 16); x /= 16; m.mn[i] = d % 4; m.mx[i] = d / 4; ok = ok && m.mn[i] <= m.mx[i];
            int c = m.mn[i] * 4 + m.mx[i]; reduced = reduced && (c == 0 || c == 3 || c == 6 || c == 15); } // (0,0),(0,3),(1,2),(3,3)
        if (!ok) continue;
        lattice_boxes.push_back (m);
        // 4-D quick tier: box arguments restricted to per-axis (0,0),(0,3),(1,2),(3,3) (points stay complete)
        if (D == 4 && !thorough && !reduced) continue;
        Op o; o.isbox = true; o.arg = m; ops.push_back (o);
    }
    { Op o; o.isbox = true; o.arg = HModel (); ops.push_back (o); } // the empty box as argument: adds nothing
    const size_t NOPS = ops.size ();

    // ---- start states ---------------------------------------------------------------------------------
    std::vector<std::atomic<uint8_t>> visited (HL::NSTATE () + 1);
    for (auto& v : visited) v = 0;
    std::vector<uint32_t> frontier;
    {
        B dflt; const int one[4] = {1, 1, 1, 1}, two[4] = {2, 2, 2, 2};
        B me = mkbox<V> (one, two); me.makeEmpty ();
        HModel em;
        if (!matches<V> (dflt, em)) R.fail (K + "::Box().start-state", S::name (), "min=MAX max=LOWEST", bstr<V> (dflt));
        if (!matches<V> (me, em)) R.fail (K + "::makeEmpty.start-state", S::name (), "min=MAX max=LOWEST", bstr<V> (me));
        visited[HL::NSTATE ()] = 1; frontier.push_back (HL::NSTATE ());
        for (auto& m : lattice_boxes) { uint32_t k = HL::key (m); if (!visited[k].exchange (1)) frontier.push_back (k); }
    }
    long long nstates = (long long) frontier.size ();
    std::atomic<long long> trans (0), c_fromempty (0), c_nochange (0), c_growmin (0), c_growmax (0), c_emptyarg (0);
    int  depth = 0;
    bool complete = true, fixpoint = false;
    std::mutex mu;
    while (depth < maxdepth && !frontier.empty ())
    {
        ++depth;
        std::vector<uint32_t> next;
        bool ok = vf::parallel_chunks (frontier.size (), D >= 4 ? 64 : 16, [&] (uint64_t lo, uint64_t hi, unsigned) {
            std::vector<uint32_t> local;
            long long l_fe = 0, l_nc = 0, l_gmin = 0, l_gmax = 0, l_ea = 0;
            for (uint64_t f = lo; f < hi; ++f)
            {
                const HModel st = HL::unkey (frontier[f]);
                const B      b0 = realise<V> (st);
                const GB     g0 = realise<G> (st);
                for (size_t oi = 0; oi < NOPS; ++oi)
                {
                    const Op& o = ops[oi];
                    // model: bounding box of the union
                    HModel want = st;
                    bool gmin = false, gmax = false;
                    if (!o.arg.empty)
                    {
                        if (st.empty) want = o.arg;
                        else for (int i = 0; i < D; ++i)
                        {
                            if (o.arg.mn[i] < want.mn[i]) { want.mn[i] = o.arg.mn[i]; gmin = true; }
                            if (o.arg.mx[i] > want.mx[i]) { want.mx[i] = o.arg.mx[i]; gmax = true; }
                        }
                    }
                    // real transition
                    B  nb = b0;
                    GB ng = g0;
                    if (o.isbox)
                    {
                        nb.extendBy (realise<V> (o.arg));
                        if (twin) ng.extendBy (realise<G> (o.arg));
                    }
                    else
                    {
                        nb.extendBy (mkpt<V> (o.arg.mn));
                        if (twin) ng.extendBy (mkpt<G> (o.arg.mn));
                    }
                    const char* what = o.isbox ? (o.arg.empty ? "::extendBy(Box).empty-argument" : "::extendBy(Box)") : "::extendBy(point)";
                    bool good = matches<V> (nb, want);
                    if (!good)
                        vf::R ().fail (K + what, "state=" + bstr<V> (b0) + " arg=" + mstr (o.arg, D), mstr (want, D), bstr<V> (nb));
                    if (twin && !same_box<V, G> (nb, ng))
                        vf::R ().fail (std::string ("generic-vs-specialisation") + (o.isbox ? ".extendBy(Box)" : ".extendBy(point)"),
                                       "state=" + bstr<V> (b0) + " arg=" + mstr (o.arg, D), bstr<V> (nb), bstr<G> (ng));
                    if (o.arg.empty) ++l_ea;
                    else if (st.empty) ++l_fe;
                    else { if (gmin) ++l_gmin; if (gmax) ++l_gmax; if (!gmin && !gmax) ++l_nc; }
                    if (good)
                    {
                        uint32_t k = HL::key (want);
                        if (!visited[k].load (std::memory_order_relaxed) && !visited[k].exchange (1)) local.push_back (k);
                    }
                }
            }
            trans += (long long) (hi - lo) * (long long) NOPS * (twin ? 2 : 1);
            c_fromempty += l_fe; c_nochange += l_nc; c_growmin += l_gmin; c_growmax += l_gmax; c_emptyarg += l_ea;
            std::lock_guard<std::mutex> g (mu);
            next.insert (next.end (), local.begin (), local.end ());
        });
        if (!ok) { complete = false; break; }
        std::sort (next.begin (), next.end ()); // deterministic order whatever the thread schedule was
        nstates += (long long) next.size ();
        frontier.swap (next);
    }
    if (complete && frontier.empty ()) fixpoint = true;
    // every state visited is, by construction, a non-inverted box or the canonical empty box; cross-check the
    // closed-form count of what must be reachable: every box over {-1..4} with min<=max, plus the empty set
    if (fixpoint)
    {
        long long expect = (long long) ex::ipow (NC * (NC + 1) / 2, D) + 1;
        if (nstates != expect) R.fail (K + "::extendBy.reachable-set", S::name (), std::to_string (expect) + " states", std::to_string (nstates));
    }
    R.add ("states", nstates);
    R.add ("transitions", trans.load ());
    R.add ("evaluations", trans.load ());
    R.add ("history_states", nstates);
    if (is_half<typename S::T>::value) R.cls ("half.histories.transitions", trans.load ());
    R.cls ("extend.from-empty-set", c_fromempty); R.cls ("extend.argument-already-inside", c_nochange);
    R.cls ("extend.lowers-min", c_growmin); R.cls ("extend.raises-max", c_growmax); R.cls ("extend.empty-argument", c_emptyarg);
    R.note ("histories " + S::name (), std::string (fixpoint ? "fixpoint (all history lengths) reached at depth " : "explored to depth ") +
                std::to_string (depth) + ", " + std::to_string (nstates) + " states, " + std::to_string (NOPS) + " operations per state");
    return complete;
}

template <class T> bool run_histories (bool thorough)
{
    const int depth = thorough ? 5 : 4;
    bool ok = true;
    ok &= hist_one<T, T> (thorough, depth);
    ok &= hist_one<Vec2<T>, G2<T>> (thorough, depth);
    ok &= hist_one<Vec3<T>, G3<T>> (thorough, depth);
    ok &= hist_one<Vec4<T>, Vec4<T>> (thorough, depth);
    return ok;
}

} // namespace c13
