/* C02 — the one translation unit that is compiled, from the current tree, once per build
 * configuration (language C99/C11/C++14/17/20 x compiler x back-end flags x -O level) into a
 * shared object. It contains nothing but loops over the two conversion entry points of half.h,
 * so whatever #if branch / language path the configuration selects is what gets executed.
 *
 * Must stay valid C99 *and* valid C++14. No dependency on the engine headers.
 */
#include <half.h>
#include <stdint.h>
#include <string.h>

#ifdef __cplusplus
#    define C02_API extern "C" __attribute__ ((visibility ("default")))
#else
#    define C02_API __attribute__ ((visibility ("default")))
#endif

/* out[i-lo] = float->half of the float whose bit pattern is i, lo <= i < hi (i < 2^32) */
C02_API void
f2h_block (uint64_t lo, uint64_t hi, uint16_t* out)
{
    uint64_t i;
    for (i = lo; i < hi; ++i)
    {
        uint32_t u = (uint32_t) i;
        float    f;
        memcpy (&f, &u, 4);
#ifdef __cplusplus
        out[i - lo] = imath_float_to_half (f);
#else
        {
            half h      = imath_float_to_half (f); /* the C-only typedef */
            out[i - lo] = h;
        }
#endif
    }
}

/* out[i-lo] = bit pattern of half->float of the half pattern i, lo <= i < hi (i < 2^16) */
C02_API void
h2f_block (uint64_t lo, uint64_t hi, uint32_t* out)
{
    uint64_t i;
    for (i = lo; i < hi; ++i)
    {
        uint32_t u;
        float    f;
#ifdef __cplusplus
        f = imath_half_to_float ((imath_half_bits_t) i);
#else
        half h = (half) i;
        f      = imath_half_to_float (h);
#endif
        memcpy (&u, &f, 4);
        out[i - lo] = u;
    }
}

#ifdef __cplusplus
/* the same two sweeps through the C++ class (constructor / cast operator) */
C02_API void
f2h_block_class (uint64_t lo, uint64_t hi, uint16_t* out)
{
    for (uint64_t i = lo; i < hi; ++i)
    {
        uint32_t u = (uint32_t) i;
        float    f;
        memcpy (&f, &u, 4);
        IMATH_INTERNAL_NAMESPACE::half h (f);
        out[i - lo] = h.bits ();
    }
}

C02_API void
h2f_block_class (uint64_t lo, uint64_t hi, uint32_t* out)
{
    for (uint64_t i = lo; i < hi; ++i)
    {
        IMATH_INTERNAL_NAMESPACE::half h;
        h.setBits ((uint16_t) i);
        float    f = h;
        uint32_t u;
        memcpy (&u, &f, 4);
        out[i - lo] = u;
    }
}
#endif

/* What this object was really compiled as (checked by the driver against the configuration's
 * name, so that a flag that silently did not take effect cannot make two "different"
 * configurations the same one). The branch label here is informational only; the driver
 * establishes the selected branch independently from the object code (table symbol referenced /
 * vcvtps2ph present). */
#define C02_STR2(x) #x
#define C02_STR(x) C02_STR2 (x)
C02_API const char*
c02_describe (void)
{
    return
#ifdef __cplusplus
        "lang=c++ std=" C02_STR (__cplusplus)
#else
        "lang=c std=" C02_STR (__STDC_VERSION__)
#endif
#if defined(__clang__)
            " compiler=clang"
#elif defined(__GNUC__)
            " compiler=gcc"
#else
            " compiler=other"
#endif
#ifdef __OPTIMIZE__
            " optimize=1"
#else
            " optimize=0"
#endif
#ifdef __F16C__
            " f16c=1"
#else
            " f16c=0"
#endif
#ifdef IMATH_HALF_USE_LOOKUP_TABLE
            " use_lut=1"
#else
            " use_lut=0"
#endif
#ifdef IMATH_HALF_NO_LOOKUP_TABLE
            " no_lut=1"
#else
            " no_lut=0"
#endif
#ifdef IMATH_HALF_ENABLE_FP_EXCEPTIONS
            " fpexc=1"
#else
            " fpexc=0"
#endif
        ;
}
