// C04: converting constructors / setValue / getValue / mixed-type == for Vec3 over every ordered pair of element types
#include "c04.hpp"
namespace c04 {
template <class T, class S> static void pair (Jobs& jobs)
{
    C04_JOB (ST_LAYOUT, (convert_ctor<Vec3<T>, Vec3<S>> (t)); (convert_setget<Vec3<T>, Vec3<S>> (t)));
    C04_JOB (ST_EQ, (eq_hetero<Vec3<T>, Vec3<S>> (t)));
}
#define C04_VEC_ELEMS(X) X (short) X (int) X (int64_t) X (half) X (float) X (double)
template <class T, class S> static void maybe (Jobs& jobs, std::false_type) { pair<T, S> (jobs); }
template <class T, class S> static void maybe (Jobs&, std::true_type) {}
template <class T> static void all_sources (Jobs& jobs)
{
#define C04_X(S) maybe<T, S> (jobs, std::is_same<T, S> ());
    C04_VEC_ELEMS (C04_X)
#undef C04_X
}
void register_conv_vec3 (Jobs& jobs)
{
#define C04_X(T) all_sources<T> (jobs);
    C04_VEC_ELEMS (C04_X)
#undef C04_X
}
}
