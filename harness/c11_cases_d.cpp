// C11 — double instantiation of the per-case checks
#include "c11_cases.hpp"
namespace c11 { void stage_cases_double () { run_cases<double> (); } }
