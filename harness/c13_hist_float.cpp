// C13 history (BFS) stage, element type float
#include "c13_hist.hpp"
namespace c13 { template bool run_histories<float> (bool); }
