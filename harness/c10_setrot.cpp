// C10, stage "set-rotation": Quat::setRotation(from,to) and rotationMatrix(from,to).
//
// Enumerated: all 26 x 26 ordered pairs of lattice directions {-1,0,1}^3 \ 0 (13 x 2 exactly antipodal pairs, all
// pairs at more than 90 degrees, all parallel pairs), each operand scaled by {1, 1e-20, 1e20} (9 combinations);
// and the nearly antipodal families  to = -from + 10^-j * p  and  from = -to + 10^-j * p  for every lattice
// direction p perpendicular to the other operand, j = 1..16 (formed in T arithmetic, so for large j the pair
// degenerates into an exactly antipodal one -- counted separately).
//
// Added (audit2 S2): the nearly PARALLEL families  to = from + 10^-j * p  (both orders), j = 1..16, p every lattice direction
// perpendicular to from, and the integer pairs (k,0,0)~(k,1,0) (all axis permutations and signs) with cosine 0.894 (k=2),
// 0.990 (k=7), 0.999 (k=22), 0.99995 (k=100): class ".nearly-parallel" (for large j the pair degenerates into an exactly
// parallel one -- counted separately). Added (audit2 S4): to = -from + delta*p with delta = m * 8 eps |from|/|p|, m in
// {1/2, 3/4, 1-2^-10, 1-2^-20, 1, 1+2^-20, 1+2^-10, 5/4, 2, 4}: |f0+t0|^2 just below, at and just above the 64 eps^2 switch of
// setRotation between the two-step construction and the antipodal fall-back (exactly so for axis-aligned from and p);
// both sides must carry from^ onto to^ to the same 32 eps: class ".at-antipodal-switch".
//
// Demanded (property statement + the comment block of setRotation): the result is a unit quaternion; the rotation
// it describes carries from/|from| onto to/|to|; for non-parallel pairs the axis is along from x to.
// The reference directions are computed in long double from the T-valued operands, and the rotation is applied in
// long double (q v q* / |q|^2), so only setRotation itself is measured.
// Tolerances, a priori: one setRotationInternal step (angle <= 90 degrees) builds h = (f0+t0)^ with |f0+t0| >= sqrt 2
// from unit vectors known to 1.75 eps: q = (f0.h, f0 x h) to ~5.5 eps per component, the image of f0 is 2(f0.h)h - f0:
// <= 2*5.5*sqrt(3) ~ 19 eps in the worst case; the two-step path composes two such rotations about (nearly) the same
// axis. DESIGN.md fixes 32 eps for "from^ rotated = to^" (a probe measured 6.1 eps worst) and 16 eps on |q| - 1
// (|q|^2 = |f0|^2 |h|^2 -> 7 eps per step).
#include "c10_common.hpp"
#include <array>

namespace c10 {
namespace {
using vf::R;

struct Tally
{
    long long near_par = 0, near_par_degenerated = 0, cos_family = 0, sw_below = 0, sw_at = 0, sw_above = 0;
    double    w_carry_par = 0;
    long long states = 0, trans = 0, par = 0, le90 = 0, gt90 = 0, anti = 0, near_anti = 0, near_degenerated = 0, scaled_small = 0, scaled_big = 0, anti_unequal = 0;
    double w_carry = 0, w_unit = 0, w_axis = 0, w_carry_near = 0;
};
inline void mx (double& a, LD v) { if ((double) v > a) a = (double) v; }
inline bool unit3 (const LD* a, LD* r)
{
    LD l = sqrtl (a[0] * a[0] + a[1] * a[1] + a[2] * a[2]);
    if (!(l > 0)) return false;
    r[0] = a[0] / l; r[1] = a[1] / l; r[2] = a[2] / l;
    return true;
}

// returns worst carry error in eps
template <class T> LD check_pair (Tally& tl, const Vec3<T>& from, const Vec3<T>& to, const std::string& in, const std::string& cls, bool check_axis)
{
    const LD e = EPS<T> ();
    LD f[3] = {(LD) from.x, (LD) from.y, (LD) from.z}, t[3] = {(LD) to.x, (LD) to.y, (LD) to.z}, fh[3], th[3];
    unit3 (f, fh);
    unit3 (t, th);
    Quat<T>  q;
    Quat<T>& ret = q.setRotation (from, to);
    ++tl.trans;
    if (&ret != &q) R ().fail (site<T> ("Quat", "setRotation.returns-this"), in);
    Q  qr = toQ (q);
    LD nd = fabsl (qnorm (qr) - 1);
    if (!qfinite (qr) || !(nd <= 16 * e)) R ().fail (site<T> ("Quat", "setRotation.unit" + cls), in, "|q| = 1 to 16 eps", qs (q));
    else mx (tl.w_unit, nd / e);
    LD img[3] = {0, 0, 0}, d = 1e30L;
    if (qfinite (qr) && qnorm (qr) > 0)
    {
        qrot (qr, fh, img);
        d = std::max (fabsl (img[0] - th[0]), std::max (fabsl (img[1] - th[1]), fabsl (img[2] - th[2])));
    }
    if (!(d <= 32 * e)) R ().fail (site<T> ("Quat", "setRotation.carries-from^-onto-to^" + cls), in, ld3 (th) + " to 32 eps", ld3 (img) + " q=" + qs (q));
    // rotationMatrix(from,to): from^ * M = to^, orthonormal
    Matrix44<T> M = rotationMatrix (from, to);
    ++tl.trans;
    LD dm = 0, orth = 0;
    for (int j = 0; j < 3; ++j)
    {
        LD s = fh[0] * (LD) M.x[0][j] + fh[1] * (LD) M.x[1][j] + fh[2] * (LD) M.x[2][j];
        dm   = std::max (dm, fabsl (s - th[j]));
    }
    for (int i = 0; i < 3; ++i)
        for (int k = i; k < 3; ++k)
        {
            LD s = 0;
            for (int j = 0; j < 3; ++j) s += (LD) M.x[i][j] * (LD) M.x[k][j];
            orth = std::max (orth, fabsl (s - (i == k ? 1 : 0)));
        }
    if (!(dm <= 32 * e)) R ().fail (site<T> ("rotationMatrix", "from^*M=to^" + cls), in, ld3 (th) + " to 32 eps", mat_str (M.x));
    if (!(orth <= 32 * e) || !(M.x[0][3] == 0 && M.x[1][3] == 0 && M.x[2][3] == 0 && M.x[3][0] == 0 && M.x[3][1] == 0 && M.x[3][2] == 0 && M.x[3][3] == 1))
        R ().fail (site<T> ("rotationMatrix", "orthonormal-affine" + cls), in, "R R^T = I to 32 eps, affine part (0,0,0,1)", mat_str (M.x));
    if (check_axis)
    {
        LD n[3] = {fh[1] * th[2] - fh[2] * th[1], fh[2] * th[0] - fh[0] * th[2], fh[0] * th[1] - fh[1] * th[0]}, nh[3], v[3] = {qr.x, qr.y, qr.z}, vh[3];
        LD sinphi = sqrtl (n[0] * n[0] + n[1] * n[1] + n[2] * n[2]);
        if (unit3 (n, nh) && unit3 (v, vh))
        {
            LD da = std::max (fabsl (vh[0] - nh[0]), std::max (fabsl (vh[1] - nh[1]), fabsl (vh[2] - nh[2])));
            mx (tl.w_axis, da * sinphi / e);
            if (!(da <= 64 * e / sinphi)) R ().fail (site<T> ("Quat", "setRotation.axis-along-from-x-to"), in, ld3 (nh) + " to 64 eps/sin", ld3 (vh));
        }
        else R ().fail (site<T> ("Quat", "setRotation.axis-along-from-x-to"), in, "non-zero vector part", qs (q));
    }
    return std::max (d, dm) / e;
}

template <class T> void run (Tally& tl)
{
    const LD     scales[3] = {1, 1e-20L, 1e20L};
    const char*  sname[3]  = {"", "*1e-20", "*1e20"};
    std::vector<std::array<int, 3>> dirs;
    for (int i = 0; i < 27; ++i)
    {
        int a[3];
        ex::decode ((uint64_t) i, 3, 3, a, -1);
        if (a[0] || a[1] || a[2]) dirs.push_back ({{a[0], a[1], a[2]}});
    }
    for (auto& f : dirs)
        for (auto& t : dirs)
        {
            int  dot = f[0] * t[0] + f[1] * t[1] + f[2] * t[2];
            int  c[3] = {f[1] * t[2] - f[2] * t[1], f[2] * t[0] - f[0] * t[2], f[0] * t[1] - f[1] * t[0]};
            bool par = (c[0] == 0 && c[1] == 0 && c[2] == 0);
            for (int si = 0; si < 3; ++si)
                for (int sj = 0; sj < 3; ++sj)
                {
                    ++tl.states;
                    if (par && dot > 0) ++tl.par; else if (par) ++tl.anti; else if (dot >= 0) ++tl.le90; else ++tl.gt90;
                    if (si == 1 || sj == 1) ++tl.scaled_small;
                    if (si == 2 || sj == 2) ++tl.scaled_big;
                    T sf = (T) scales[si], st = (T) scales[sj];
                    Vec3<T> from ((T) f[0] * sf, (T) f[1] * sf, (T) f[2] * sf), to ((T) t[0] * st, (T) t[1] * st, (T) t[2] * st);
                    int fi[3] = {f[0], f[1], f[2]}, ti[3] = {t[0], t[1], t[2]};
                    std::string in = "from=" + i3 (fi) + sname[si] + " to=" + i3 (ti) + sname[sj];
                    // input class in the site (predicates on the input only):
                    //  * float operands scaled by 1e20: from.dot(from) = 3e40 is not representable in float
                    //  * opposite directions with different magnitudes: from^ + to^ need not cancel exactly
                    //  * opposite directions, same magnitude: to == -from exactly
                    const bool fovf = std::is_same<T, float>::value && (si == 2 || sj == 2);
                    std::string cls = fovf ? ".float-operand-scaled-1e20" : (par && dot < 0 && si != sj) ? ".opposite-directions-unequal-magnitude" : (par && dot < 0) ? ".exactly-antipodal" : "";
                    if (par && dot < 0 && si != sj) ++tl.anti_unequal;
                    LD w = check_pair<T> (tl, from, to, in, cls, !par && si == 0 && sj == 0);
                    if (!fovf && !(par && dot < 0 && si != sj)) mx (tl.w_carry, w);
                }
        }
    // exactly opposite directions, unequal magnitudes: to = -k * from (every component of `from` has the same
    // magnitude or is zero, so -k*from is exactly opposite whatever k rounds to)
    for (auto& f : dirs)
        for (LD k : {2.0L, 3.0L, 5.0L, 7.0L, 10.0L, 0.1L, 1.0L / 3, 1e-3L, 1e5L})
            for (int order = 0; order < 2; ++order)
            {
                T kt = (T) k;
                Vec3<T> a ((T) f[0], (T) f[1], (T) f[2]), b (-kt * (T) f[0], -kt * (T) f[1], -kt * (T) f[2]);
                ++tl.states; ++tl.anti_unequal;
                int fi[3] = {f[0], f[1], f[2]};
                std::string nm = "-" + vf::fmt (kt) + "*" + i3 (fi);
                std::string in = order == 0 ? "from=" + i3 (fi) + " to=" + nm : "from=" + nm + " to=" + i3 (fi);
                if (order == 0) check_pair<T> (tl, a, b, in, ".opposite-directions-unequal-magnitude", false);
                else check_pair<T> (tl, b, a, in, ".opposite-directions-unequal-magnitude", false);
            }
    // nearly antipodal families
    for (auto& f : dirs)
        for (auto& p : dirs)
        {
            if (f[0] * p[0] + f[1] * p[1] + f[2] * p[2] != 0) continue;
            for (int j = 1; j <= 16; ++j)
                for (int order = 0; order < 2; ++order)
                {
                    T d = (T) powl (10.0L, -j);
                    Vec3<T> a ((T) f[0], (T) f[1], (T) f[2]);
                    Vec3<T> b ((T) -f[0] + d * (T) p[0], (T) -f[1] + d * (T) p[1], (T) -f[2] + d * (T) p[2]);
                    bool degenerated = (b.x == -a.x && b.y == -a.y && b.z == -a.z);
                    ++tl.states;
                    if (degenerated) ++tl.near_degenerated; else ++tl.near_anti;
                    int fi[3] = {f[0], f[1], f[2]}, pi[3] = {p[0], p[1], p[2]};
                    std::string nm = "-" + i3 (fi) + "+1e-" + std::to_string (j) + "*" + i3 (pi) + "=" + v3 (b);
                    std::string in = order == 0 ? "from=" + i3 (fi) + " to=" + nm : "from=" + nm + " to=" + i3 (fi);
                    LD w = order == 0 ? check_pair<T> (tl, a, b, in, degenerated ? ".exactly-antipodal" : ".nearly-antipodal", false)
                                      : check_pair<T> (tl, b, a, in, degenerated ? ".exactly-antipodal" : ".nearly-antipodal", false);
                    mx (tl.w_carry_near, w);
                }
        }
    // nearly parallel families (audit2 S2)
    for (auto& f : dirs)
        for (auto& p : dirs)
        {
            if (f[0] * p[0] + f[1] * p[1] + f[2] * p[2] != 0) continue;
            for (int j = 1; j <= 16; ++j)
                for (int order = 0; order < 2; ++order)
                {
                    T d = (T) powl (10.0L, -j);
                    Vec3<T> a ((T) f[0], (T) f[1], (T) f[2]);
                    Vec3<T> b ((T) f[0] + d * (T) p[0], (T) f[1] + d * (T) p[1], (T) f[2] + d * (T) p[2]);
                    bool degenerated = (b.x == a.x && b.y == a.y && b.z == a.z);
                    ++tl.states;
                    if (degenerated) ++tl.near_par_degenerated; else ++tl.near_par;
                    int fi[3] = {f[0], f[1], f[2]}, pi[3] = {p[0], p[1], p[2]};
                    std::string nm = i3 (fi) + "+1e-" + std::to_string (j) + "*" + i3 (pi) + "=" + v3 (b);
                    std::string in = order == 0 ? "from=" + i3 (fi) + " to=" + nm : "from=" + nm + " to=" + i3 (fi);
                    // the axis is resolved only while the cross product is well above the rounding of the operands
                    LD w = order == 0 ? check_pair<T> (tl, a, b, in, ".nearly-parallel", !degenerated && j <= 3) : check_pair<T> (tl, b, a, in, ".nearly-parallel", !degenerated && j <= 3);
                    mx (tl.w_carry_par, w);
                }
        }
    for (int k : {2, 7, 22, 100})
        for (int ax = 0; ax < 3; ++ax)
            for (int ay = 0; ay < 3; ++ay)
            {
                if (ax == ay) continue;
                for (int sg = 0; sg < 4; ++sg)
                    for (int order = 0; order < 2; ++order)
                    {
                        int fa[3] = {0, 0, 0}, fb[3] = {0, 0, 0};
                        fa[ax] = (sg & 1) ? -k : k;
                        fb[ax] = fa[ax]; fb[ay] = (sg & 2) ? -1 : 1;
                        Vec3<T> a ((T) fa[0], (T) fa[1], (T) fa[2]), b ((T) fb[0], (T) fb[1], (T) fb[2]);
                        ++tl.states; ++tl.cos_family;
                        std::string in = order == 0 ? "from=" + i3 (fa) + " to=" + i3 (fb) : "from=" + i3 (fb) + " to=" + i3 (fa);
                        LD w = order == 0 ? check_pair<T> (tl, a, b, in, ".nearly-parallel", true) : check_pair<T> (tl, b, a, in, ".nearly-parallel", true);
                        mx (tl.w_carry_par, w);
                    }
            }
    // the 64 eps^2 switch between the two-step construction and the antipodal fall-back (audit2 S4)
    {
        const LD e  = EPS<T> ();
        const LD ms[10] = {0.5L, 0.75L, 1 - ldexpl (1, -10), 1 - ldexpl (1, -20), 1, 1 + ldexpl (1, -20), 1 + ldexpl (1, -10), 1.25L, 2, 4};
        for (auto& f : dirs)
            for (auto& p : dirs)
            {
                if (f[0] * p[0] + f[1] * p[1] + f[2] * p[2] != 0) continue;
                LD nf = sqrtl ((LD) (f[0] * f[0] + f[1] * f[1] + f[2] * f[2])), np = sqrtl ((LD) (p[0] * p[0] + p[1] * p[1] + p[2] * p[2]));
                for (LD m : ms)
                    for (int order = 0; order < 2; ++order)
                    {
                        T d = (T) (m * 8 * e * nf / np);
                        Vec3<T> a ((T) f[0], (T) f[1], (T) f[2]);
                        Vec3<T> b ((T) -f[0] + d * (T) p[0], (T) -f[1] + d * (T) p[1], (T) -f[2] + d * (T) p[2]);
                        ++tl.states;
                        (m < 1 ? tl.sw_below : m == 1 ? tl.sw_at : tl.sw_above)++;
                        int fi[3] = {f[0], f[1], f[2]}, pi[3] = {p[0], p[1], p[2]};
                        std::string nm = "-" + i3 (fi) + "+" + vf::fmt ((double) m) + "*8eps*|from|/|p|*" + i3 (pi) + "=" + v3 (b);
                        std::string in = order == 0 ? "from=" + i3 (fi) + " to=" + nm : "from=" + nm + " to=" + i3 (fi);
                        LD w = order == 0 ? check_pair<T> (tl, a, b, in, ".at-antipodal-switch", false) : check_pair<T> (tl, b, a, in, ".at-antipodal-switch", false);
                        mx (tl.w_carry_near, w);
                    }
            }
    }
}

} // namespace

void run_setrotation ()
{
    if (!R ().stage ("set-rotation")) return;
    Tally tl;
    run<float> (tl);
    run<double> (tl);
    R ().add ("states", tl.states); R ().add ("transitions", tl.trans); R ().add ("evaluations", tl.states);
    R ().cls ("pair.parallel", tl.par);
    R ().cls ("pair.angle<=90.generic", tl.le90);
    R ().cls ("pair.angle>90(two-step)", tl.gt90);
    R ().cls ("pair.exactly-antipodal", tl.anti);
    R ().cls ("pair.opposite-directions-unequal-magnitude", tl.anti_unequal);
    R ().cls ("pair.nearly-antipodal(10^-j)", tl.near_anti);
    R ().cls ("pair.nearly-antipodal-rounded-to-antipodal", tl.near_degenerated);
    R ().cls ("pair.nearly-parallel(10^-j)", tl.near_par);
    R ().cls ("pair.nearly-parallel-rounded-to-parallel", tl.near_par_degenerated);
    R ().cls ("pair.nearly-parallel.cos-0.894..0.99995-integer", tl.cos_family);
    R ().cls ("pair.antipodal-switch.|f0+t0|^2-below-64eps^2", tl.sw_below);
    R ().cls ("pair.antipodal-switch.|f0+t0|^2-at-64eps^2", tl.sw_at);
    R ().cls ("pair.antipodal-switch.|f0+t0|^2-above-64eps^2", tl.sw_above);
    R ().note_max ("setRotation: worst |image(from^) - to^| in eps on the nearly parallel families (bound 32)", tl.w_carry_par);
    R ().cls ("operand.scaled-1e-20", tl.scaled_small);
    R ().cls ("operand.scaled-1e20", tl.scaled_big);
    R ().note_max ("setRotation: worst |image(from^) - to^| in eps on lattice pairs, all scalings except float*1e20 and opposite-unequal-magnitude (bound 32)", tl.w_carry);
    R ().note_max ("setRotation: worst |image(from^) - to^| in eps on the nearly antipodal families (bound 32)", tl.w_carry_near);
    R ().note_max ("setRotation: worst ||q|-1| in eps (bound 16)", tl.w_unit);
    R ().note_max ("setRotation: worst axis deviation * sin(phi) in eps (bound 64)", tl.w_axis);
    R ().sample ("setRotation((1,1,0),(-1,-1,0)): exactly antipodal -> rotation by pi about an axis perpendicular to from");
    R ().sample ("setRotation((1,0,1), -(1,0,1)+1e-9*(0,1,0)): two-step construction");
    R ().stage_done ("setRotation / rotationMatrix on 26^2 ordered lattice direction pairs x 9 scalings {1,1e-20,1e20}^2, on to=-k*from (9 factors k, both orders) and on to=-from+10^-j*perp, from=-to+10^-j*perp, to=from+10^-j*perp (both orders), j=1..16, all perpendicular lattice directions; integer pairs with cosine 0.894..0.99995; to=-from+m*8eps*perp, 10 factors m around the antipodal switch; float and double");
}

} // namespace c10
