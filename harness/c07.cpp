// C07 — throwing and non-throwing variants of every operation agree (differential oracle).
//
// Every checked/unchecked pair of the library is run on the same input, over finite alphabets concentrated on
// both sides of every guard threshold (to the ulp), and the two outcomes are compared:
//   * the checked form returns  => its result is bit-identical to the unchecked form's;
//   * it throws                 => exactly the documented type (typeid: std::domain_error for Vec / Frustum /
//                                  ImathMatrixAlgo, std::invalid_argument for Matrix inversion) and the unchecked
//                                  form reports failure (zero vector / identity-for-singular / false / a quotient
//                                  that overflows or divides by zero), and vice versa;
//   * an overflow guard fires   => the exact quotient has magnitude >= max/4;
//   * well-conditioned input never throws.
// The pairs (one translation unit each):
//   c07_vec.cpp      normalize / normalizeExc / normalizeNonNull, normalized / normalizedExc / normalizedNonNull
//                    (Vec2/3/4), Vec3<T>(Vec4<S>,InfException) vs Vec3<T>(Vec4<S>) for (S,T) in {float,double}^2
//   c07_inv.cpp      inverse / invert / gjInverse / gjInvert, with and without singExc (Matrix22/33/44)
//   c07_frustum.cpp  all Frustum ...Exc methods and setExc
//   c07_algo.cpp     every ImathMatrixAlgo function with an exc flag, 3-D and 2-D, checkForZeroScaleInRow
#include "c07_common.hpp"
#include "c08_alpha.hpp"

int main (int argc, char** argv)
{
    vf::R ().property = "C07";
    vf::R ().parse (argc, argv);
    vf::R ().assume ("finite inputs only (no NaN / infinity in the arguments); a NaN result matches a NaN result regardless of sign/payload");
    vf::R ().assume ("harness compiled like the repository build (g++ -O2 -std=c++14, no FMA contraction, no -ffast-math)");
    c07::stage_vec3_from_vec4 ();
    c07::stage_inverse ();
    c07::stage_frustum ();
    c07::stage_decomposition ();
    c07::stage_normalize_family ();
    c08::flush_sites ();
    return vf::R ().finish ();
}
