// C14 double instantiations
#include "c14_ext.hpp"
namespace c14 { template bool run_lattice<double> (bool); template bool run_extreme<double> (bool); template bool run_rounding<double> (bool); template bool run_elongated<double> (bool); }
