// C09, stage "frames": alignZAxisWithTargetDir, rotationMatrixWithUpDir, rotationMatrix, computeLocalFrame,
// firstFrame / nextFrame / lastFrame on lattice directions and lattice point triples, float and double.
//
// What is demanded (statement of C09 + the functions' own documentation):
//   * alignZAxisWithTargetDir(result,target,up): rows = images of the x,y,z axes; row 2 = target^,
//     row 0 = (up x target)^, row 1 = (target x row0)^ (the comment block in the function); when target
//     or up is zero or the two are exactly parallel the result is still an orthonormal right-handed
//     frame, with row 2 = target^ whenever target != 0.
//   * rotationMatrixWithUpDir(from,to,up) = (frame of from with up (0,1,0))^T * (frame of to with up):
//     orthonormal, det +1, carries from^ onto to^ (to != 0), and carries the up-vector of the first frame
//     onto the up-vector of the second when neither frame is degenerate; valid frame in every degenerate case.
//   * rotationMatrix(from,to): rotation carrying from^ onto to^ (non-parallel pairs here; C10 sweeps the
//     antipodal families).
//   * computeLocalFrame(p,xDir,normal): "orthonormal direct frame", x = xDir^, y = (normal x x)^,
//     z = x x y (so z = normal^ when xDir is perpendicular to normal), origin p.
//   * firstFrame(pi,pj,pk): x = (pj-pi)^, y = (x x (pk-pi))^, z = x x y, origin pi; "if the two vectors are
//     colinear an arbitrary twist value will be chosen" (still a frame).
//   * nextFrame(Mi,pi,pj,ti,tj): Mi moved from pi to pj and rotated by the rotation carrying ti^ onto tj^
//     about ti x tj: orthonormal, origin pj, and (Mi's x axis being ti^) x axis = tj^.
//   * lastFrame(Mi,pi,pj): same axes as Mi, origin moved by pj-pi.
//
// Tolerances (a priori; eps = machine epsilon of T, u = eps/2). A vector of exactly representable
// integers normalised by Vec3::normalize has every component within 3.5u = 1.75 eps relative
// (dot 3u -> sqrt 2.5u -> divide 3.5u). Hence for a frame whose three rows are such vectors:
// |row_i.row_k - delta| <= 3.5 eps, |det-1| <= 5.25 eps  -> bound 8 eps; components vs oracle 4 eps.
// Product of two such frames (rotationMatrixWithUpDir): entry error <= 5.5 eps (two factors 1.75 eps each,
// product 0.5, additions 1.5, Cauchy-Schwarz on unit rows), so orthonormality <= 2*5.5*sqrt(3) = 19 eps,
// det <= 5.5*3*sqrt(3) = 28.6 eps -> bound 32 eps; carried unit vector <= sqrt(3)*5.5 = 9.5 eps -> 16 eps.
// Frames built from a cross product with an already rounded unit vector (firstFrame, computeLocalFrame):
// the cross product has absolute error <= sqrt(3) eps |t||d|, its length is |t||d| sin(phi), so the
// direction error is <= sqrt(3) eps / sin(phi): bounds 16 eps / sin(phi) on orthonormality, 8 eps / sin(phi)
// on the y axis against the oracle; sin(phi) is computed exactly from the integers. nextFrame multiplies
// four matrices (<= 19 eps each on orthonormality) with a setAxisAngle matrix (<= 20 eps): 128 eps / sin(phi).
// Its rotation angle is acos(ti^.tj^): d(angle) <= d(dot)/sin r + eps r, d(dot) <= 5 eps.
#include "c09_common.hpp"

namespace c09 {
namespace {
using vf::R;

struct Tally
{
    long long states = 0, trans = 0;
    long long al_t0 = 0, al_u0 = 0, al_par = 0, al_second = 0, al_gen = 0, wu_from0 = 0, ff_col = 0, ff_pk_eq_pi = 0, ff_gen = 0, nf_par = 0, nf_anti = 0,
              nf_rot = 0, clf_perp = 0, clf_oblique = 0;
    double w_align = 0, w_updir = 0, w_rotm = 0, w_clf = 0, w_first = 0, w_next = 0, w_next_x = 0;
};
inline void mx (double& a, LD v) { if ((double) v > a) a = (double) v; }

template <class T> Matrix44<T> dirty44 ()
{
    Matrix44<T> m;
    for (int i = 0; i < 4; ++i)
        for (int j = 0; j < 4; ++j) m.x[i][j] = (T) (100 + ex::PRIMES[i * 4 + j]);
    return m;
}
inline bool iszero (const int* v) { return v[0] == 0 && v[1] == 0 && v[2] == 0; }
inline void icross (const long long* a, const long long* b, long long* r)
{
    r[0] = a[1] * b[2] - a[2] * b[1]; r[1] = a[2] * b[0] - a[0] * b[2]; r[2] = a[0] * b[1] - a[1] * b[0];
}
inline void tol (LD* o, const long long* v) { o[0] = (LD) v[0]; o[1] = (LD) v[1]; o[2] = (LD) v[2]; }
// max abs difference between row r of m and the unit vector along the integer vector v
template <class T> inline LD rowdiff (const Matrix44<T>& m, int r, const long long* v)
{
    LD a[3], u[3];
    tol (a, v);
    unit3 (a, u);
    LD w = 0;
    for (int j = 0; j < 3; ++j) w = std::max (w, fabsl ((LD) m.x[r][j] - u[j]));
    return w;
}
// max abs difference between  (unit vector along v) * M(3x3)  and the unit vector along w
template <class T> inline LD carrydiff (const Matrix44<T>& m, const long long* v, const long long* w)
{
    LD a[3], b[3], ua[3], ub[3];
    tol (a, v); tol (b, w);
    unit3 (a, ua); unit3 (b, ub);
    LD d = 0;
    for (int j = 0; j < 3; ++j)
    {
        LD s = ua[0] * (LD) m.x[0][j] + ua[1] * (LD) m.x[1][j] + ua[2] * (LD) m.x[2][j];
        d    = std::max (d, fabsl (s - ub[j]));
    }
    return d;
}

// ---- alignZAxisWithTargetDir, rotationMatrixWithUpDir, rotationMatrix ---------------------------------------
template <class T> void directions (Tally& tl)
{
    const LD e = EPS<T> ();
    const LD scales[3] = {1, ldexpl (1, -10), ldexpl (5, 7)};
    for (int ti = 0; ti < 27; ++ti)
        for (int ui = 0; ui < 27; ++ui)
        {
            int t[3], u[3];
            ex::decode ((uint64_t) ti, 3, 3, t, -1);
            ex::decode ((uint64_t) ui, 3, 3, u, -1);
            long long tt[3] = {t[0], t[1], t[2]}, uu[3] = {u[0], u[1], u[2]}, c[3], y[3];
            icross (uu, tt, c);
            bool par = !iszero (t) && !iszero (u) && c[0] == 0 && c[1] == 0 && c[2] == 0;
            bool degenerate = iszero (t) || iszero (u) || par;
            for (int si = 0; si < 3; ++si)
                for (int sj = 0; sj < 3; ++sj)
                {
                    if (iszero (t)) ++tl.al_t0;
                    if (iszero (u)) ++tl.al_u0;
                    if (par) ++tl.al_par;
                    if (par && t[1] == 0 && t[2] == 0) ++tl.al_second; // target x (1,0,0) == 0 as well
                    if (!degenerate) ++tl.al_gen;
                    ++tl.states;
                    Vec3<T> tv ((T) (t[0] * scales[si]), (T) (t[1] * scales[si]), (T) (t[2] * scales[si]));
                    Vec3<T> uv ((T) (u[0] * scales[sj]), (T) (u[1] * scales[sj]), (T) (u[2] * scales[sj]));
                    Matrix44<T> M = dirty44<T> ();
                    alignZAxisWithTargetDir (M, tv, uv);
                    ++tl.trans;
                    auto desc = [&] () { return "target=" + i3 (t) + "*" + vf::fmt (scales[si]) + " up=" + i3 (u) + "*" + vf::fmt (scales[sj]); };
                    LD   w;
                    std::string d = frame_defect (M, 8 * e, &w);
                    mx (tl.w_align, w / e);
                    const char* cls = iszero (t) ? ".target-zero" : iszero (u) ? ".up-zero" : par ? ".up-parallel-to-target" : "";
                    if (!d.empty ()) R ().fail (site<T> ("alignZAxisWithTargetDir", std::string ("orthonormal-right-handed") + cls), desc (), "orthonormal, det +1 to 8 eps", d + " " + mat_str (M.x));
                    if (!(M.x[3][0] == 0 && M.x[3][1] == 0 && M.x[3][2] == 0))
                        R ().fail (site<T> ("alignZAxisWithTargetDir", "no-translation"), desc (), "row 3 = (0,0,0,1)", mat_str (M.x));
                    if (!iszero (t))
                    {
                        LD dz = rowdiff (M, 2, tt);
                        if (!(dz <= 4 * e)) R ().fail (site<T> ("alignZAxisWithTargetDir", std::string ("z-row=target^") + cls), desc (), "row 2 = target/|target| to 4 eps", mat_str (M.x));
                    }
                    if (!degenerate)
                    {
                        icross (tt, c, y); // target x (up x target)
                        LD dx = rowdiff (M, 0, c), dy = rowdiff (M, 1, y);
                        if (!(dx <= 4 * e)) R ().fail (site<T> ("alignZAxisWithTargetDir", "x-row=(up x target)^"), desc (), "to 4 eps", mat_str (M.x));
                        if (!(dy <= 4 * e)) R ().fail (site<T> ("alignZAxisWithTargetDir", "y-row=(target x (up x target))^"), desc (), "to 4 eps", mat_str (M.x));
                    }
                }
        }
    // rotationMatrixWithUpDir: all 27^3 (from, to, up)
    const long long UP0[3] = {0, 1, 0};
    for (int fi = 0; fi < 27; ++fi)
        for (int ti = 0; ti < 27; ++ti)
            for (int ui = 0; ui < 27; ++ui)
            {
                int f[3], t[3], u[3];
                ex::decode ((uint64_t) fi, 3, 3, f, -1);
                ex::decode ((uint64_t) ti, 3, 3, t, -1);
                ex::decode ((uint64_t) ui, 3, 3, u, -1);
                long long ff[3] = {f[0], f[1], f[2]}, tt[3] = {t[0], t[1], t[2]}, uu[3] = {u[0], u[1], u[2]}, cf[3], ct[3], yf[3], yt[3];
                icross (UP0, ff, cf);
                icross (uu, tt, ct);
                ++tl.states;
                if (iszero (f)) ++tl.wu_from0;
                Matrix44<T> M = rotationMatrixWithUpDir (Vec3<T> ((T) f[0], (T) f[1], (T) f[2]), Vec3<T> ((T) t[0], (T) t[1], (T) t[2]), Vec3<T> ((T) u[0], (T) u[1], (T) u[2]));
                ++tl.trans;
                auto desc = [&] () { return "from=" + i3 (f) + " to=" + i3 (t) + " up=" + i3 (u); };
                LD   w;
                std::string d = frame_defect (M, 32 * e, &w);
                mx (tl.w_updir, w / e);
                bool to_degenerate = iszero (t) || iszero (u) || (ct[0] == 0 && ct[1] == 0 && ct[2] == 0);
                const char* cls = iszero (f) ? ".from-zero" : to_degenerate ? ".to-or-up-zero-or-parallel" : "";
                if (!d.empty ()) R ().fail (site<T> ("rotationMatrixWithUpDir", std::string ("orthonormal-right-handed") + cls), desc (), "orthonormal, det +1 to 32 eps", d + " " + mat_str (M.x));
                if (!(M.x[3][0] == 0 && M.x[3][1] == 0 && M.x[3][2] == 0))
                    R ().fail (site<T> ("rotationMatrixWithUpDir", "no-translation"), desc (), "row 3 = (0,0,0,1)", mat_str (M.x));
                if (!iszero (f) && !iszero (t))
                {
                    LD dc = carrydiff (M, ff, tt);
                    mx (tl.w_updir, dc / e);
                    if (!(dc <= 16 * e)) R ().fail (site<T> ("rotationMatrixWithUpDir", std::string ("from^*M=to^") + cls), desc (), "to 16 eps", vf::fmt (dc) + " " + mat_str (M.x));
                    bool from_nondeg = !(cf[0] == 0 && cf[1] == 0 && cf[2] == 0);
                    if (from_nondeg && !to_degenerate)
                    {
                        icross (ff, cf, yf);
                        icross (tt, ct, yt);
                        LD du = carrydiff (M, yf, yt);
                        if (!(du <= 16 * e)) R ().fail (site<T> ("rotationMatrixWithUpDir", "up-of-from-frame-carried-to-up-of-to-frame"), desc (), "to 16 eps", vf::fmt (du) + " " + mat_str (M.x));
                    }
                }
            }
    // rotationMatrix(from,to) on the non-parallel lattice pairs (bound 32 eps: DESIGN.md C10, worst observed 6.1)
    for (int fi = 0; fi < 27; ++fi)
        for (int ti = 0; ti < 27; ++ti)
        {
            int f[3], t[3];
            ex::decode ((uint64_t) fi, 3, 3, f, -1);
            ex::decode ((uint64_t) ti, 3, 3, t, -1);
            long long ff[3] = {f[0], f[1], f[2]}, tt[3] = {t[0], t[1], t[2]}, c[3];
            icross (ff, tt, c);
            if (iszero (f) || iszero (t) || (c[0] == 0 && c[1] == 0 && c[2] == 0)) continue;
            ++tl.states;
            Matrix44<T> M = rotationMatrix (Vec3<T> ((T) f[0], (T) f[1], (T) f[2]), Vec3<T> ((T) t[0], (T) t[1], (T) t[2]));
            ++tl.trans;
            auto desc = [&] () { return "from=" + i3 (f) + " to=" + i3 (t); };
            LD   w;
            std::string d = frame_defect (M, 32 * e, &w);
            mx (tl.w_rotm, w / e);
            if (!d.empty ()) R ().fail (site<T> ("rotationMatrix", "orthonormal-right-handed"), desc (), "to 32 eps", d + " " + mat_str (M.x));
            LD dc = carrydiff (M, ff, tt);
            mx (tl.w_rotm, dc / e);
            if (!(dc <= 32 * e)) R ().fail (site<T> ("rotationMatrix", "from^*M=to^"), desc (), "to 32 eps", vf::fmt (dc) + " " + mat_str (M.x));
            // the axis of the rotation is from x to: it is left fixed
            LD dn = carrydiff (M, c, c);
            if (!(dn <= 32 * e)) R ().fail (site<T> ("rotationMatrix", "axis-from-x-to-fixed"), desc (), "to 32 eps", vf::fmt (dn) + " " + mat_str (M.x));
        }
}

// ---- computeLocalFrame -----------------------------------------------------------------------------------
template <class T> void local_frame (Tally& tl)
{
    const LD e = EPS<T> ();
    for (int xi = 0; xi < 27; ++xi)
        for (int ni = 0; ni < 27; ++ni)
        {
            int xd[3], nd[3];
            ex::decode ((uint64_t) xi, 3, 3, xd, -1);
            ex::decode ((uint64_t) ni, 3, 3, nd, -1);
            long long xx[3] = {xd[0], xd[1], xd[2]}, nn[3] = {nd[0], nd[1], nd[2]}, c[3], z[3];
            icross (nn, xx, c); // y direction = normal x x
            if (iszero (xd) || iszero (nd) || (c[0] == 0 && c[1] == 0 && c[2] == 0)) continue; // zero / parallel: outside the property
            long long dotxn = xx[0] * nn[0] + xx[1] * nn[1] + xx[2] * nn[2];
            LD sinphi = sqrtl ((LD) (c[0] * c[0] + c[1] * c[1] + c[2] * c[2]) / (LD) ((xx[0] * xx[0] + xx[1] * xx[1] + xx[2] * xx[2]) * (nn[0] * nn[0] + nn[1] * nn[1] + nn[2] * nn[2])));
            icross (xx, c, z); // z = x x y
            for (int pi = 0; pi < 27; ++pi)
            {
                int p[3];
                ex::decode ((uint64_t) pi, 3, 3, p, -1);
                p[0] *= 3; p[1] *= 5; p[2] *= 7;
                ++tl.states;
                if (dotxn == 0) ++tl.clf_perp; else ++tl.clf_oblique;
                Matrix44<T> M = computeLocalFrame (Vec3<T> ((T) p[0], (T) p[1], (T) p[2]), Vec3<T> ((T) xd[0], (T) xd[1], (T) xd[2]), Vec3<T> ((T) nd[0], (T) nd[1], (T) nd[2]));
                ++tl.trans;
                auto desc = [&] () { return "p=" + i3 (p) + " xDir=" + i3 (xd) + " normal=" + i3 (nd); };
                LD   w;
                std::string d = frame_defect (M, 16 * e / sinphi, &w);
                mx (tl.w_clf, w * sinphi / e);
                if (!d.empty ()) R ().fail (site<T> ("computeLocalFrame", "orthonormal-direct"), desc (), "to 16 eps/sin(angle(xDir,normal))", d + " " + mat_str (M.x));
                if (!(M.x[3][0] == (T) p[0] && M.x[3][1] == (T) p[1] && M.x[3][2] == (T) p[2]))
                    R ().fail (site<T> ("computeLocalFrame", "origin=p"), desc (), i3 (p), mat_str (M.x));
                if (!(rowdiff (M, 0, xx) <= 4 * e)) R ().fail (site<T> ("computeLocalFrame", "x-row=xDir^"), desc (), "to 4 eps", mat_str (M.x));
                if (!(rowdiff (M, 1, c) <= 8 * e / sinphi)) R ().fail (site<T> ("computeLocalFrame", "y-row=(normal x xDir)^"), desc (), "to 8 eps/sin", mat_str (M.x));
                if (!(rowdiff (M, 2, z) <= 16 * e / sinphi)) R ().fail (site<T> ("computeLocalFrame", "z-row=(x x y)^"), desc (), "to 16 eps/sin", mat_str (M.x));
                if (dotxn == 0 && !(rowdiff (M, 2, nn) <= 16 * e))
                    R ().fail (site<T> ("computeLocalFrame", "z-row=normal^-when-perpendicular"), desc (), "to 16 eps", mat_str (M.x));
            }
        }
}

// ---- firstFrame / nextFrame / lastFrame -------------------------------------------------------------------
template <class T> void curve_frames (Tally& total, bool thorough)
{
    const LD   e  = EPS<T> ();
    const LD   ef = (LD) std::numeric_limits<float>::epsilon (); // nextFrame computes its angle with acosf
    const int  B  = thorough ? 5 : 3, OFF = thorough ? -2 : -1;
    const uint64_t NP = (uint64_t) B * B * B, N = NP * NP * NP;
    std::mutex mu;
    bool complete = vf::parallel_chunks (N, NP * NP, [&] (uint64_t lo, uint64_t hi, unsigned) {
        Tally tl;
        for (uint64_t idx = lo; idx < hi; ++idx)
        {
            int a[3], b[3], c[3];
            ex::decode (idx % NP, (unsigned) B, 3, a, OFF);
            ex::decode ((idx / NP) % NP, (unsigned) B, 3, b, OFF);
            ex::decode (idx / (NP * NP), (unsigned) B, 3, c, OFF);
            long long t[3] = {b[0] - a[0], b[1] - a[1], b[2] - a[2]}, d[3] = {c[0] - a[0], c[1] - a[1], c[2] - a[2]}, n[3], bn[3];
            if (t[0] == 0 && t[1] == 0 && t[2] == 0) continue; // pi == pj: documented to throw (from a noexcept function): outside the property
            icross (t, d, n);
            bool collinear = (n[0] == 0 && n[1] == 0 && n[2] == 0);
            ++tl.states;
            Vec3<T> pa ((T) a[0], (T) a[1], (T) a[2]), pb ((T) b[0], (T) b[1], (T) b[2]), pc ((T) c[0], (T) c[1], (T) c[2]);
            Matrix44<T> M = firstFrame (pa, pb, pc);
            ++tl.trans;
            auto desc = [&] () { return "pi=" + i3 (a) + " pj=" + i3 (b) + " pk=" + i3 (c); };
            if (!(M.x[3][0] == (T) a[0] && M.x[3][1] == (T) a[1] && M.x[3][2] == (T) a[2]))
                R ().fail (site<T> ("firstFrame", "origin=pi"), desc (), i3 (a), mat_str (M.x));
            if (!(rowdiff (M, 0, t) <= 4 * e)) R ().fail (site<T> ("firstFrame", "x-row=(pj-pi)^"), desc (), "to 4 eps", mat_str (M.x));
            LD sinphi = 1;
            if (collinear)
            {
                ++tl.ff_col;
                if (d[0] == 0 && d[1] == 0 && d[2] == 0) ++tl.ff_pk_eq_pi;
                LD w;
                std::string df = frame_defect (M, 16 * e, &w);
                if (!df.empty ()) R ().fail (site<T> ("firstFrame", "collinear-points.still-orthonormal-frame"), desc (), "orthonormal right-handed to 16 eps (arbitrary twist)", df + " " + mat_str (M.x));
            }
            else
            {
                ++tl.ff_gen;
                sinphi = sqrtl ((LD) (n[0] * n[0] + n[1] * n[1] + n[2] * n[2]) / (LD) ((t[0] * t[0] + t[1] * t[1] + t[2] * t[2]) * (d[0] * d[0] + d[1] * d[1] + d[2] * d[2])));
                LD w;
                std::string df = frame_defect (M, 16 * e / sinphi, &w);
                mx (tl.w_first, w * sinphi / e);
                if (!df.empty ()) R ().fail (site<T> ("firstFrame", "orthonormal-right-handed"), desc (), "to 16 eps/sin(angle)", df + " " + mat_str (M.x));
                if (!(rowdiff (M, 1, n) <= 8 * e / sinphi)) R ().fail (site<T> ("firstFrame", "y-row=((pj-pi) x (pk-pi))^"), desc (), "to 8 eps/sin", mat_str (M.x));
                icross (t, n, bn);
                if (!(rowdiff (M, 2, bn) <= 16 * e / sinphi)) R ().fail (site<T> ("firstFrame", "z-row=x x y"), desc (), "to 16 eps/sin", mat_str (M.x));
            }
            if (collinear) continue;
            // nextFrame: move M from pi=a to pj=b, previous tangent ti = b-a (= M's x axis), new tangent tj
            // over the 26 lattice directions (quick: only for point triples inside L(1)^3 -- all of them)
            bool do_next = true;
            if (thorough)
            {   // thorough enumerates L(2)^3 triples for firstFrame; nextFrame on those inside L(1)^3 plus every 7th other
                bool inner = true;
                for (int k = 0; k < 3; ++k) inner = inner && abs (a[k]) <= 1 && abs (b[k]) <= 1 && abs (c[k]) <= 1;
                do_next = inner || (idx % 7 == 3);
            }
            if (!do_next) continue;
            const LD pmag = fabsl ((LD) a[0]) + fabsl ((LD) a[1]) + fabsl ((LD) a[2]) + fabsl ((LD) b[0]) + fabsl ((LD) b[1]) + fabsl ((LD) b[2]) + 1;
            for (int ji = 0; ji < 27; ++ji)
            {
                int tj[3];
                ex::decode ((uint64_t) ji, 3, 3, tj, -1);
                if (iszero (tj)) continue;
                long long tjl[3] = {tj[0], tj[1], tj[2]}, ax[3];
                icross (t, tjl, ax);
                long long dotl = t[0] * tjl[0] + t[1] * tjl[1] + t[2] * tjl[2];
                bool parallel = (ax[0] == 0 && ax[1] == 0 && ax[2] == 0);
                ++tl.states;
                if (parallel) { if (dotl > 0) ++tl.nf_par; else ++tl.nf_anti; } else ++tl.nf_rot;
                Vec3<T> tiv ((T) t[0], (T) t[1], (T) t[2]), tjv ((T) tj[0], (T) tj[1], (T) tj[2]);
                Matrix44<T> M1 = nextFrame (M, pa, pb, tiv, tjv);
                ++tl.trans;
                auto d2 = [&] () { return desc () + " [Mi=firstFrame(pi,pj,pk)] ti=pj-pi tj=" + i3 (tj); };
                LD   w;
                std::string df = frame_defect (M1, 128 * e / sinphi, &w);
                mx (tl.w_next, w * sinphi / e);
                if (!df.empty ()) R ().fail (site<T> ("nextFrame", "orthonormal-right-handed"), d2 (), "to 128 eps/sin", df + " " + mat_str (M1.x));
                LD od = std::max (fabsl ((LD) M1.x[3][0] - b[0]), std::max (fabsl ((LD) M1.x[3][1] - b[1]), fabsl ((LD) M1.x[3][2] - b[2])));
                if (!(od <= 16 * e * pmag)) R ().fail (site<T> ("nextFrame", "origin=pj"), d2 (), i3 (b) + " to 16 eps*(|pi|+|pj|+1)", mat_str (M1.x));
                if (!parallel)
                {
                    LD sinr = sqrtl ((LD) (ax[0] * ax[0] + ax[1] * ax[1] + ax[2] * ax[2]) / (LD) ((t[0] * t[0] + t[1] * t[1] + t[2] * t[2]) * (tjl[0] * tjl[0] + tjl[1] * tjl[1] + tjl[2] * tjl[2])));
                    LD dx = rowdiff (M1, 0, tjl);
                    // angle error: d(dot)/sin r + eps*r with d(dot) <= 5 eps, plus the matrix products (<= 32 eps):
                    LD tolf = (32 + 8 / sinr) * std::max (e, ef); // what an angle computed in float can deliver
                    LD tolT = (32 + 8 / sinr) * e;                // what the base type T can deliver
                    if (!(dx <= tolf)) R ().fail (site<T> ("nextFrame", "x-row=tj^"), d2 (), "to (32+8/sin r) * float eps", vf::fmt (dx) + " " + mat_str (M1.x));
                    else if (!(dx <= tolT))
                        R ().fail (site<T> ("nextFrame", "x-row=tj^.accuracy-beyond-float-precision(acosf)"), d2 (), "to (32+8/sin r) eps = " + vf::fmt (tolT), vf::fmt (dx) + " " + mat_str (M1.x));
                    mx (tl.w_next_x, dx / e);
                }
                // lastFrame: axes of M1 kept, origin moved from pj=b to pk=c
                Matrix44<T> M2 = lastFrame (M1, pb, pc);
                ++tl.trans;
                LD wa = 0;
                for (int i = 0; i < 3; ++i)
                    for (int j = 0; j < 3; ++j) wa = std::max (wa, fabsl ((LD) M2.x[i][j] - (LD) M1.x[i][j]));
                if (!(wa <= 4 * e) || !(M2.x[0][3] == 0 && M2.x[1][3] == 0 && M2.x[2][3] == 0 && M2.x[3][3] == 1))
                    R ().fail (site<T> ("lastFrame", "axes-unchanged"), d2 (), mat_str (M1.x), mat_str (M2.x));
                LD o2 = std::max (fabsl ((LD) M2.x[3][0] - c[0]), std::max (fabsl ((LD) M2.x[3][1] - c[1]), fabsl ((LD) M2.x[3][2] - c[2])));
                if (!(o2 <= 16 * e * (pmag + fabsl ((LD) c[0]) + fabsl ((LD) c[1]) + fabsl ((LD) c[2]))))
                    R ().fail (site<T> ("lastFrame", "origin=pj"), d2 (), i3 (c), mat_str (M2.x));
            }
        }
        std::lock_guard<std::mutex> g (mu);
        total.states += tl.states; total.trans += tl.trans; total.ff_col += tl.ff_col; total.ff_pk_eq_pi += tl.ff_pk_eq_pi; total.ff_gen += tl.ff_gen;
        total.nf_par += tl.nf_par; total.nf_anti += tl.nf_anti; total.nf_rot += tl.nf_rot;
        mx (total.w_first, tl.w_first); mx (total.w_next, tl.w_next); mx (total.w_next_x, tl.w_next_x);
    });
    R ().note_max (std::string ("nextFrame<") + TN<T>::n () + ">: worst |x-row - tj^| in eps of T (a-priori (32+8/sin r))", total.w_next_x);
    total.w_next_x = 0;
    if (!complete) R ().note ("frames.curve", "cut short by the deadline");
}

} // namespace

void run_frames ()
{
    if (!R ().stage ("frames")) return;
    const bool th = R ().thorough ();
    Tally      tl;
    directions<float> (tl);  directions<double> (tl);
    local_frame<float> (tl); local_frame<double> (tl);
    curve_frames<float> (tl, th);
    bool cut = R ().out_of_time ();
    curve_frames<double> (tl, th);
    cut = cut || R ().out_of_time ();
    R ().add ("states", tl.states); R ().add ("transitions", tl.trans); R ().add ("evaluations", tl.states);
    R ().cls ("alignZAxis.target-zero", tl.al_t0);
    R ().cls ("alignZAxis.up-zero", tl.al_u0);
    R ().cls ("alignZAxis.up-exactly-parallel-to-target", tl.al_par);
    R ().cls ("alignZAxis.parallel-and-target-along-x(second-fallback)", tl.al_second);
    R ().cls ("alignZAxis.non-degenerate.generic", tl.al_gen);
    R ().cls ("rotationMatrixWithUpDir.from-zero", tl.wu_from0);
    R ().cls ("computeLocalFrame.normal-perpendicular-to-xDir", tl.clf_perp);
    R ().cls ("computeLocalFrame.oblique.generic", tl.clf_oblique);
    R ().cls ("firstFrame.collinear-points", tl.ff_col);
    R ().cls ("firstFrame.third-point-equals-first", tl.ff_pk_eq_pi);
    R ().cls ("firstFrame.non-collinear.generic", tl.ff_gen);
    R ().cls ("nextFrame.tangents-parallel", tl.nf_par);
    R ().cls ("nextFrame.tangents-antiparallel", tl.nf_anti);
    R ().cls ("nextFrame.rotating", tl.nf_rot);
    R ().note_max ("alignZAxisWithTargetDir: worst orthonormality defect in eps (bound 8)", tl.w_align);
    R ().note_max ("rotationMatrixWithUpDir: worst defect in eps (bounds 32/16)", tl.w_updir);
    R ().note_max ("rotationMatrix: worst defect in eps (bound 32)", tl.w_rotm);
    R ().note_max ("computeLocalFrame: worst defect * sin(phi) in eps (bound 16)", tl.w_clf);
    R ().note_max ("firstFrame: worst defect * sin(phi) in eps (bound 16)", tl.w_first);
    R ().note_max ("nextFrame: worst orthonormality defect * sin(phi) in eps (bound 128)", tl.w_next);
    R ().sample ("alignZAxisWithTargetDir(target=(1,0,0), up=(1,0,0)): parallel, first fallback (1,0,0) also parallel -> second fallback; must still be a frame");
    R ().sample ("rotationMatrixWithUpDir(from=(1,1,0), to=(0,0,0), up=(0,0,0)) -> valid frame");
    R ().sample ("firstFrame((0,0,0),(1,1,1),(-1,-1,-1)) collinear -> arbitrary twist but orthonormal");
    const std::string bound = std::string ("alignZAxisWithTargetDir on 27^2 (target,up) x 9 scalings; rotationMatrixWithUpDir on 27^3; rotationMatrix on non-parallel lattice pairs; "
                                           "computeLocalFrame on lattice (xDir,normal) x 27 origins; firstFrame on all point triples of ") +
                              (th ? "L(2)^3" : "L(1)^3") + ", nextFrame (26 new tangents) and lastFrame chained on them; float and double";
    if (cut) R ().stage_partial (bound); else R ().stage_done (bound);
}

} // namespace c09
