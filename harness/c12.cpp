// C12 — matrix factorisations recompose to their input with structured factors.
//
// Bounded exhaustive exploration on the real ImathMatrixAlgo code, T in {float,double}:
//   shrt3d-T            : M = S*H*R*T composed in long double from 8^3 scales (reflections, graded 2^-k) x 29 shears
//                         (L(1)^3 + generic) x rotation grid x translations: extractSHRT (XYZ, rOrder and Euler& in all 24 orders),
//                         extractScaling, extractScalingAndShear, extractAndRemoveScalingAndShear, sansScaling,
//                         removeScaling, sansScalingAndShear (both overloads), removeScalingAndShear
//   shrt3d-degenerate-T : zero scales must be reported by every entry point in both exc modes; 1e-30 scales
//   shrt3d-uniformly-scaled-T : well-conditioned matrices x exact powers of two (all entries subnormal, tiny normal, near max/8)
//   shrt3d-singular-T   : every singular 3x3 part over {-1,0,1,2} without a zero row: entry points and exc modes agree,
//                         documented fallbacks; reported when the orthogonalised scale is provably exactly zero
//   computeRSMatrix-T   : documented mix S_x * R_y * T_A for all four flag combinations
//   shrt2d              : the Matrix33 versions (regular, zero scales, 1e-30 scales, singular parts without a zero row)
//   svd3x3 / svd4x4     : jacobiSVD on all {-1,0,1,2}^9 and {0,1}^16 ({-1,0,1}^16 thorough) matrices
//   svd*-scaled, eigen*-scaled : the same lattices multiplied by 2^+-40 (float) / 2^+-300 (double)
//   svd3x3-graded       : all 3x3 matrices with <= 4 non-zero entries from {+-1, +-2^20, +-2^-20}
//   eigen3x3 / eigen4x4 : jacobiEigenSolver, min/maxEigenVector on all symmetric L(2) 3x3 and L(1) 4x4 matrices
//   procrustes          : lattice point sets related by cube rotations x translations x scales; unrelated sets; mirror
//                         images of spanning sets; related sets plus a zero-weight outlier; all weights zero
//   factor-outputs-into-dirty-objects : every out-parameter entry point with its outputs pre-filled (primes / NaN) vs fresh, bitwise (c12_dirty.cpp)
// Oracles are written from the definitions in long double / exact integers (c11_ref.hpp, c12.hpp) and never call
// the library. Tolerances are stated at the head of each TU.
#include "c12.hpp"

int main (int argc, char** argv)
{
    vf::R ().property = "C12";
    vf::R ().parse (argc, argv);
    vf::R ().assume ("long double has a 64-bit significand (x86-64)");
    vf::R ().assume ("libm sin/cos/atan2/sqrt of float and double are accurate to 1 ulp (glibc)");
    // cheap, branch-rich stages first; the two big factor sweeps last
    c12::stage_shrt3d_float (0);
    c12::stage_shrt3d_double (0);
    c12::stage_dirty ();
    c12::stage_shrt2d ();
    c12::stage_eigen ();
    c12::stage_svd ();
    c12::stage_procrustes ();
    c12::stage_shrt3d_float (1);
    c12::stage_shrt3d_double (1);
    return vf::R ().finish ();
}
