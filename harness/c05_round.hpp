// C05 — rounding-bound stage: well-scaled NON-lattice operands (signed prime * 2^-k, k from a graded
// list) in float and double against long double.  Bounds and their derivation: c05.hpp.
//
// Enumerated space (complete): prime rotation r (36) x exponent-list rotation g (7) x sign pattern of
// the left operand (4) x sign pattern of the right operand (4) = 4032 operand pairs per dimension.
// Exponents are capped so that a product of four entries stays far above the underflow threshold
// (float: 4*20 = 80 < 126), which the error model (no underflow) requires.
#pragma once
#include "c05_exact.hpp"

namespace c05 {

template <class T> struct Grades;
template <> struct Grades<float>  { static const int* k () { static const int v[7] = {0, 1, 2, 5, 9, 14, 20}; return v; } };
template <> struct Grades<double> { static const int* k () { static const int v[7] = {0, 1, 3, 8, 17, 33, 60}; return v; } };

template <class T> inline void gen_graded (int r, int g, int s, int stride, T* out, int n)
{
    for (int i = 0; i < n; ++i)
        out[i] = (T) ldexp ((double) (sgn_pat (s, i) * ex::PRIMES[(r + stride * i) % 36]), -Grades<T>::k ()[(g + i) % 7]);
}

template <class T> void run_rounding ()
{
    const std::string tl = TN<T>::l ();
    if (!R ().stage ("rounding." + tl)) return;
    Tally     t;
    double    w_mul = 0, w_vec = 0, w_hom = 0, w_dot = 0, w_cross = 0, w_quat = 0, w_det = 0;
    long long skipped = 0;
    for (int r = 0; r < 36; ++r)
        for (int g = 0; g < 7; ++g)
            for (int sa = 0; sa < 4; ++sa)
                for (int sb = 0; sb < 4; ++sb)
                {
                    T a[16], b[16], v[4];
                    gen_graded<T> (r, g, sa, 1, a, 16);
                    gen_graded<T> (r + 13, g + 3, sb, 7, b, 16);
                    gen_graded<T> (r + 22, g + 5, sa + sb + 1, 5, v, 4);
                    rnd_matmul<T, 2> (a, b, t, w_mul); rnd_matmul<T, 3> (a, b, t, w_mul); rnd_matmul<T, 4> (a, b, t, w_mul);
                    rnd_vecmat<T, 2> (v, a, t, w_vec); rnd_vecmat<T, 3> (v, a, t, w_vec); rnd_vecmat<T, 4> (v, a, t, w_vec);
                    rnd_homog<T, 3> (v, b, t, w_hom, skipped); rnd_homog<T, 4> (v, b, t, w_hom, skipped);
                    rnd_dot<T, 2> (a, b, t, w_dot); rnd_dot<T, 3> (a, b, t, w_dot); rnd_dot<T, 4> (a, b, t, w_dot);
                    rnd_cross<T> (a, b, t, w_cross);
                    rnd_outer<T, 3> (a, b, t); rnd_outer<T, 4> (a, b, t);
                    rnd_quat<T> (a, b, t, w_quat);
                    if (sb == 0) { rnd_det<T, 2> (a, t, w_det); rnd_det<T, 3> (a, t, w_det); rnd_det<T, 4> (a, t, w_det); }
                }
    t.flush ();
    R ().note_max ("worst |err|/bound, matrix product (" + tl + ")", w_mul);
    R ().note_max ("worst |err|/bound, vector x matrix (" + tl + ")", w_vec);
    R ().note_max ("worst |err|/bound, homogeneous divide (" + tl + ")", w_hom);
    R ().note_max ("worst |err|/bound, dot (" + tl + ")", w_dot);
    R ().note_max ("worst |err|/bound, cross (" + tl + ")", w_cross);
    R ().note_max ("worst |err|/bound, Quat product (" + tl + ")", w_quat);
    R ().note_max ("worst |err|/bound, determinant and minors (" + tl + ")", w_det);
    R ().add ("rounding_homog_skipped_w_cancellation", skipped);
    R ().stage_done ("4032 graded prime*2^-k operand pairs per dimension against long double, bound (R+1)*eps*sum|terms|");
}

} // namespace c05
