// C17 — rgb2hsv / hsv2rgb / rgb2packed / packed2rgb.
//
// Oracle: the textbook hexcone model written with chroma (c = v*s, x = c(1-|h' mod 2 - 1|), m = v - c) in long
// double — a different formulation from the library's p/q/t table.
// Grid: every rgb and every hsv triple in {0,1/8,...,1}^3 (729 each: grey axis, black, pure hues, hue = 1 wrap).
// Tolerance 16 eps(T), absolute (all quantities are <= 1), hue compared modulo 1. Error analysis (done before
// the first run): on this grid hsv2rgb is exact in double (f in {0,1/4,1/2,3/4}, all products have <= 8
// significant bits); rgb2hsv performs one division for s and (division, addition of 2 or 4, division by 6,
// optional +1) for h: the addition rounds at magnitude < 8 (half ulp = 2 eps), the rest at magnitude <= 1, so
// |dh| <= 2eps/6 + 3*(eps/4) < 1.1 eps, |ds| <= eps/4. Feeding that back through hsv2rgb multiplies dh by 6,
// adds the rounding of 6h (<= 2 eps) and of three products: < 6.6 + 2 + 1 < 10 eps. For T = float the double
// results are rounded once more to float (<= eps_f/4) and the same budget holds with eps_f. 16 eps covers
// both directions with margin < 2x; it is not tuned.
// Where the inverse is not defined (s = 0: hue arbitrary; v = 0: hue and saturation arbitrary) only the defined
// components are compared.
// Integer element types: the result must be the model value scaled by numeric_limits<T>::max, truncated — i.e.
// lie in (w - 1 - d, w + d] with d = 1e-4*max covering the float/double rounding before the truncation.
#include "c17.hpp"
#include <ImathColorAlgo.h>
#include <atomic>
#include <limits>

using namespace vf;

namespace {

typedef long double LD;
struct Tri { LD a, b, c; };

Tri model_hsv2rgb (LD h, LD s, LD v)
{
    LD hp = h * 6;
    while (hp >= 6) hp -= 6; // hue 1 == hue 0
    LD c = v * s, m = v - c;
    LD k = fmodl (hp, 2) - 1;
    LD x = c * (1 - (k < 0 ? -k : k));
    Tri o;
    int sector = (int) floorl (hp);
    switch (sector)
    {
        case 0: o = {c, x, 0}; break;
        case 1: o = {x, c, 0}; break;
        case 2: o = {0, c, x}; break;
        case 3: o = {0, x, c}; break;
        case 4: o = {x, 0, c}; break;
        default: o = {c, 0, x}; break;
    }
    o.a += m; o.b += m; o.c += m;
    return o;
}
Tri model_rgb2hsv (LD r, LD g, LD b)
{
    LD mx = std::max (r, std::max (g, b)), mn = std::min (r, std::min (g, b)), c = mx - mn;
    Tri o;
    o.c = mx;
    o.b = mx == 0 ? 0 : c / mx;
    if (c == 0) o.a = 0;
    else if (mx == r) { LD t = (g - b) / c; if (t < 0) t += 6; o.a = t / 6; }
    else if (mx == g) o.a = ((b - r) / c + 2) / 6;
    else o.a = ((r - g) / c + 4) / 6;
    return o;
}
LD absl (LD x) { return x < 0 ? -x : x; }
LD huedist (LD a, LD b) { LD d = absl (a - b); d = fmodl (d, 1); return std::min (d, 1 - d); }

struct CT { long long n = 0, tr = 0, grey = 0, black = 0, pure = 0, wrap = 0, sector[6] = {0, 0, 0, 0, 0, 0}, negh = 0, generic = 0; };

template <class T> void fp_color (const std::string& tn)
{
    if (!R ().stage ("color-" + tn)) return;
    typedef IM::Vec3<T>   V3;
    typedef IM::Color4<T> C4;
    const LD TOL = 16 * (LD) std::numeric_limits<T>::epsilon ();
    const T  alphas[] = {T (0), T (0.5), T (1), T (0.3), T (-2), T (7)};
    CT       t;
    const int G = R ().thorough () ? 16 : 8; // grid {0,1/G,...,1}; the exactness argument above holds for both
    for (int i = 0; i <= G; ++i)
        for (int j = 0; j <= G; ++j)
            for (int k = 0; k <= G; ++k)
            {
                T a = T (i) / G, b = T (j) / G, c = T (k) / G;
                std::string in = Msg () << tn << " " << a << " " << b << " " << c;
                ++t.n;
                // ---------- (a,b,c) as rgb
                {
                    V3  hsv = IM::rgb2hsv (V3 (a, b, c));
                    Tri w   = model_rgb2hsv (a, b, c);
                    ++t.tr;
                    bool grey = (i == j && j == k);
                    if (grey) ++t.grey;
                    if (i + j + k == 0) ++t.black;
                    if (!(hsv.x >= 0 && hsv.x <= 1)) R ().fail ("rgb2hsv.hue-range", in, "[0,1]", Msg () << hsv.x);
                    if (absl ((LD) hsv.z - w.c) > TOL) R ().fail ("rgb2hsv.value", in, fmt (w.c), Msg () << hsv.z);
                    if (w.c > 0 && absl ((LD) hsv.y - w.b) > TOL) R ().fail ("rgb2hsv.saturation", in, fmt (w.b), Msg () << hsv.y);
                    if (w.c > 0 && w.b > 0 && huedist (hsv.x, w.a) > TOL) R ().fail ("rgb2hsv.hue", in, fmt (w.a), Msg () << hsv.x);
                    if (grey && (hsv.y != 0)) R ().fail ("rgb2hsv.grey-axis", in, "saturation 0", Msg () << hsv.y);
                    if (!grey && a == std::max (a, std::max (b, c)) && b < c) ++t.negh; // red sector below zero: hue wraps by +1
                    // round trip rgb -> hsv -> rgb
                    V3 back = IM::hsv2rgb (hsv);
                    ++t.tr;
                    LD e = std::max (absl ((LD) back.x - a), std::max (absl ((LD) back.y - b), absl ((LD) back.z - c)));
                    R ().note_max ("hsv2rgb(rgb2hsv(rgb)) error / eps <" + tn + ">", (double) (e / (TOL / 16)));
                    if (e > TOL) R ().fail ("hsv2rgb(rgb2hsv(rgb))", in, in, Msg () << back.x << " " << back.y << " " << back.z);
                    // Color4 overload: bitwise the same, alpha untouched
                    for (T al : alphas)
                    {
                        C4 h4 = IM::rgb2hsv (C4 (a, b, c, al));
                        ++t.tr;
                        if (!ex::same (h4.r, hsv.x) || !ex::same (h4.g, hsv.y) || !ex::same (h4.b, hsv.z))
                            R ().fail ("rgb2hsv.Color4-vs-Vec3", in, Msg () << hsv.x << " " << hsv.y << " " << hsv.z, Msg () << h4.r << " " << h4.g << " " << h4.b);
                        if (!ex::same (h4.a, al)) R ().fail ("rgb2hsv.Color4.alpha", in + " alpha " + fmt (al), Msg () << al, Msg () << h4.a);
                    }
                }
                // ---------- (a,b,c) as hsv
                {
                    V3  rgb = IM::hsv2rgb (V3 (a, b, c));
                    Tri w   = model_hsv2rgb (a, b, c);
                    ++t.tr;
                    if (i == G) ++t.wrap;
                    else t.sector[(i * 6) / G]++;
                    if (j == G && k == G && (i * 6) % G == 0) ++t.pure;
                    LD e = std::max (absl ((LD) rgb.x - w.a), std::max (absl ((LD) rgb.y - w.b), absl ((LD) rgb.z - w.c)));
                    if (e > TOL) R ().fail ("hsv2rgb", in, Msg () << w.a << " " << w.b << " " << w.c, Msg () << rgb.x << " " << rgb.y << " " << rgb.z);
                    // round trip hsv -> rgb -> hsv on the components the inverse determines
                    V3 back = IM::rgb2hsv (rgb);
                    ++t.tr;
                    std::string got = Msg () << back.x << " " << back.y << " " << back.z;
                    if (absl ((LD) back.z - c) > TOL) R ().fail ("rgb2hsv(hsv2rgb(hsv)).value", in, in, got);
                    if (k > 0 && absl ((LD) back.y - b) > TOL) R ().fail ("rgb2hsv(hsv2rgb(hsv)).saturation", in, in, got);
                    if (k > 0 && j > 0)
                    {
                        LD d = huedist (back.x, a);
                        R ().note_max ("rgb2hsv(hsv2rgb(hsv)) hue error / eps <" + tn + ">", (double) (d / (TOL / 16)));
                        if (d > TOL) R ().fail ("rgb2hsv(hsv2rgb(hsv)).hue", in, in, got);
                    }
                    else ++t.generic;
                    for (T al : alphas)
                    {
                        C4 r4 = IM::hsv2rgb (C4 (a, b, c, al));
                        ++t.tr;
                        if (!ex::same (r4.r, rgb.x) || !ex::same (r4.g, rgb.y) || !ex::same (r4.b, rgb.z))
                            R ().fail ("hsv2rgb.Color4-vs-Vec3", in, Msg () << rgb.x << " " << rgb.y << " " << rgb.z, Msg () << r4.r << " " << r4.g << " " << r4.b);
                        if (!ex::same (r4.a, al)) R ().fail ("hsv2rgb.Color4.alpha", in + " alpha " + fmt (al), Msg () << al, Msg () << r4.a);
                    }
                }
            }
    R ().cls ("color." + tn + ".grey-axis", t.grey); R ().cls ("color." + tn + ".black", t.black);
    R ().cls ("color." + tn + ".pure-hue", t.pure); R ().cls ("color." + tn + ".hue-wrap-at-1", t.wrap);
    R ().cls ("color." + tn + ".negative-hue-wraps", t.negh);
    for (int s = 0; s < 6; ++s) R ().cls ("color." + tn + ".sector" + std::to_string (s), t.sector[s]);
    R ().add ("color." + tn + ".inverse-undefined.generic", t.generic);
    R ().add ("states", 2 * t.n); R ().add ("evaluations", 2 * t.n); R ().add ("transitions", t.tr);
    R ().stage_done ("rgb and hsv over {0,1/" + std::to_string (G) + ",..,1}^3: model agreement, both round trips, Color4 overloads x 6 alphas");
}

// ---- integer element types --------------------------------------------------------------------------
template <class T> bool int_ok (T got, LD model01)
{
    const LD MX = (LD) std::numeric_limits<T>::max (), w = model01 * MX, d = 1e-4L * MX;
    return (LD) got > w - 1 - d && (LD) got <= w + d;
}

template <class T> void int_color (const std::string& tn, bool with_c4)
{
    if (!R ().stage ("color-" + tn)) return;
    typedef IM::Vec3<T>   V3;
    typedef IM::Color4<T> C4;
    const LD  MX = (LD) std::numeric_limits<T>::max ();
    long long n = 0, tr = 0, full = 0, zero = 0;
    for (int i = 0; i < 9; ++i)
        for (int j = 0; j < 9; ++j)
            for (int k = 0; k < 9; ++k)
            {
                T a = (T) floorl (i * MX / 8), b = (T) floorl (j * MX / 8), c = (T) floorl (k * MX / 8);
                LD          fa = a / MX, fb = b / MX, fc = c / MX;
                std::string in = tn + " " + fmt ((long long) a) + " " + fmt ((long long) b) + " " + fmt ((long long) c);
                ++n;
                if (i == 8 || j == 8 || k == 8) ++full;
                if (i == 0 || j == 0 || k == 0) ++zero;
                V3  hsv = IM::rgb2hsv (V3 (a, b, c));
                Tri wh  = model_rgb2hsv (fa, fb, fc);
                ++tr;
                // hue of a colour with negative raw hue is within rounding of 1 (wraps); compare modulo max
                bool hue_ok = int_ok<T> (hsv.x, wh.a) || (wh.b == 0);
                if (!hue_ok) R ().fail ("rgb2hsv<" + tn + ">.scaled", in + " hue", fmt (wh.a * MX), fmt ((long long) hsv.x));
                if (!int_ok<T> (hsv.y, wh.b)) R ().fail ("rgb2hsv<" + tn + ">.scaled", in + " saturation", fmt (wh.b * MX), fmt ((long long) hsv.y));
                if (!int_ok<T> (hsv.z, wh.c)) R ().fail ("rgb2hsv<" + tn + ">.scaled", in + " value", fmt (wh.c * MX), fmt ((long long) hsv.z));
                V3  rgb = IM::hsv2rgb (V3 (a, b, c));
                Tri wr  = model_hsv2rgb (fa, fb, fc);
                ++tr;
                if (!int_ok<T> (rgb.x, wr.a) || !int_ok<T> (rgb.y, wr.b) || !int_ok<T> (rgb.z, wr.c))
                    R ().fail ("hsv2rgb<" + tn + ">.scaled", in, Msg () << wr.a * MX << " " << wr.b * MX << " " << wr.c * MX,
                               fmt ((long long) rgb.x) + " " + fmt ((long long) rgb.y) + " " + fmt ((long long) rgb.z));
                if (with_c4)
                {
                    T  al = (T) ((i * 81 + j * 9 + k) % 256 % ((long long) MX + 1));
                    C4 h4 = IM::rgb2hsv (C4 (a, b, c, al)), r4 = IM::hsv2rgb (C4 (a, b, c, al));
                    tr += 2;
                    bool h4ok = (int_ok<T> (h4.r, wh.a) || wh.b == 0) && int_ok<T> (h4.g, wh.b) && int_ok<T> (h4.b, wh.c);
                    if (!h4ok) R ().fail ("rgb2hsv<Color4<" + tn + ">>.scaled", in, Msg () << wh.a * MX << " " << wh.b * MX << " " << wh.c * MX,
                                          fmt ((long long) h4.r) + " " + fmt ((long long) h4.g) + " " + fmt ((long long) h4.b));
                    if (!int_ok<T> (r4.r, wr.a) || !int_ok<T> (r4.g, wr.b) || !int_ok<T> (r4.b, wr.c))
                        R ().fail ("hsv2rgb<Color4<" + tn + ">>.scaled", in, Msg () << wr.a * MX << " " << wr.b * MX << " " << wr.c * MX,
                                   fmt ((long long) r4.r) + " " + fmt ((long long) r4.g) + " " + fmt ((long long) r4.b));
                    if (h4.a != al) R ().fail ("rgb2hsv<Color4<" + tn + ">>.alpha", in + " alpha " + fmt ((long long) al), fmt ((long long) al), fmt ((long long) h4.a));
                    if (r4.a != al) R ().fail ("hsv2rgb<Color4<" + tn + ">>.alpha", in + " alpha " + fmt ((long long) al), fmt ((long long) al), fmt ((long long) r4.a));
                }
            }
    R ().cls ("color." + tn + ".channel-at-max", full); R ().cls ("color." + tn + ".channel-at-zero", zero);
    R ().add ("states", 2 * n); R ().add ("evaluations", 2 * n); R ().add ("transitions", tr);
    R ().stage_done ("rgb and hsv over floor(k*max/8)^3, k = 0..8: model value scaled by max and truncated" + std::string (with_c4 ? "; Color4 overload with 256-cycle alpha" : ""));
}

// ---- integer element types: Color4 overloads against the Vec3 overloads, alpha pass-through ------------
// Statement: "their Vec3 and Color4 overloads agree and pass alpha through, integer element types scale by their
// maximum". Nothing here depends on a model: the two overloads are given the same three channels and must return the
// same three channels (the type is integral, so "agree" is equality), and the fourth channel must come back
// unchanged, for EVERY value the element type can hold (8- and 16-bit types: all of them; int: a boundary alphabet).
template <class T> struct AlphaSet
{
    static std::vector<long long> get ()
    {
        std::vector<long long> v;
        for (long long a = (long long) std::numeric_limits<T>::min (); a <= (long long) std::numeric_limits<T>::max (); ++a) v.push_back (a);
        return v;
    }
};
template <> struct AlphaSet<int>
{
    static std::vector<long long> get ()
    {
        std::vector<long long> v = {0, 1, 2, 3, 127, 128, 255, 256, 32767, 32768, 65535, 65536, 16777215, 16777216, 16777217, 1073741823, 1073741824,
                                    2147483645, 2147483646, 2147483647, -1, -2, -255, -65536, -16777217, -2147483647, -2147483647 - 1};
        return v;
    }
};

template <class T> void int_color4 (const std::string& tn)
{
    if (!R ().stage ("color4-" + tn)) return;
    typedef IM::Vec3<T>   V3;
    typedef IM::Color4<T> C4;
    const LD  MX = (LD) std::numeric_limits<T>::max ();
    long long n = 0, tr = 0, c_alpha = 0, c_neg = 0, c_grid = 0;
    auto      s3 = [] (const V3& v) { return fmt ((long long) v.x) + " " + fmt ((long long) v.y) + " " + fmt ((long long) v.z); };
    auto      s4 = [] (const C4& c) { return fmt ((long long) c.r) + " " + fmt ((long long) c.g) + " " + fmt ((long long) c.b); };
    // (a) every alpha value, three fixed colours (a saturated one, a grey one, black)
    const std::vector<long long> AL = AlphaSet<T>::get ();
    const T                      cols[3][3] = {{(T) (MX / 5), (T) (MX / 2), (T) (MX - 1)}, {(T) (MX / 3), (T) (MX / 3), (T) (MX / 3)}, {T (0), T (0), T (0)}};
    for (long long a : AL)
        for (int k = 0; k < 3; ++k)
        {
            T  al = (T) a;
            C4 in4 (cols[k][0], cols[k][1], cols[k][2], al);
            C4 h4 = IM::rgb2hsv (in4), r4 = IM::hsv2rgb (in4);
            ++n; tr += 2; ++c_alpha;
            if (a < 0) ++c_neg;
            if (h4.a != al) R ().fail ("rgb2hsv<Color4<" + tn + ">>.alpha", tn + " " + s4 (in4) + " alpha " + fmt (a), fmt (a), fmt ((long long) h4.a));
            if (r4.a != al) R ().fail ("hsv2rgb<Color4<" + tn + ">>.alpha", tn + " " + s4 (in4) + " alpha " + fmt (a), fmt (a), fmt ((long long) r4.a));
        }
    // (b) the 9^3 grid floor(k*max/8): Color4 == Vec3 channel by channel, alpha cycling through the alphabet
    size_t ai = 0;
    for (int i = 0; i < 9; ++i)
        for (int j = 0; j < 9; ++j)
            for (int k = 0; k < 9; ++k)
            {
                T  a = (T) floorl (i * MX / 8), b = (T) floorl (j * MX / 8), c = (T) floorl (k * MX / 8), al = (T) AL[(ai += 7919) % AL.size ()];
                V3 v (a, b, c);
                C4 q (a, b, c, al);
                V3 hv = IM::rgb2hsv (v), rv = IM::hsv2rgb (v);
                C4 hc = IM::rgb2hsv (q), rc = IM::hsv2rgb (q);
                ++n; tr += 4; ++c_grid;
                std::string in = tn + " " + s3 (v) + " alpha " + fmt ((long long) al);
                if (hc.r != hv.x || hc.g != hv.y || hc.b != hv.z) R ().fail ("rgb2hsv<Color4<" + tn + ">>.vs-Vec3", in, s3 (hv), s4 (hc));
                if (rc.r != rv.x || rc.g != rv.y || rc.b != rv.z) R ().fail ("hsv2rgb<Color4<" + tn + ">>.vs-Vec3", in, s3 (rv), s4 (rc));
                if (hc.a != al) R ().fail ("rgb2hsv<Color4<" + tn + ">>.alpha", in, fmt ((long long) al), fmt ((long long) hc.a));
                if (rc.a != al) R ().fail ("hsv2rgb<Color4<" + tn + ">>.alpha", in, fmt ((long long) al), fmt ((long long) rc.a));
            }
    R ().cls ("color4." + tn + ".alpha-values", c_alpha);
    if (std::numeric_limits<T>::is_signed) R ().cls ("color4." + tn + ".negative-alpha", c_neg);
    R ().cls ("color4." + tn + ".grid-triples-vs-Vec3", c_grid);
    R ().add ("states", n); R ().add ("evaluations", n); R ().add ("transitions", tr);
    R ().stage_done (std::to_string (AL.size ()) + " alpha values x 3 colours (alpha returned unchanged) + floor(k*max/8)^3 grid: Color4 overloads == Vec3 overloads, both directions");
}

// ---- ALL 2^24 unsigned-char triples --------------------------------------------------------------------
// (1) Vec3<unsigned char> against the long-double model scaled by 255 and truncated (the same oracle as the 9^3 grid:
//     covers hues that are not multiples of 1/8, the neighbourhood of every sector boundary, every saturation);
// (2) Color4<unsigned char> == Vec3<unsigned char> channel by channel, alpha (a function of the triple that takes all
//     256 values) returned unchanged.
void uchar_all ()
{
    if (!R ().stage ("color-uchar-all")) return;
    typedef unsigned char T;
    typedef IM::Vec3<T>   V3;
    typedef IM::Color4<T> C4;
    const LD                MX = 255;
    std::atomic<long long>  done (0), c_grey (0), c_negh (0), c_wrap (0), c_sect[6], c_satmax (0);
    for (auto& c : c_sect) c = 0;
    auto s3 = [] (int a, int b, int c) { return std::string ("unsigned char ") + fmt (a) + " " + fmt (b) + " " + fmt (c); };
    bool complete = parallel_chunks (1ull << 24, 1ull << 16, [&] (uint64_t lo, uint64_t hi, unsigned) {
        long long grey = 0, negh = 0, wrap = 0, sect[6] = {0, 0, 0, 0, 0, 0}, satmax = 0;
        for (uint64_t i = lo; i < hi; ++i)
        {
            const int a = (int) (i >> 16), b = (int) ((i >> 8) & 255), c = (int) (i & 255);
            const T   al = (T) ((a * 7 + b * 13 + c * 29 + (a ^ b ^ c)) & 255);
            const LD  fa = a / MX, fb = b / MX, fc = c / MX;
            V3 v ((T) a, (T) b, (T) c);
            C4 q ((T) a, (T) b, (T) c, al);
            // ---- as rgb
            V3  hv = IM::rgb2hsv (v);
            Tri wh = model_rgb2hsv (fa, fb, fc);
            if (a == b && b == c) ++grey;
            else if (a >= b && a >= c && b < c) ++negh;
            if (!(int_ok<T> (hv.x, wh.a) || wh.b == 0)) R ().fail ("rgb2hsv<unsigned char>.scaled.all-triples", s3 (a, b, c) + " hue", fmt (wh.a * MX), fmt ((int) hv.x));
            if (!int_ok<T> (hv.y, wh.b)) R ().fail ("rgb2hsv<unsigned char>.scaled.all-triples", s3 (a, b, c) + " saturation", fmt (wh.b * MX), fmt ((int) hv.y));
            if (!int_ok<T> (hv.z, wh.c)) R ().fail ("rgb2hsv<unsigned char>.scaled.all-triples", s3 (a, b, c) + " value", fmt (wh.c * MX), fmt ((int) hv.z));
            C4 hc = IM::rgb2hsv (q);
            if (hc.r != hv.x || hc.g != hv.y || hc.b != hv.z)
                R ().fail ("rgb2hsv<Color4<unsigned char>>.vs-Vec3", s3 (a, b, c), fmt ((int) hv.x) + " " + fmt ((int) hv.y) + " " + fmt ((int) hv.z), fmt ((int) hc.r) + " " + fmt ((int) hc.g) + " " + fmt ((int) hc.b));
            if (hc.a != al) R ().fail ("rgb2hsv<Color4<unsigned char>>.alpha", s3 (a, b, c) + " alpha " + fmt ((int) al), fmt ((int) al), fmt ((int) hc.a));
            // ---- as hsv
            V3  rv = IM::hsv2rgb (v);
            Tri wr = model_hsv2rgb (fa, fb, fc);
            if (a == 255) ++wrap; else sect[(a * 6) / 255]++;
            if (b == 255) ++satmax;
            if (!int_ok<T> (rv.x, wr.a) || !int_ok<T> (rv.y, wr.b) || !int_ok<T> (rv.z, wr.c))
                R ().fail ("hsv2rgb<unsigned char>.scaled.all-triples", s3 (a, b, c), std::string (Msg () << wr.a * MX << " " << wr.b * MX << " " << wr.c * MX), fmt ((int) rv.x) + " " + fmt ((int) rv.y) + " " + fmt ((int) rv.z));
            C4 rc = IM::hsv2rgb (q);
            if (rc.r != rv.x || rc.g != rv.y || rc.b != rv.z)
                R ().fail ("hsv2rgb<Color4<unsigned char>>.vs-Vec3", s3 (a, b, c), fmt ((int) rv.x) + " " + fmt ((int) rv.y) + " " + fmt ((int) rv.z), fmt ((int) rc.r) + " " + fmt ((int) rc.g) + " " + fmt ((int) rc.b));
            if (rc.a != al) R ().fail ("hsv2rgb<Color4<unsigned char>>.alpha", s3 (a, b, c) + " alpha " + fmt ((int) al), fmt ((int) al), fmt ((int) rc.a));
        }
        done += (long long) (hi - lo); c_grey += grey; c_negh += negh; c_wrap += wrap; c_satmax += satmax;
        for (int k = 0; k < 6; ++k) c_sect[k] += sect[k];
    });
    R ().cls ("color.uchar-all.grey-axis", c_grey.load ()); R ().cls ("color.uchar-all.negative-hue-wraps", c_negh.load ());
    R ().cls ("color.uchar-all.hue-255-wraps", c_wrap.load ()); R ().cls ("color.uchar-all.saturation-255", c_satmax.load ());
    for (int k = 0; k < 6; ++k) R ().cls ("color.uchar-all.sector" + std::to_string (k), c_sect[k].load ());
    R ().add ("states", 2 * done.load ()); R ().add ("evaluations", 2 * done.load ()); R ().add ("transitions", 4 * done.load ());
    if (complete) R ().stage_done ("all 2^24 unsigned-char triples as rgb and as hsv: Vec3 result == model scaled by 255 and truncated; Color4 result == Vec3 result, alpha unchanged");
    else R ().stage_partial (std::to_string (done.load ()) + " of 2^24 triples");
}

// ---- packed colours ---------------------------------------------------------------------------------
template <class T> void packed (const std::string& tn, long long& n, long long& tr, long long& c_bg)
{
    typedef IM::Vec3<T>   V3;
    typedef IM::Color4<T> C4;
    for (int ch = 0; ch < 4; ++ch)
        for (unsigned v = 0; v < 256; ++v)
            for (int bg = 0; bg < 2; ++bg) // the other three channels all-zeros / all-ones: channels are independent
            {
                IM::PackedColor mask = 0xffu << (8 * ch), p = (v << (8 * ch)) | (bg ? ~mask : 0u);
                ++n;
                if (bg) ++c_bg;
                C4 c;
                IM::packed2rgb (p, c);
                IM::PackedColor q = IM::rgb2packed (c);
                ++tr;
                std::string in = tn + " " + c17::hx32 (p);
                if (q != p)
                {
                    // narrow class: only the enumerated channel is off, by exactly one step down (truncation of
                    // v * fl(1/255) * 255 < v). Anything else (wrong channel, wrong shift, other magnitude) is a different site.
                    bool down_one = ((q ^ p) & ~mask) == 0 && ((q & mask) >> (8 * ch)) + 1 == v;
                    // The statement promises the round trip "for float-element colours". For double elements
                    // v * fl(1/255) * 255 lands one ulp below v for 24 of the 256 values and the cast truncates;
                    // that is outside the statement, so it is counted, not judged (any OTHER difference still fails).
                    if (down_one && sizeof (T) == sizeof (double)) R ().add ("packed.double-elements.truncated-one-step-down (outside the statement, informational)", 1);
                    else
                    R ().fail (down_one ? "rgb2packed(packed2rgb(p)).Color4<" + tn + ">.channel-truncated-down-by-one" : "rgb2packed(packed2rgb(p)).Color4<" + tn + ">", in,
                               c17::hx32 (p), c17::hx32 (q));
                }
                // the components themselves: v/255 to 2 eps (one rounding of 1/255, one of the product)
                T comp[4] = {c.r, c.g, c.b, c.a};
                for (int k = 0; k < 4; ++k)
                {
                    LD w = (LD) ((p >> (8 * k)) & 0xff) / 255;
                    if (absl ((LD) comp[k] - w) > 2 * (LD) std::numeric_limits<T>::epsilon () * w)
                        R ().fail ("packed2rgb.Color4<" + tn + ">.component", in + " channel " + fmt (k), fmt (w), Msg () << comp[k]);
                }
                if (ch < 3)
                {
                    V3 c3;
                    IM::packed2rgb (p, c3);
                    IM::PackedColor q3 = IM::rgb2packed (c3), w3 = (p & 0x00ffffffu) | 0xff000000u;
                    ++tr;
                    if (!ex::same (c3.x, c.r) || !ex::same (c3.y, c.g) || !ex::same (c3.z, c.b))
                        R ().fail ("packed2rgb.Vec3-vs-Color4<" + tn + ">", in, Msg () << c.r << " " << c.g << " " << c.b, Msg () << c3.x << " " << c3.y << " " << c3.z);
                    if (q3 != w3)
                    {
                        bool down_one = ((q3 ^ w3) & ~mask) == 0 && ((q3 & mask) >> (8 * ch)) + 1 == v;
                        if (down_one && sizeof (T) == sizeof (double)) R ().add ("packed.double-elements.truncated-one-step-down (outside the statement, informational)", 1);
                        else
                        R ().fail (down_one ? "rgb2packed(packed2rgb(p)).Vec3<" + tn + ">.channel-truncated-down-by-one" : "rgb2packed(packed2rgb(p)).Vec3<" + tn + ">", in,
                                   c17::hx32 (w3), c17::hx32 (q3));
                    }
                }
            }
}

} // namespace

void c17_color_stages ()
{
    fp_color<double> ("double");
    fp_color<float> ("float");
    int_color<unsigned char> ("unsigned char", true);
    int_color<short> ("short", false);
    int_color4<unsigned char> ("unsigned char");
    int_color4<short> ("short");
    int_color4<unsigned short> ("unsigned short");
    int_color4<int> ("int");
    uchar_all ();
    if (R ().stage ("packed-roundtrip"))
    {
        long long n = 0, tr = 0, bg = 0;
        packed<float> ("float", n, tr, bg);
        packed<double> ("double", n, tr, bg);
        R ().cls ("packed.other-channels-saturated", bg);
        R ().add ("states", n); R ().add ("evaluations", n); R ().add ("transitions", tr);
        R ().sample ("rgb2packed(packed2rgb(0x21) as C4f) = " + c17::hx32 ([] { IM::C4f c; IM::packed2rgb (0x21u, c); return IM::rgb2packed (c); }()));
        R ().stage_done ("all 256 values of each of the 4 channels, other channels 0x00 and 0xff, float and double elements, Color4 and Vec3");
    }
}
