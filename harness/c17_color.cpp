// C17 — rgb2hsv / hsv2rgb / rgb2packed / packed2rgb.
//
// Oracle: the textbook hexcone model written with chroma (c = v*s, x = c(1-|h' mod 2 - 1|), m = v - c) in long
// double — a different formulation from the library's p/q/t table.
// Grid: every rgb and every hsv triple in {0,1/8,...,1}^3 (729 each: grey axis, black, pure hues, hue = 1 wrap).
// Tolerance 16 eps(T), absolute (all quantities are <= 1), hue compared modulo 1. Error analysis (done before
// the first run): on this grid hsv2rgb is exact in double (f in {0,1/4,1/2,3/4}, all products have <= 8
// significant bits); rgb2hsv performs one division for s and (division, addition of 2 or 4, division by 6,
// optional +1) for h: the addition rounds at magnitude < 8 (half ulp = 2 eps), the rest at magnitude <= 1, so
// |dh| <= 2eps/6 + 3*(eps/4) < 1.1 eps, |ds| <= eps/4. Feeding that back through hsv2rgb multiplies dh by 6,
// adds the rounding of 6h (<= 2 eps) and of three products: < 6.6 + 2 + 1 < 10 eps. For T = float the double
// results are rounded once more to float (<= eps_f/4) and the same budget holds with eps_f. 16 eps covers
// both directions with margin < 2x; it is not tuned.
// Where the inverse is not defined (s = 0: hue arbitrary; v = 0: hue and saturation arbitrary) only the defined
// components are compared.
// Integer element types: the result must be the model value scaled by numeric_limits<T>::max, truncated — i.e.
// lie in (w - 1 - d, w + d] with d = 1e-4*max covering the float/double rounding before the truncation.
#include "c17.hpp"
#include <ImathColorAlgo.h>
#include <algorithm>
#include <atomic>
#include <cstdint>
#include <limits>

using namespace vf;

namespace {

typedef long double LD;
struct Tri { LD a, b, c; };

Tri model_hsv2rgb (LD h, LD s, LD v)
{
    LD hp = h * 6;
    while (hp >= 6) hp -= 6; // hue 1 == hue 0
    LD c = v * s, m = v - c;
    LD k = fmodl (hp, 2) - 1;
    LD x = c * (1 - (k < 0 ? -k : k));
    Tri o;
    int sector = (int) floorl (hp);
    switch (sector)
    {
        case 0: o = {c, x, 0}; break;
        case 1: o = {x, c, 0}; break;
        case 2: o = {0, c, x}; break;
        case 3: o = {0, x, c}; break;
        case 4: o = {x, 0, c}; break;
        default: o = {c, 0, x}; break;
    }
    o.a += m; o.b += m; o.c += m;
    return o;
}
Tri model_rgb2hsv (LD r, LD g, LD b)
{
    LD mx = std::max (r, std::max (g, b)), mn = std::min (r, std::min (g, b)), c = mx - mn;
    Tri o;
    o.c = mx;
    o.b = mx == 0 ? 0 : c / mx;
    if (c == 0) o.a = 0;
    else if (mx == r) { LD t = (g - b) / c; if (t < 0) t += 6; o.a = t / 6; }
    else if (mx == g) o.a = ((b - r) / c + 2) / 6;
    else o.a = ((r - g) / c + 4) / 6;
    return o;
}
LD absl (LD x) { return x < 0 ? -x : x; }
LD huedist (LD a, LD b) { LD d = absl (a - b); d = fmodl (d, 1); return std::min (d, 1 - d); }

struct CT { long long n = 0, tr = 0, grey = 0, black = 0, pure = 0, wrap = 0, sector[6] = {0, 0, 0, 0, 0, 0}, negh = 0, generic = 0; };

template <class T> void fp_color (const std::string& tn)
{
    if (!R ().stage ("color-" + tn)) return;
    typedef IM::Vec3<T>   V3;
    typedef IM::Color4<T> C4;
    const LD TOL = 16 * (LD) std::numeric_limits<T>::epsilon ();
    const T  alphas[] = {T (0), T (0.5), T (1), T (0.3), T (-2), T (7)};
    CT       t;
    const int G = R ().thorough () ? 16 : 8; // grid {0,1/G,...,1}; the exactness argument above holds for both
    for (int i = 0; i <= G; ++i)
        for (int j = 0; j <= G; ++j)
            for (int k = 0; k <= G; ++k)
            {
                T a = T (i) / G, b = T (j) / G, c = T (k) / G;
                std::string in = Msg () << tn << " " << a << " " << b << " " << c;
                ++t.n;
                // ---------- (a,b,c) as rgb
                {
                    V3  hsv = IM::rgb2hsv (V3 (a, b, c));
                    Tri w   = model_rgb2hsv (a, b, c);
                    ++t.tr;
                    bool grey = (i == j && j == k);
                    if (grey) ++t.grey;
                    if (i + j + k == 0) ++t.black;
                    if (!(hsv.x >= 0 && hsv.x <= 1)) R ().fail ("rgb2hsv.hue-range", in, "[0,1]", Msg () << hsv.x);
                    if (absl ((LD) hsv.z - w.c) > TOL) R ().fail ("rgb2hsv.value", in, fmt (w.c), Msg () << hsv.z);
                    if (w.c > 0 && absl ((LD) hsv.y - w.b) > TOL) R ().fail ("rgb2hsv.saturation", in, fmt (w.b), Msg () << hsv.y);
                    if (w.c > 0 && w.b > 0 && huedist (hsv.x, w.a) > TOL) R ().fail ("rgb2hsv.hue", in, fmt (w.a), Msg () << hsv.x);
                    if (grey && (hsv.y != 0)) R ().fail ("rgb2hsv.grey-axis", in, "saturation 0", Msg () << hsv.y);
                    if (!grey && a == std::max (a, std::max (b, c)) && b < c) ++t.negh; // red sector below zero: hue wraps by +1
                    // round trip rgb -> hsv -> rgb
                    V3 back = IM::hsv2rgb (hsv);
                    ++t.tr;
                    LD e = std::max (absl ((LD) back.x - a), std::max (absl ((LD) back.y - b), absl ((LD) back.z - c)));
                    R ().note_max ("hsv2rgb(rgb2hsv(rgb)) error / eps <" + tn + ">", (double) (e / (TOL / 16)));
                    if (e > TOL) R ().fail ("hsv2rgb(rgb2hsv(rgb))", in, in, Msg () << back.x << " " << back.y << " " << back.z);
                    // Color4 overload: bitwise the same, alpha untouched
                    for (T al : alphas)
                    {
                        C4 h4 = IM::rgb2hsv (C4 (a, b, c, al));
                        ++t.tr;
                        if (!ex::same (h4.r, hsv.x) || !ex::same (h4.g, hsv.y) || !ex::same (h4.b, hsv.z))
                            R ().fail ("rgb2hsv.Color4-vs-Vec3", in, Msg () << hsv.x << " " << hsv.y << " " << hsv.z, Msg () << h4.r << " " << h4.g << " " << h4.b);
                        if (!ex::same (h4.a, al)) R ().fail ("rgb2hsv.Color4.alpha", in + " alpha " + fmt (al), Msg () << al, Msg () << h4.a);
                    }
                }
                // ---------- (a,b,c) as hsv
                {
                    V3  rgb = IM::hsv2rgb (V3 (a, b, c));
                    Tri w   = model_hsv2rgb (a, b, c);
                    ++t.tr;
                    if (i == G) ++t.wrap;
                    else t.sector[(i * 6) / G]++;
                    if (j == G && k == G && (i * 6) % G == 0) ++t.pure;
                    LD e = std::max (absl ((LD) rgb.x - w.a), std::max (absl ((LD) rgb.y - w.b), absl ((LD) rgb.z - w.c)));
                    if (e > TOL) R ().fail ("hsv2rgb", in, Msg () << w.a << " " << w.b << " " << w.c, Msg () << rgb.x << " " << rgb.y << " " << rgb.z);
                    // round trip hsv -> rgb -> hsv on the components the inverse determines
                    V3 back = IM::rgb2hsv (rgb);
                    ++t.tr;
                    std::string got = Msg () << back.x << " " << back.y << " " << back.z;
                    if (absl ((LD) back.z - c) > TOL) R ().fail ("rgb2hsv(hsv2rgb(hsv)).value", in, in, got);
                    if (k > 0 && absl ((LD) back.y - b) > TOL) R ().fail ("rgb2hsv(hsv2rgb(hsv)).saturation", in, in, got);
                    if (k > 0 && j > 0)
                    {
                        LD d = huedist (back.x, a);
                        R ().note_max ("rgb2hsv(hsv2rgb(hsv)) hue error / eps <" + tn + ">", (double) (d / (TOL / 16)));
                        if (d > TOL) R ().fail ("rgb2hsv(hsv2rgb(hsv)).hue", in, in, got);
                    }
                    else ++t.generic;
                    for (T al : alphas)
                    {
                        C4 r4 = IM::hsv2rgb (C4 (a, b, c, al));
                        ++t.tr;
                        if (!ex::same (r4.r, rgb.x) || !ex::same (r4.g, rgb.y) || !ex::same (r4.b, rgb.z))
                            R ().fail ("hsv2rgb.Color4-vs-Vec3", in, Msg () << rgb.x << " " << rgb.y << " " << rgb.z, Msg () << r4.r << " " << r4.g << " " << r4.b);
                        if (!ex::same (r4.a, al)) R ().fail ("hsv2rgb.Color4.alpha", in + " alpha " + fmt (al), Msg () << al, Msg () << r4.a);
                    }
                }
            }
    R ().cls ("color." + tn + ".grey-axis", t.grey); R ().cls ("color." + tn + ".black", t.black);
    R ().cls ("color." + tn + ".pure-hue", t.pure); R ().cls ("color." + tn + ".hue-wrap-at-1", t.wrap);
    R ().cls ("color." + tn + ".negative-hue-wraps", t.negh);
    for (int s = 0; s < 6; ++s) R ().cls ("color." + tn + ".sector" + std::to_string (s), t.sector[s]);
    R ().add ("color." + tn + ".inverse-undefined.generic", t.generic);
    R ().add ("states", 2 * t.n); R ().add ("evaluations", 2 * t.n); R ().add ("transitions", t.tr);
    R ().stage_done ("rgb and hsv over {0,1/" + std::to_string (G) + ",..,1}^3: model agreement, both round trips, Color4 overloads x 6 alphas");
}

// ---- the unit-cube grid scaled by exact powers of two: dark colours down to the subnormal range ---------------
// Statement: "rgb2hsv and hsv2rgb are mutually inverse on the unit cube". The unit cube contains colours of every
// magnitude: hue and saturation are ratios of channel differences and hence invariant under rgb -> c*rgb (c > 0), value
// scales with c; conversely hsv2rgb is linear in v. So for every grid colour (i,j,k)/8 and every scale 2^-n that keeps
// the channels representable (float: n <= 140, i.e. channels >= 2^-143; double: n <= 1060) the DEFINITION gives the same
// hue and saturation as for the unscaled colour and 2^-n times the value. A conversion that treats small magnitudes as
// "numerically black" (thresholds such as max > epsilon) differs from the definition by a full unit of saturation.
// Oracle: the same long-double model as above, evaluated on the scaled colour (long double has 15 exponent bits: no
// underflow anywhere near these magnitudes); hue and saturation within the SAME absolute tolerance 16 eps(T) as the
// unscaled grid (they are scale-free quantities <= 1; the error analysis at the top of the file is in relative terms
// of the channel magnitudes and nothing in it underflows: the scaled channels and their differences are exactly
// representable, i*2^-(n+3), and every quotient is scale-free), value and the rgb channels within 16 eps(T) * 2^-n
// (relative to the scale) plus one denorm_min(T) for the final rounding of a result into T's subnormal range.
template <class T> void fp_color_scaled (const std::string& tn)
{
    if (!R ().stage ("color-scaled-" + tn)) return;
    typedef IM::Vec3<T>   V3;
    typedef IM::Color4<T> C4;
    typedef std::numeric_limits<T> L;
    const LD  TOL = 16 * (LD) L::epsilon (), DEN = (LD) L::denorm_min (), DEPS = (LD) std::numeric_limits<double>::epsilon ();
    const int NMAX = sizeof (T) == sizeof (float) ? 140 : 1060, G = 8;
    const T   alphas[] = {T (0.3), T (-2)};
    long long n = 0, tr = 0, c_dark = 0, c_sub = 0, c_grey = 0, c_black = 0, c_sat = 0, c_negh = 0;
    const std::string SFX = ".scaled-by-2^-n";
    for (int e = 1; e <= NMAX; ++e)
    {
        const LD scale = ldexpl (1.0L, -e);
        for (int i = 0; i <= G; ++i)
            for (int j = 0; j <= G; ++j)
                for (int k = 0; k <= G; ++k)
                {
                    const T a = std::ldexp (T (i) / G, -e), b = std::ldexp (T (j) / G, -e), c = std::ldexp (T (k) / G, -e); // exact
                    auto in = [&] () { return std::string (Msg () << tn << " 2^-" << e << " * (" << i << " " << j << " " << k << ")/8 = " << a << " " << b << " " << c); };
                    ++n;
                    const int mxi = std::max (i, std::max (j, k));
                    if (mxi > 0 && (LD) mxi / G * scale <= DEPS) ++c_dark;
                    if ((i && a < L::min ()) || (j && b < L::min ()) || (k && c < L::min ())) ++c_sub;
                    // ---------- (a,b,c) as rgb
                    {
                        V3  hsv = IM::rgb2hsv (V3 (a, b, c));
                        Tri w   = model_rgb2hsv (a, b, c);
                        ++tr;
                        const bool grey = (i == j && j == k);
                        if (grey) ++c_grey;
                        if (mxi == 0) ++c_black;
                        if (!grey && std::min (i, std::min (j, k)) == 0) ++c_sat;
                        if (!grey && i == mxi && j < k) ++c_negh;
                        if (!(hsv.x >= 0 && hsv.x <= 1)) R ().fail ("rgb2hsv.hue-range" + SFX, in (), "[0,1]", Msg () << hsv.x);
                        if (!(absl ((LD) hsv.z - w.c) <= TOL * w.c + DEN)) R ().fail ("rgb2hsv.value" + SFX, in (), fmt (w.c), Msg () << hsv.z);
                        if (w.c > 0 && !(absl ((LD) hsv.y - w.b) <= TOL)) R ().fail ("rgb2hsv.saturation" + SFX, in (), fmt (w.b), Msg () << hsv.y);
                        if (w.c > 0 && w.b > 0 && !(huedist (hsv.x, w.a) <= TOL)) R ().fail ("rgb2hsv.hue" + SFX, in (), fmt (w.a), Msg () << hsv.x);
                        if (grey && (hsv.y != 0)) R ().fail ("rgb2hsv.grey-axis" + SFX, in (), "saturation 0", Msg () << hsv.y);
                        V3 back = IM::hsv2rgb (hsv);
                        ++tr;
                        LD er = std::max (absl ((LD) back.x - a), std::max (absl ((LD) back.y - b), absl ((LD) back.z - c)));
                        if (!(er <= TOL * scale + DEN)) R ().fail ("hsv2rgb(rgb2hsv(rgb))" + SFX, in (), in (), Msg () << back.x << " " << back.y << " " << back.z);
                        for (T al : alphas)
                        {
                            C4 h4 = IM::rgb2hsv (C4 (a, b, c, al));
                            ++tr;
                            if (!ex::same (h4.r, hsv.x) || !ex::same (h4.g, hsv.y) || !ex::same (h4.b, hsv.z))
                                R ().fail ("rgb2hsv.Color4-vs-Vec3" + SFX, in (), Msg () << hsv.x << " " << hsv.y << " " << hsv.z, Msg () << h4.r << " " << h4.g << " " << h4.b);
                            if (!ex::same (h4.a, al)) R ().fail ("rgb2hsv.Color4.alpha" + SFX, in () + " alpha " + fmt (al), Msg () << al, Msg () << h4.a);
                        }
                    }
                    // ---------- (i/8, j/8, c) as hsv: hue and saturation unscaled, value scaled
                    {
                        const T h = T (i) / G, s = T (j) / G;
                        V3  rgb = IM::hsv2rgb (V3 (h, s, c));
                        Tri w   = model_hsv2rgb (h, s, c);
                        ++tr;
                        LD er = std::max (absl ((LD) rgb.x - w.a), std::max (absl ((LD) rgb.y - w.b), absl ((LD) rgb.z - w.c)));
                        auto inh = [&] () { return std::string (Msg () << tn << " hsv " << h << " " << s << " " << c << " (value " << k << "/8 * 2^-" << e << ")"); };
                        if (!(er <= TOL * scale + DEN)) R ().fail ("hsv2rgb" + SFX, inh (), Msg () << w.a << " " << w.b << " " << w.c, Msg () << rgb.x << " " << rgb.y << " " << rgb.z);
                        V3 back = IM::rgb2hsv (rgb);
                        ++tr;
                        if (!(absl ((LD) back.z - c) <= TOL * scale + DEN)) R ().fail ("rgb2hsv(hsv2rgb(hsv)).value" + SFX, inh (), inh (), Msg () << back.x << " " << back.y << " " << back.z);
                        if (k > 0 && !(absl ((LD) back.y - s) <= TOL)) R ().fail ("rgb2hsv(hsv2rgb(hsv)).saturation" + SFX, inh (), inh (), Msg () << back.x << " " << back.y << " " << back.z);
                        if (k > 0 && j > 0 && !(huedist (back.x, h) <= TOL)) R ().fail ("rgb2hsv(hsv2rgb(hsv)).hue" + SFX, inh (), inh (), Msg () << back.x << " " << back.y << " " << back.z);
                        for (T al : alphas)
                        {
                            C4 r4 = IM::hsv2rgb (C4 (h, s, c, al));
                            ++tr;
                            if (!ex::same (r4.r, rgb.x) || !ex::same (r4.g, rgb.y) || !ex::same (r4.b, rgb.z))
                                R ().fail ("hsv2rgb.Color4-vs-Vec3" + SFX, inh (), Msg () << rgb.x << " " << rgb.y << " " << rgb.z, Msg () << r4.r << " " << r4.g << " " << r4.b);
                            if (!ex::same (r4.a, al)) R ().fail ("hsv2rgb.Color4.alpha" + SFX, inh () + " alpha " + fmt (al), Msg () << al, Msg () << r4.a);
                        }
                    }
                }
    }
    R ().cls ("color-scaled." + tn + ".largest-channel<=DBL_EPSILON(non-black)", c_dark);
    R ().cls ("color-scaled." + tn + ".subnormal-channel", c_sub);
    R ().cls ("color-scaled." + tn + ".grey-axis", c_grey); R ().cls ("color-scaled." + tn + ".black", c_black);
    R ().cls ("color-scaled." + tn + ".smallest-channel-0(saturation 1)", c_sat); R ().cls ("color-scaled." + tn + ".negative-hue-wraps", c_negh);
    R ().add ("states", 2 * n); R ().add ("evaluations", 2 * n); R ().add ("transitions", tr);
    R ().stage_done ("{0,1/8,..,1}^3 x every scale 2^-n, n = 1.." + std::to_string (NMAX) + " (channels exact down to the subnormal range): rgb2hsv hue/saturation as for the unscaled colour, value and hsv2rgb channels scaled; both round trips; Color4 overloads x 2 alphas");
}

// ---- integer element types --------------------------------------------------------------------------
template <class T> bool int_ok (T got, LD model01)
{
    const LD MX = (LD) std::numeric_limits<T>::max (), w = model01 * MX, d = 1e-4L * MX;
    return (LD) got > w - 1 - d && (LD) got <= w + d;
}

template <class T> void int_color (const std::string& tn, bool with_c4)
{
    if (!R ().stage ("color-" + tn)) return;
    typedef IM::Vec3<T>   V3;
    typedef IM::Color4<T> C4;
    const LD  MX = (LD) std::numeric_limits<T>::max ();
    long long n = 0, tr = 0, full = 0, zero = 0;
    for (int i = 0; i < 9; ++i)
        for (int j = 0; j < 9; ++j)
            for (int k = 0; k < 9; ++k)
            {
                T a = (T) floorl (i * MX / 8), b = (T) floorl (j * MX / 8), c = (T) floorl (k * MX / 8);
                LD          fa = a / MX, fb = b / MX, fc = c / MX;
                std::string in = tn + " " + fmt ((long long) a) + " " + fmt ((long long) b) + " " + fmt ((long long) c);
                ++n;
                if (i == 8 || j == 8 || k == 8) ++full;
                if (i == 0 || j == 0 || k == 0) ++zero;
                V3  hsv = IM::rgb2hsv (V3 (a, b, c));
                Tri wh  = model_rgb2hsv (fa, fb, fc);
                ++tr;
                // hue of a colour with negative raw hue is within rounding of 1 (wraps); compare modulo max
                bool hue_ok = int_ok<T> (hsv.x, wh.a) || (wh.b == 0);
                if (!hue_ok) R ().fail ("rgb2hsv<" + tn + ">.scaled", in + " hue", fmt (wh.a * MX), fmt ((long long) hsv.x));
                if (!int_ok<T> (hsv.y, wh.b)) R ().fail ("rgb2hsv<" + tn + ">.scaled", in + " saturation", fmt (wh.b * MX), fmt ((long long) hsv.y));
                if (!int_ok<T> (hsv.z, wh.c)) R ().fail ("rgb2hsv<" + tn + ">.scaled", in + " value", fmt (wh.c * MX), fmt ((long long) hsv.z));
                V3  rgb = IM::hsv2rgb (V3 (a, b, c));
                Tri wr  = model_hsv2rgb (fa, fb, fc);
                ++tr;
                if (!int_ok<T> (rgb.x, wr.a) || !int_ok<T> (rgb.y, wr.b) || !int_ok<T> (rgb.z, wr.c))
                    R ().fail ("hsv2rgb<" + tn + ">.scaled", in, Msg () << wr.a * MX << " " << wr.b * MX << " " << wr.c * MX,
                               fmt ((long long) rgb.x) + " " + fmt ((long long) rgb.y) + " " + fmt ((long long) rgb.z));
                if (with_c4)
                {
                    T  al = (T) ((i * 81 + j * 9 + k) % 256 % ((long long) MX + 1));
                    C4 h4 = IM::rgb2hsv (C4 (a, b, c, al)), r4 = IM::hsv2rgb (C4 (a, b, c, al));
                    tr += 2;
                    bool h4ok = (int_ok<T> (h4.r, wh.a) || wh.b == 0) && int_ok<T> (h4.g, wh.b) && int_ok<T> (h4.b, wh.c);
                    if (!h4ok) R ().fail ("rgb2hsv<Color4<" + tn + ">>.scaled", in, Msg () << wh.a * MX << " " << wh.b * MX << " " << wh.c * MX,
                                          fmt ((long long) h4.r) + " " + fmt ((long long) h4.g) + " " + fmt ((long long) h4.b));
                    if (!int_ok<T> (r4.r, wr.a) || !int_ok<T> (r4.g, wr.b) || !int_ok<T> (r4.b, wr.c))
                        R ().fail ("hsv2rgb<Color4<" + tn + ">>.scaled", in, Msg () << wr.a * MX << " " << wr.b * MX << " " << wr.c * MX,
                                   fmt ((long long) r4.r) + " " + fmt ((long long) r4.g) + " " + fmt ((long long) r4.b));
                    if (h4.a != al) R ().fail ("rgb2hsv<Color4<" + tn + ">>.alpha", in + " alpha " + fmt ((long long) al), fmt ((long long) al), fmt ((long long) h4.a));
                    if (r4.a != al) R ().fail ("hsv2rgb<Color4<" + tn + ">>.alpha", in + " alpha " + fmt ((long long) al), fmt ((long long) al), fmt ((long long) r4.a));
                }
            }
    R ().cls ("color." + tn + ".channel-at-max", full); R ().cls ("color." + tn + ".channel-at-zero", zero);
    R ().add ("states", 2 * n); R ().add ("evaluations", 2 * n); R ().add ("transitions", tr);
    R ().stage_done ("rgb and hsv over floor(k*max/8)^3, k = 0..8: model value scaled by max and truncated" + std::string (with_c4 ? "; Color4 overload with 256-cycle alpha" : ""));
}

// ---- integer element types: Color4 overloads against the Vec3 overloads, alpha pass-through ------------
// Statement: "their Vec3 and Color4 overloads agree and pass alpha through, integer element types scale by their
// maximum". Nothing here depends on a model: the two overloads are given the same three channels and must return the
// same three channels (the type is integral, so "agree" is equality), and the fourth channel must come back
// unchanged, for EVERY value the element type can hold (8- and 16-bit types: all of them; int: a boundary alphabet).
template <class T> struct AlphaSet
{
    static std::vector<long long> get ()
    {
        std::vector<long long> v;
        for (long long a = (long long) std::numeric_limits<T>::min (); a <= (long long) std::numeric_limits<T>::max (); ++a) v.push_back (a);
        return v;
    }
};
template <> struct AlphaSet<int>
{
    static std::vector<long long> get ()
    {
        std::vector<long long> v = {0, 1, 2, 3, 127, 128, 255, 256, 32767, 32768, 65535, 65536, 16777215, 16777216, 16777217, 1073741823, 1073741824,
                                    2147483645, 2147483646, 2147483647, -1, -2, -255, -65536, -16777217, -2147483647, -2147483647 - 1};
        return v;
    }
};

template <class T> void int_color4 (const std::string& tn)
{
    if (!R ().stage ("color4-" + tn)) return;
    typedef IM::Vec3<T>   V3;
    typedef IM::Color4<T> C4;
    const LD  MX = (LD) std::numeric_limits<T>::max ();
    long long n = 0, tr = 0, c_alpha = 0, c_neg = 0, c_grid = 0;
    auto      s3 = [] (const V3& v) { return fmt ((long long) v.x) + " " + fmt ((long long) v.y) + " " + fmt ((long long) v.z); };
    auto      s4 = [] (const C4& c) { return fmt ((long long) c.r) + " " + fmt ((long long) c.g) + " " + fmt ((long long) c.b); };
    // (a) every alpha value, three fixed colours (a saturated one, a grey one, black)
    const std::vector<long long> AL = AlphaSet<T>::get ();
    const T                      cols[3][3] = {{(T) (MX / 5), (T) (MX / 2), (T) (MX - 1)}, {(T) (MX / 3), (T) (MX / 3), (T) (MX / 3)}, {T (0), T (0), T (0)}};
    for (long long a : AL)
        for (int k = 0; k < 3; ++k)
        {
            T  al = (T) a;
            C4 in4 (cols[k][0], cols[k][1], cols[k][2], al);
            C4 h4 = IM::rgb2hsv (in4), r4 = IM::hsv2rgb (in4);
            ++n; tr += 2; ++c_alpha;
            if (a < 0) ++c_neg;
            if (h4.a != al) R ().fail ("rgb2hsv<Color4<" + tn + ">>.alpha", tn + " " + s4 (in4) + " alpha " + fmt (a), fmt (a), fmt ((long long) h4.a));
            if (r4.a != al) R ().fail ("hsv2rgb<Color4<" + tn + ">>.alpha", tn + " " + s4 (in4) + " alpha " + fmt (a), fmt (a), fmt ((long long) r4.a));
        }
    // (b) the 9^3 grid floor(k*max/8): Color4 == Vec3 channel by channel, alpha cycling through the alphabet
    size_t ai = 0;
    for (int i = 0; i < 9; ++i)
        for (int j = 0; j < 9; ++j)
            for (int k = 0; k < 9; ++k)
            {
                T  a = (T) floorl (i * MX / 8), b = (T) floorl (j * MX / 8), c = (T) floorl (k * MX / 8), al = (T) AL[(ai += 7919) % AL.size ()];
                V3 v (a, b, c);
                C4 q (a, b, c, al);
                V3 hv = IM::rgb2hsv (v), rv = IM::hsv2rgb (v);
                C4 hc = IM::rgb2hsv (q), rc = IM::hsv2rgb (q);
                ++n; tr += 4; ++c_grid;
                std::string in = tn + " " + s3 (v) + " alpha " + fmt ((long long) al);
                if (hc.r != hv.x || hc.g != hv.y || hc.b != hv.z) R ().fail ("rgb2hsv<Color4<" + tn + ">>.vs-Vec3", in, s3 (hv), s4 (hc));
                if (rc.r != rv.x || rc.g != rv.y || rc.b != rv.z) R ().fail ("hsv2rgb<Color4<" + tn + ">>.vs-Vec3", in, s3 (rv), s4 (rc));
                if (hc.a != al) R ().fail ("rgb2hsv<Color4<" + tn + ">>.alpha", in, fmt ((long long) al), fmt ((long long) hc.a));
                if (rc.a != al) R ().fail ("hsv2rgb<Color4<" + tn + ">>.alpha", in, fmt ((long long) al), fmt ((long long) rc.a));
            }
    R ().cls ("color4." + tn + ".alpha-values", c_alpha);
    if (std::numeric_limits<T>::is_signed) R ().cls ("color4." + tn + ".negative-alpha", c_neg);
    R ().cls ("color4." + tn + ".grid-triples-vs-Vec3", c_grid);
    R ().add ("states", n); R ().add ("evaluations", n); R ().add ("transitions", tr);
    R ().stage_done (std::to_string (AL.size ()) + " alpha values x 3 colours (alpha returned unchanged) + floor(k*max/8)^3 grid: Color4 overloads == Vec3 overloads, both directions");
}

// ---- integer element types: results that are exactly representable by construction ---------------------
// Statement: "integer element types scale by their maximum". An integer colour x stands for x/max in the unit cube and
// a result y of the conversion is returned as y*max. The window of int_ok ((w-1-d, w+d]) exists only because y*max is in
// general not an integer and the statement does not say how the fraction is disposed of. Where the EXACT model result
// is, by construction, 0, 1 or one of the input channels itself — no arithmetic other than the scaling and its inverse
// is involved — y*max is an exact integer n ((x/max)*max = x, 0*max = 0, 1*max = max) and every way of disposing of
// a fraction (truncation, rounding) returns n: the statement admits n only. These are (exact model, not the library's
// formula):
//   rgb2hsv(r,g,b), 0 <= r,g,b <= max:  value      = max(r,g,b)                          (every triple)
//                                       saturation = 0    if r == g == b   (grey axis, black included)
//                                                  = max  if min(r,g,b) == 0 < max(r,g,b)   ((mx-0)/mx = 1)
//                                       hue        = 0    if r > g == b    ((g-b)/(mx-mn) = 0, red sector, no wrap)
//   hsv2rgb(h,s,v):   s == 0   -> (v,v,v) for every h            (c = v*0 = 0, m = v)
//                     v == 0   -> (0,0,0) for every h, s
//                     s == max -> the channel that carries c+m in the hue's sector equals v (c = v*1, m = v-v = 0); the
//                                 channel that carries m alone equals 0. The sector floor(6h/max) mod 6 is computed in
//                                 integers; max is odd for every element type, so 6h/max can only be an EVEN integer at a
//                                 sector boundary, and the two sectors meeting at an even boundary (5|0, 1|2, 3|4) carry
//                                 c+m in the same channel: the max-channel demand holds for every hue, the min-channel
//                                 demand is made strictly inside a sector and at h = 0 / h = max ((v,0,0)).
// Everything else (hues 1/3, 2/3, mid channels, general saturations) is NOT in this class — 1/3 is not representable —
// and stays with the window oracle of the other stages. Nothing is tuned: the oracle is equality.
// Space: every non-negative value k of the 8- and 16-bit element types (int / unsigned int: all 2^j, 2^j +- 1, 0..64,
// max-3..max, max/2 +- 1, max/3, max/5 and a prime-strided sweep) takes the role of the channel in question; the
// other channels run over {0, 1, k/2, k-1, k} (rgb, so that k stays the maximum; k in each of the three positions),
// the hue over 0, max, 1, max-1, one hue strictly inside each sector and k itself. Vec3 and Color4 overloads.
template <class T> struct ExactSet
{
    static std::vector<long long> get (bool)
    {
        std::vector<long long> v;
        for (long long a = 0; a <= (long long) std::numeric_limits<T>::max (); ++a) v.push_back (a);
        return v;
    }
};
template <class T> std::vector<long long> wide_exact_set (bool thorough)
{
    const long long        MX = (long long) std::numeric_limits<T>::max ();
    std::vector<long long> v;
    for (long long a = 0; a <= 64; ++a) v.push_back (a);
    for (int j = 6; j < 33; ++j)
        for (long long d = -1; d <= 1; ++d) { long long a = (1ll << j) + d; if (a <= MX) v.push_back (a); }
    for (long long d = 0; d <= 3; ++d) v.push_back (MX - d);
    v.push_back (MX / 2 - 1); v.push_back (MX / 2); v.push_back (MX / 2 + 1); v.push_back (MX / 3); v.push_back (MX / 5);
    const long long n = thorough ? (1ll << 18) : (1ll << 12), stride = MX / n - ((MX / n) % 2 == 0 ? 1 : 0); // odd stride
    for (long long i = 1; i <= n; ++i) v.push_back (i * stride - (i % 7));
    std::sort (v.begin (), v.end ());
    v.erase (std::unique (v.begin (), v.end ()), v.end ());
    return v;
}
template <> struct ExactSet<int> { static std::vector<long long> get (bool t) { return wide_exact_set<int> (t); } };
template <> struct ExactSet<unsigned int> { static std::vector<long long> get (bool t) { return wide_exact_set<unsigned int> (t); } };

template <class T> void int_exact (const std::string& tn)
{
    if (!R ().stage ("color-exact-" + tn)) return;
    typedef IM::Vec3<T>   V3;
    typedef IM::Color4<T> C4;
    const long long MX = (long long) std::numeric_limits<T>::max ();
    static const int MAXCH[6] = {0, 1, 1, 2, 2, 0}, MINCH[6] = {2, 2, 0, 0, 1, 1};
    const std::vector<long long> K = ExactSet<T>::get (R ().thorough ());
    long long n = 0, tr = 0, c_val = 0, c_grey = 0, c_sat1 = 0, c_hue0 = 0, c_s0 = 0, c_black = 0, c_smax_in = 0, c_smax_edge = 0, c_smax_bound = 0, c_top = 0, c_sect[6] = {0, 0, 0, 0, 0, 0};
    const std::string RS = "rgb2hsv<" + tn + ">.scaled.exactly-representable", RS4 = "rgb2hsv<Color4<" + tn + ">>.scaled.exactly-representable";
    const std::string HS = "hsv2rgb<" + tn + ">.scaled.exactly-representable", HS4 = "hsv2rgb<Color4<" + tn + ">>.scaled.exactly-representable";
    auto str = [&] (long long a, long long b, long long c) { return tn + " " + fmt (a) + " " + fmt (b) + " " + fmt (c); };
    // one rgb triple: both overloads against the exactly representable components
    auto rgb_case = [&] (long long r, long long g, long long b) {
        const long long mx = std::max (r, std::max (g, b)), mn = std::min (r, std::min (g, b));
        const T         al = (T) ((r * 7 + g * 13 + b * 29 + 5) % (MX + 1));
        V3 hv = IM::rgb2hsv (V3 ((T) r, (T) g, (T) b));
        C4 hc = IM::rgb2hsv (C4 ((T) r, (T) g, (T) b, al));
        ++n; tr += 2; ++c_val;
        const long long got3[3] = {(long long) hv.x, (long long) hv.y, (long long) hv.z}, got4[3] = {(long long) hc.r, (long long) hc.g, (long long) hc.b};
        for (int o = 0; o < 2; ++o)
        {
            const long long*   got  = o ? got4 : got3;
            const std::string& site = o ? RS4 : RS;
            if (got[2] != mx) R ().fail (site, str (r, g, b) + " value (= the largest channel)", fmt (mx), fmt (got[2]));
            if (mn == mx) { if (got[1] != 0) R ().fail (site, str (r, g, b) + " saturation (grey axis)", "0", fmt (got[1])); }
            else if (mn == 0) { if (got[1] != MX) R ().fail (site, str (r, g, b) + " saturation (smallest channel 0)", fmt (MX), fmt (got[1])); }
            if (r > g && g == b) { if (got[0] != 0) R ().fail (site, str (r, g, b) + " hue (r > g == b)", "0", fmt (got[0])); }
        }
        if (hc.a != al) R ().fail ("rgb2hsv<Color4<" + tn + ">>.alpha", str (r, g, b) + " alpha " + fmt ((long long) al), fmt ((long long) al), fmt ((long long) hc.a));
        if (mn == mx) ++c_grey; else if (mn == 0) ++c_sat1;
        if (r > g && g == b) ++c_hue0;
    };
    // one hsv triple of the class s == 0, v == 0 or s == max
    auto hsv_case = [&] (long long h, long long s, long long v) {
        const T al = (T) ((h * 3 + s * 11 + v * 17 + 1) % (MX + 1));
        V3 rv = IM::hsv2rgb (V3 ((T) h, (T) s, (T) v));
        C4 rc = IM::hsv2rgb (C4 ((T) h, (T) s, (T) v, al));
        ++n; tr += 2;
        const long long got3[3] = {(long long) rv.x, (long long) rv.y, (long long) rv.z}, got4[3] = {(long long) rc.r, (long long) rc.g, (long long) rc.b};
        // 6h/max in integers (6*max < 2^35)
        const long long six = 6 * h, sect = (six / MX) % 6;
        const bool      bound = six % MX == 0, edge = (h == 0 || h == MX);
        for (int o = 0; o < 2; ++o)
        {
            const long long*   got  = o ? got4 : got3;
            const std::string& site = o ? HS4 : HS;
            const std::string  g3   = fmt (got[0]) + " " + fmt (got[1]) + " " + fmt (got[2]);
            if (v == 0) { if (got[0] != 0 || got[1] != 0 || got[2] != 0) R ().fail (site, str (h, s, v) + " (value 0)", "0 0 0", g3); }
            else if (s == 0) { if (got[0] != v || got[1] != v || got[2] != v) R ().fail (site, str (h, s, v) + " (saturation 0)", fmt (v) + " " + fmt (v) + " " + fmt (v), g3); }
            else if (s == MX)
            {
                if (got[MAXCH[sect]] != v) R ().fail (site, str (h, s, v) + " (saturation max) channel " + fmt (MAXCH[sect]), fmt (v), g3);
                if (edge) { if (got[1] != 0 || got[2] != 0) R ().fail (site, str (h, s, v) + " (saturation max, hue 0)", fmt (v) + " 0 0", g3); }
                else if (!bound) { if (got[MINCH[sect]] != 0) R ().fail (site, str (h, s, v) + " (saturation max) channel " + fmt (MINCH[sect]), "0", g3); }
            }
        }
        if (rc.a != al) R ().fail ("hsv2rgb<Color4<" + tn + ">>.alpha", str (h, s, v) + " alpha " + fmt ((long long) al), fmt ((long long) al), fmt ((long long) rc.a));
        if (v == 0) ++c_black;
        else if (s == 0) ++c_s0;
        else if (s == MX) { if (edge) ++c_smax_edge; else if (bound) ++c_smax_bound; else { ++c_smax_in; ++c_sect[sect]; } }
    };
    // hues: 0, max, 1, max-1 and one strictly inside each sector ((2j+1)*max/12 is never on a boundary: max is odd)
    std::vector<long long> H = {0, MX, 1, MX - 1, MX / 3, 2 * (MX / 3)};
    for (int j = 0; j < 6; ++j) H.push_back ((2 * j + 1) * MX / 12);
    const long long V[4] = {1, MX / 2, MX - 1, MX};
    for (long long k : K)
    {
        if (k == MX) ++c_top;
        // ---- rgb: k is the largest channel, in each position; the other two from {0,1,k/2,k-1,k}
        long long O[5] = {0, 1, k / 2, k - 1, k};
        std::vector<long long> others;
        for (long long o : O) if (o >= 0 && o <= k && std::find (others.begin (), others.end (), o) == others.end ()) others.push_back (o);
        for (long long o1 : others)
            for (long long o2 : others)
            {
                rgb_case (k, o1, o2);
                if (o1 != k || o2 != k) { rgb_case (o1, k, o2); rgb_case (o1, o2, k); }
            }
        // ---- hsv: k as the value (s = 0, s = max over the hue set), as the hue (s = 0, s = max over 4 values) and as the
        //      saturation of black
        for (long long h : H) { hsv_case (h, 0, k); hsv_case (h, MX, k); hsv_case (h, k, 0); }
        for (long long v : V) { hsv_case (k, 0, v); hsv_case (k, MX, v); }
    }
    R ().cls ("color-exact." + tn + ".rgb.value-is-largest-channel", c_val);
    R ().cls ("color-exact." + tn + ".rgb.grey-axis(saturation 0)", c_grey);
    R ().cls ("color-exact." + tn + ".rgb.smallest-channel-0(saturation max)", c_sat1);
    R ().cls ("color-exact." + tn + ".rgb.r>g==b(hue 0)", c_hue0);
    R ().cls ("color-exact." + tn + ".hsv.saturation-0", c_s0);
    R ().cls ("color-exact." + tn + ".hsv.value-0", c_black);
    R ().cls ("color-exact." + tn + ".hsv.saturation-max.hue-0-or-max", c_smax_edge);
    R ().cls ("color-exact." + tn + ".hsv.saturation-max.hue-inside-a-sector", c_smax_in);
    for (int j = 0; j < 6; ++j) R ().cls ("color-exact." + tn + ".hsv.saturation-max.sector" + std::to_string (j), c_sect[j]);
    R ().cls ("color-exact." + tn + ".channel-value-equals-type-max", c_top);
    R ().add ("color-exact." + tn + ".hsv.saturation-max.hue-on-even-sector-boundary", c_smax_bound);
    R ().add ("states", n); R ().add ("evaluations", n); R ().add ("transitions", tr);
    R ().stage_done (std::to_string (K.size ()) + " channel values (" + (sizeof (T) <= 2 ? "every non-negative value of the type" : "2^j, 2^j+-1, 0..64, max-3..max, max/2+-1, max/3, max/5, odd-strided sweep") +
                     ") x {rgb with that value largest in each position x others {0,1,k/2,k-1,k}; hsv with s = 0, s = max, v = 0 over 12 hues and as the hue x 4 values}: "
                     "components that are 0, max or an input channel by construction returned EXACTLY, Vec3 and Color4 overloads");
}

// ---- wide integer element types, SMALL channel values ----------------------------------------------------
// Statement: "integer element types scale by their maximum": a channel n stands for n/max. For the 32- and 64-bit
// element types (Vec3<unsigned int>, Vec3<int64_t> = V3i64, Color4 likewise) ordinary small counts n are tiny fractions
// of the unit interval (n/2^63 <= 2^-52 for n <= 2048) - still ordinary, non-black colours whose hue and saturation are
// those of (r,g,b)/max by the definition. The floor(k*max/8) grids of the other integer stages never go below max/8,
// and their window d = 1e-4*max is useless for counts this small, so this stage fixes the window from the error
// analysis instead: the conversions work in double; the unit-scale quantities (hue, saturation) carry at most 16
// eps(double) of error (top of this file), scaled by max that is d1 = 16 eps max counts; a quantity that is itself a
// small count c (value; the rgb channels of hsv2rgb with a small v) carries 16 eps c counts, far below one count. The
// final conversion to T may dispose of the fraction by truncation or rounding: result in (w - 1 - d, w + d].
//   rgb2hsv(r,g,b):  value in (mx-1-d, mx+d], d = 16 eps mx;  saturation, hue in (w-1-d1, w+d1], w = model*max
//   hsv2rgb(rgb2hsv(r,g,b)): every channel n comes back in (n-2-dr, n+dr], dr = mx (7/max + 112 eps): the stored value may be
//        one count low (one more count in every channel), hue and saturation are stored to within one count of max,
//        i.e. 1/max + 16 eps of the unit interval, and enter the channels as val*(1 - sat*g(hue)), |dg/dhue| <= 6;
//   hsv2rgb(h,s,v) with a small v: channels in (w-1-d, w+d], d = 16 eps max(v,1).
// int64_t: double (max) is 2^63, so a result component equal to 1 (saturation of a colour whose smallest channel is 0)
// is not representable in T after scaling - those colours are counted as outside the judged domain and not called.
template <class T> void int_small (const std::string& tn)
{
    if (!R ().stage ("color-small-" + tn)) return;
    typedef IM::Vec3<T>   V3;
    typedef IM::Color4<T> C4;
    const LD  MX = (LD) std::numeric_limits<T>::max (), EPS = (LD) std::numeric_limits<double>::epsilon ();
    const bool wide = sizeof (T) == 8;
    std::vector<long long> K = {0, 1, 2, 3, 7, 8, 100, 255, 256, 600, 1000, 1200, 2040, 2047, 2048, 2049, 4095, 65536, (1ll << 20) + 1, 1ll << 31};
    if (wide) K.push_back ((1ll << 40) + 3);
    long long n = 0, tr = 0, c_tiny = 0, c_grey = 0, c_black = 0, c_negh = 0, c_sat1 = 0, x_unrep = 0, c_hsv = 0;
    auto win = [] (LD got, LD w, LD d, LD below) { return got > w - below - d && got <= w + d; };
    auto s3 = [&] (long long a, long long b, long long c) { return tn + " " + fmt (a) + " " + fmt (b) + " " + fmt (c); };
    const std::string RS = "rgb2hsv<" + tn + ">.scaled.small-channels", RS4 = "rgb2hsv<Color4<" + tn + ">>.scaled.small-channels";
    const std::string HS = "hsv2rgb<" + tn + ">.scaled.small-value", HS4 = "hsv2rgb<Color4<" + tn + ">>.scaled.small-value";
    for (long long r : K)
        for (long long g : K)
            for (long long b : K)
            {
                const long long mx = std::max (r, std::max (g, b)), mn = std::min (r, std::min (g, b));
                ++n;
                if (wide && mn == 0 && mx > 0) { ++x_unrep; continue; } // saturation 1 -> 2^63: not representable in int64_t
                const T   al = (T) ((r * 7 + g * 13 + b * 29 + 5) % 251);
                const V3  hv = IM::rgb2hsv (V3 ((T) r, (T) g, (T) b));
                const C4  hc = IM::rgb2hsv (C4 ((T) r, (T) g, (T) b, al));
                const Tri wh = model_rgb2hsv (r / MX, g / MX, b / MX);
                tr += 2;
                if (mx > 0 && mx / MX <= EPS) ++c_tiny;
                if (mx == mn) { if (mx) ++c_grey; else ++c_black; }
                else if (mn == 0) ++c_sat1;
                if (mx != mn && r == mx && g < b) ++c_negh;
                const LD d1 = 16 * EPS * MX, dv = 16 * EPS * mx;
                const LD got3[3] = {(LD) hv.x, (LD) hv.y, (LD) hv.z}, got4[3] = {(LD) hc.r, (LD) hc.g, (LD) hc.b};
                for (int o = 0; o < 2; ++o)
                {
                    const LD*          got  = o ? got4 : got3;
                    const std::string& site = o ? RS4 : RS;
                    if (!win (got[2], mx, dv, 1)) R ().fail (site, s3 (r, g, b) + " value", fmt (mx), fmt ((long long) got[2]));
                    if (!win (got[1], wh.b * MX, d1, 1)) R ().fail (site, s3 (r, g, b) + " saturation", fmt ((double) (wh.b * MX)), fmt ((long long) got[1]));
                    if (wh.b > 0 && !win (got[0], wh.a * MX, d1, 1)) R ().fail (site, s3 (r, g, b) + " hue", fmt ((double) (wh.a * MX)), fmt ((long long) got[0]));
                }
                if (hc.a != al) R ().fail ("rgb2hsv<Color4<" + tn + ">>.alpha", s3 (r, g, b) + " alpha " + fmt ((long long) al), fmt ((long long) al), fmt ((long long) hc.a));
                // round trip
                const V3 bv = IM::hsv2rgb (hv);
                const C4 bc = IM::hsv2rgb (hc);
                tr += 2;
                const LD dr = mx * (7 / MX + 112 * EPS);
                const long long in3[3] = {r, g, b};
                const LD b3[3] = {(LD) bv.x, (LD) bv.y, (LD) bv.z}, b4[3] = {(LD) bc.r, (LD) bc.g, (LD) bc.b};
                for (int ch = 0; ch < 3; ++ch)
                {
                    if (!win (b3[ch], in3[ch], dr, 2)) R ().fail ("hsv2rgb(rgb2hsv(rgb))<" + tn + ">.small-channels", s3 (r, g, b), s3 (r, g, b), fmt ((long long) b3[0]) + " " + fmt ((long long) b3[1]) + " " + fmt ((long long) b3[2]));
                    if (!win (b4[ch], in3[ch], dr, 2)) R ().fail ("hsv2rgb(rgb2hsv(rgb))<Color4<" + tn + ">>.small-channels", s3 (r, g, b), s3 (r, g, b), fmt ((long long) b4[0]) + " " + fmt ((long long) b4[1]) + " " + fmt ((long long) b4[2]));
                }
                if (bc.a != al) R ().fail ("hsv2rgb<Color4<" + tn + ">>.alpha", s3 (r, g, b) + " alpha " + fmt ((long long) al), fmt ((long long) al), fmt ((long long) bc.a));
            }
    // hsv2rgb of a small value under every kind of hue / saturation
    const long long M = (long long) std::numeric_limits<T>::max ();
    std::vector<long long> H = {0, M, 1, M - 1, M / 3, 2 * (M / 3), M / 2}, S = {0, 1, M / 4, M / 2, M - 1, M};
    for (int j = 0; j < 6; ++j) H.push_back ((long long) ((2 * j + 1) * (MX / 12)));
    for (long long h : H)
        for (long long s : S)
            for (long long v : K)
            {
                ++n; ++c_hsv; tr += 2;
                const T   al = (T) ((v * 7 + 3) % 251);
                const V3  rv = IM::hsv2rgb (V3 ((T) h, (T) s, (T) v));
                const C4  rc = IM::hsv2rgb (C4 ((T) h, (T) s, (T) v, al));
                const Tri w  = model_hsv2rgb (h / MX, s / MX, v / MX);
                const LD  d  = 16 * EPS * std::max<LD> (v, 1);
                const LD  w3[3] = {w.a * MX, w.b * MX, w.c * MX}, g3[3] = {(LD) rv.x, (LD) rv.y, (LD) rv.z}, g4[3] = {(LD) rc.r, (LD) rc.g, (LD) rc.b};
                for (int ch = 0; ch < 3; ++ch)
                {
                    if (!win (g3[ch], w3[ch], d, 1)) R ().fail (HS, s3 (h, s, v), fmt ((double) w3[0]) + " " + fmt ((double) w3[1]) + " " + fmt ((double) w3[2]), fmt ((long long) g3[0]) + " " + fmt ((long long) g3[1]) + " " + fmt ((long long) g3[2]));
                    if (!win (g4[ch], w3[ch], d, 1)) R ().fail (HS4, s3 (h, s, v), fmt ((double) w3[0]) + " " + fmt ((double) w3[1]) + " " + fmt ((double) w3[2]), fmt ((long long) g4[0]) + " " + fmt ((long long) g4[1]) + " " + fmt ((long long) g4[2]));
                }
                if (rc.a != al) R ().fail ("hsv2rgb<Color4<" + tn + ">>.alpha", s3 (h, s, v) + " alpha " + fmt ((long long) al), fmt ((long long) al), fmt ((long long) rc.a));
            }
    if (wide) R ().cls ("color-small." + tn + ".largest-channel/max<=DBL_EPSILON(non-black)", c_tiny);
    R ().cls ("color-small." + tn + ".grey-axis", c_grey); R ().cls ("color-small." + tn + ".black", c_black);
    R ().cls ("color-small." + tn + ".negative-hue-wraps", c_negh); R ().cls ("color-small." + tn + ".hsv-small-value", c_hsv);
    if (!wide) R ().cls ("color-small." + tn + ".smallest-channel-0(saturation max)", c_sat1);
    R ().add ("color-small." + tn + ".saturation-1-not-representable-after-scaling (outside the judged domain)", x_unrep);
    R ().add ("states", n); R ().add ("evaluations", n); R ().add ("transitions", tr);
    R ().stage_done (std::to_string (K.size ()) + "^3 rgb triples of small counts (0..2049, 4095, 2^16, 2^20+1, 2^31" + std::string (wide ? ", 2^40+3" : "") +
                     "): rgb2hsv against the model scaled by max within the a-priori double-rounding window, round trip, " + std::to_string (H.size () * S.size ()) +
                     " (hue, saturation) pairs x small values through hsv2rgb; Vec3 and Color4 overloads");
}

// ---- ALL 2^24 unsigned-char triples --------------------------------------------------------------------
// (1) Vec3<unsigned char> against the long-double model scaled by 255 and truncated (the same oracle as the 9^3 grid:
//     covers hues that are not multiples of 1/8, the neighbourhood of every sector boundary, every saturation);
// (2) Color4<unsigned char> == Vec3<unsigned char> channel by channel, alpha (a function of the triple that takes all
//     256 values) returned unchanged.
void uchar_all ()
{
    if (!R ().stage ("color-uchar-all")) return;
    typedef unsigned char T;
    typedef IM::Vec3<T>   V3;
    typedef IM::Color4<T> C4;
    const LD                MX = 255;
    std::atomic<long long>  done (0), c_grey (0), c_negh (0), c_wrap (0), c_sect[6], c_satmax (0), c_sat1 (0), c_hue0 (0), c_sat0 (0);
    for (auto& c : c_sect) c = 0;
    auto s3 = [] (int a, int b, int c) { return std::string ("unsigned char ") + fmt (a) + " " + fmt (b) + " " + fmt (c); };
    bool complete = parallel_chunks (1ull << 24, 1ull << 16, [&] (uint64_t lo, uint64_t hi, unsigned) {
        long long grey = 0, negh = 0, wrap = 0, sect[6] = {0, 0, 0, 0, 0, 0}, satmax = 0, sat1 = 0, hue0 = 0, sat0 = 0;
        for (uint64_t i = lo; i < hi; ++i)
        {
            const int a = (int) (i >> 16), b = (int) ((i >> 8) & 255), c = (int) (i & 255);
            const T   al = (T) ((a * 7 + b * 13 + c * 29 + (a ^ b ^ c)) & 255);
            const LD  fa = a / MX, fb = b / MX, fc = c / MX;
            V3 v ((T) a, (T) b, (T) c);
            C4 q ((T) a, (T) b, (T) c, al);
            // ---- as rgb
            V3  hv = IM::rgb2hsv (v);
            Tri wh = model_rgb2hsv (fa, fb, fc);
            if (a == b && b == c) ++grey;
            else if (a >= b && a >= c && b < c) ++negh;
            if (!(int_ok<T> (hv.x, wh.a) || wh.b == 0)) R ().fail ("rgb2hsv<unsigned char>.scaled.all-triples", s3 (a, b, c) + " hue", fmt (wh.a * MX), fmt ((int) hv.x));
            if (!int_ok<T> (hv.y, wh.b)) R ().fail ("rgb2hsv<unsigned char>.scaled.all-triples", s3 (a, b, c) + " saturation", fmt (wh.b * MX), fmt ((int) hv.y));
            if (!int_ok<T> (hv.z, wh.c)) R ().fail ("rgb2hsv<unsigned char>.scaled.all-triples", s3 (a, b, c) + " value", fmt (wh.c * MX), fmt ((int) hv.z));
            // exactly representable components (see int_exact): value = largest channel; saturation 0 on the grey axis, 255
            // when the smallest channel is 0; hue 0 for r > g == b — equality, for every one of the 2^24 triples
            {
                const int mx = std::max (a, std::max (b, c)), mn = std::min (a, std::min (b, c));
                if ((int) hv.z != mx) R ().fail ("rgb2hsv<unsigned char>.scaled.exactly-representable", s3 (a, b, c) + " value (= the largest channel)", fmt (mx), fmt ((int) hv.z));
                if (mn == mx) { if (hv.y != 0) R ().fail ("rgb2hsv<unsigned char>.scaled.exactly-representable", s3 (a, b, c) + " saturation (grey axis)", "0", fmt ((int) hv.y)); }
                else if (mn == 0) { ++sat1; if (hv.y != 255) R ().fail ("rgb2hsv<unsigned char>.scaled.exactly-representable", s3 (a, b, c) + " saturation (smallest channel 0)", "255", fmt ((int) hv.y)); }
                if (a > b && b == c) { ++hue0; if (hv.x != 0) R ().fail ("rgb2hsv<unsigned char>.scaled.exactly-representable", s3 (a, b, c) + " hue (r > g == b)", "0", fmt ((int) hv.x)); }
            }
            C4 hc = IM::rgb2hsv (q);
            if (hc.r != hv.x || hc.g != hv.y || hc.b != hv.z)
                R ().fail ("rgb2hsv<Color4<unsigned char>>.vs-Vec3", s3 (a, b, c), fmt ((int) hv.x) + " " + fmt ((int) hv.y) + " " + fmt ((int) hv.z), fmt ((int) hc.r) + " " + fmt ((int) hc.g) + " " + fmt ((int) hc.b));
            if (hc.a != al) R ().fail ("rgb2hsv<Color4<unsigned char>>.alpha", s3 (a, b, c) + " alpha " + fmt ((int) al), fmt ((int) al), fmt ((int) hc.a));
            // ---- as hsv
            V3  rv = IM::hsv2rgb (v);
            Tri wr = model_hsv2rgb (fa, fb, fc);
            if (a == 255) ++wrap; else sect[(a * 6) / 255]++;
            if (b == 255) ++satmax;
            if (!int_ok<T> (rv.x, wr.a) || !int_ok<T> (rv.y, wr.b) || !int_ok<T> (rv.z, wr.c))
                R ().fail ("hsv2rgb<unsigned char>.scaled.all-triples", s3 (a, b, c), std::string (Msg () << wr.a * MX << " " << wr.b * MX << " " << wr.c * MX), fmt ((int) rv.x) + " " + fmt ((int) rv.y) + " " + fmt ((int) rv.z));
            // exactly representable results (see int_exact): v = 0 -> black; s = 0 -> (v,v,v); s = 255 -> the sector's c+m
            // channel equals v (sector in integers; 255 is odd, so a boundary 6h/255 is even and both neighbours agree)
            {
                static const int MAXCH[6] = {0, 1, 1, 2, 2, 0};
                const std::string g3 = fmt ((int) rv.x) + " " + fmt ((int) rv.y) + " " + fmt ((int) rv.z);
                if (c == 0) { if (rv.x != 0 || rv.y != 0 || rv.z != 0) R ().fail ("hsv2rgb<unsigned char>.scaled.exactly-representable", s3 (a, b, c) + " (value 0)", "0 0 0", g3); }
                else if (b == 0) { ++sat0; if (rv.x != c || rv.y != c || rv.z != c) R ().fail ("hsv2rgb<unsigned char>.scaled.exactly-representable", s3 (a, b, c) + " (saturation 0)", fmt (c) + " " + fmt (c) + " " + fmt (c), g3); }
                else if (b == 255)
                {
                    const int ch = MAXCH[((6 * a) / 255) % 6];
                    const int got[3] = {rv.x, rv.y, rv.z};
                    if (got[ch] != c) R ().fail ("hsv2rgb<unsigned char>.scaled.exactly-representable", s3 (a, b, c) + " (saturation max) channel " + fmt (ch), fmt (c), g3);
                }
            }
            C4 rc = IM::hsv2rgb (q);
            if (rc.r != rv.x || rc.g != rv.y || rc.b != rv.z)
                R ().fail ("hsv2rgb<Color4<unsigned char>>.vs-Vec3", s3 (a, b, c), fmt ((int) rv.x) + " " + fmt ((int) rv.y) + " " + fmt ((int) rv.z), fmt ((int) rc.r) + " " + fmt ((int) rc.g) + " " + fmt ((int) rc.b));
            if (rc.a != al) R ().fail ("hsv2rgb<Color4<unsigned char>>.alpha", s3 (a, b, c) + " alpha " + fmt ((int) al), fmt ((int) al), fmt ((int) rc.a));
        }
        done += (long long) (hi - lo); c_grey += grey; c_negh += negh; c_wrap += wrap; c_satmax += satmax; c_sat1 += sat1; c_hue0 += hue0; c_sat0 += sat0;
        for (int k = 0; k < 6; ++k) c_sect[k] += sect[k];
    });
    R ().cls ("color.uchar-all.grey-axis", c_grey.load ()); R ().cls ("color.uchar-all.negative-hue-wraps", c_negh.load ());
    R ().cls ("color.uchar-all.hue-255-wraps", c_wrap.load ()); R ().cls ("color.uchar-all.saturation-255", c_satmax.load ());
    for (int k = 0; k < 6; ++k) R ().cls ("color.uchar-all.sector" + std::to_string (k), c_sect[k].load ());
    R ().cls ("color.uchar-all.rgb.smallest-channel-0(saturation exactly 255)", c_sat1.load ()); R ().cls ("color.uchar-all.rgb.r>g==b(hue exactly 0)", c_hue0.load ());
    R ().cls ("color.uchar-all.hsv.saturation-0(result exactly (v,v,v))", c_sat0.load ());
    R ().add ("states", 2 * done.load ()); R ().add ("evaluations", 2 * done.load ()); R ().add ("transitions", 4 * done.load ());
    if (complete) R ().stage_done ("all 2^24 unsigned-char triples as rgb and as hsv: Vec3 result == model scaled by 255 and truncated, exactly representable components (value = largest channel, saturation 0/255, hue 0, s = 0, v = 0, s = 255 top channel) returned exactly; Color4 result == Vec3 result, alpha unchanged");
    else R ().stage_partial (std::to_string (done.load ()) + " of 2^24 triples");
}

// ---- packed colours ---------------------------------------------------------------------------------
template <class T> void packed (const std::string& tn, long long& n, long long& tr, long long& c_bg)
{
    typedef IM::Vec3<T>   V3;
    typedef IM::Color4<T> C4;
    for (int ch = 0; ch < 4; ++ch)
        for (unsigned v = 0; v < 256; ++v)
            for (int bg = 0; bg < 2; ++bg) // the other three channels all-zeros / all-ones: channels are independent
            {
                IM::PackedColor mask = 0xffu << (8 * ch), p = (v << (8 * ch)) | (bg ? ~mask : 0u);
                ++n;
                if (bg) ++c_bg;
                C4 c;
                IM::packed2rgb (p, c);
                IM::PackedColor q = IM::rgb2packed (c);
                ++tr;
                std::string in = tn + " " + c17::hx32 (p);
                if (q != p)
                {
                    // narrow class: only the enumerated channel is off, by exactly one step down (truncation of
                    // v * fl(1/255) * 255 < v). Anything else (wrong channel, wrong shift, other magnitude) is a different site.
                    bool down_one = ((q ^ p) & ~mask) == 0 && ((q & mask) >> (8 * ch)) + 1 == v;
                    // The statement promises the round trip "for float-element colours". For double elements
                    // v * fl(1/255) * 255 lands one ulp below v for 24 of the 256 values and the cast truncates;
                    // that is outside the statement, so it is counted, not judged (any OTHER difference still fails).
                    if (down_one && sizeof (T) == sizeof (double)) R ().add ("packed.double-elements.truncated-one-step-down (outside the statement, informational)", 1);
                    else
                    R ().fail (down_one ? "rgb2packed(packed2rgb(p)).Color4<" + tn + ">.channel-truncated-down-by-one" : "rgb2packed(packed2rgb(p)).Color4<" + tn + ">", in,
                               c17::hx32 (p), c17::hx32 (q));
                }
                // the components themselves: v/255 to 2 eps (one rounding of 1/255, one of the product)
                T comp[4] = {c.r, c.g, c.b, c.a};
                for (int k = 0; k < 4; ++k)
                {
                    LD w = (LD) ((p >> (8 * k)) & 0xff) / 255;
                    if (absl ((LD) comp[k] - w) > 2 * (LD) std::numeric_limits<T>::epsilon () * w)
                        R ().fail ("packed2rgb.Color4<" + tn + ">.component", in + " channel " + fmt (k), fmt (w), Msg () << comp[k]);
                }
                if (ch < 3)
                {
                    V3 c3;
                    IM::packed2rgb (p, c3);
                    IM::PackedColor q3 = IM::rgb2packed (c3), w3 = (p & 0x00ffffffu) | 0xff000000u;
                    ++tr;
                    if (!ex::same (c3.x, c.r) || !ex::same (c3.y, c.g) || !ex::same (c3.z, c.b))
                        R ().fail ("packed2rgb.Vec3-vs-Color4<" + tn + ">", in, Msg () << c.r << " " << c.g << " " << c.b, Msg () << c3.x << " " << c3.y << " " << c3.z);
                    if (q3 != w3)
                    {
                        bool down_one = ((q3 ^ w3) & ~mask) == 0 && ((q3 & mask) >> (8 * ch)) + 1 == v;
                        if (down_one && sizeof (T) == sizeof (double)) R ().add ("packed.double-elements.truncated-one-step-down (outside the statement, informational)", 1);
                        else
                        R ().fail (down_one ? "rgb2packed(packed2rgb(p)).Vec3<" + tn + ">.channel-truncated-down-by-one" : "rgb2packed(packed2rgb(p)).Vec3<" + tn + ">", in,
                                   c17::hx32 (w3), c17::hx32 (q3));
                    }
                }
            }
}

} // namespace

void c17_color_stages ()
{
    fp_color<double> ("double");
    fp_color<float> ("float");
    fp_color_scaled<double> ("double");
    fp_color_scaled<float> ("float");
    int_small<int64_t> ("int64_t");
    int_small<unsigned int> ("unsigned int");
    int_color<unsigned char> ("unsigned char", true);
    int_color<short> ("short", false);
    int_color4<unsigned char> ("unsigned char");
    int_color4<short> ("short");
    int_color4<unsigned short> ("unsigned short");
    int_color4<int> ("int");
    int_exact<unsigned char> ("unsigned char");
    int_exact<signed char> ("signed char");
    int_exact<short> ("short");
    int_exact<unsigned short> ("unsigned short");
    int_exact<int> ("int");
    int_exact<unsigned int> ("unsigned int");
    uchar_all ();
    if (R ().stage ("packed-roundtrip"))
    {
        long long n = 0, tr = 0, bg = 0;
        packed<float> ("float", n, tr, bg);
        packed<double> ("double", n, tr, bg);
        R ().cls ("packed.other-channels-saturated", bg);
        R ().add ("states", n); R ().add ("evaluations", n); R ().add ("transitions", tr);
        R ().sample ("rgb2packed(packed2rgb(0x21) as C4f) = " + c17::hx32 ([] { IM::C4f c; IM::packed2rgb (0x21u, c); return IM::rgb2packed (c); }()));
        R ().stage_done ("all 256 values of each of the 4 channels, other channels 0x00 and 0xff, float and double elements, Color4 and Vec3");
    }
}
