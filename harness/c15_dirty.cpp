// C15, stage "set-and-outputs-on-dirty-objects".
//
// Plane3::set(normal,d) / set(point,normal) / set(p1,p2,p3), Line3::set(p0,p1), Sphere3::circumscribe(box) define the object from their
// arguments alone; closestPoints(l1,l2,p1,p2), Plane3::intersect(line,point), intersect(line,v0,v1,v2,pt,barycentric,front) deliver their
// results through caller-supplied objects whenever they return true. All of these objects are in general re-used. Each call is made on
// objects whose slots are all zero and on objects holding, in EVERY slot, a distinct prime 100+p_k / the sign-alternating primes in
// reverse order / a quiet NaN (the bool `front` pre-set to true, false, true); the returned bool must agree and, when it is true (set* /
// circumscribe: always), every slot must be BITWISE equal. No tolerance: same deterministic operations on the same arguments; a
// difference is a dependence on previous contents.
// Sites: "<function><T>.result-depends-on-previous-contents".
#include "c15.hpp"
#include <cstring>
#include <limits>

namespace c15 {
namespace {
using vf::R;
struct Tally { long long st = 0, tr = 0, fill[3] = {0, 0, 0}, ok = 0, refused = 0, setters = 0, outs = 0, degenerate = 0; };
const char* FILLN[3] = {"every slot a distinct prime 100+p_k", "every slot -+(100+p_k), reversed", "every slot NaN"};

template <class O, class E> void dirty (O& o, int kind)
{
    E*        p = reinterpret_cast<E*> (&o);
    const int N = (int) (sizeof (O) / sizeof (E));
    for (int i = 0; i < N; ++i)
        p[i] = kind < 0 ? (E) 0 : kind == 0 ? (E) (100 + ex::PRIMES[i]) : kind == 1 ? (E) (((i & 1) ? 1 : -1) * (100 + ex::PRIMES[N - 1 - i])) : std::numeric_limits<E>::quiet_NaN ();
}
template <class O, class E> int diff (const O& a, const O& b)
{
    const E * p = reinterpret_cast<const E*> (&a), *q = reinterpret_cast<const E*> (&b);
    const int N = (int) (sizeof (O) / sizeof (E));
    for (int i = 0; i < N; ++i) if (!ex::same (p[i], q[i])) return i;
    return -1;
}
template <class O, class E> std::string show (const O& a)
{
    const E*  p = reinterpret_cast<const E*> (&a);
    const int N = (int) (sizeof (O) / sizeof (E));
    std::string s;
    for (int i = 0; i < N; ++i) s += (i ? " " : "") + vf::fmt (p[i]);
    return s;
}
// apply(O&, kind) -> bool "the function promises to have written the outputs"
template <class O, class E, class Apply, class Desc> void run (Tally& tl, const std::string& fn, Apply apply, Desc desc)
{
    O ref;
    dirty<O, E> (ref, -1);
    bool rok = apply (ref, -1);
    ++tl.st; ++tl.tr;
    if (rok) ++tl.ok; else ++tl.refused;
    const std::string site = fn + "<" + tname<E> () + ">.result-depends-on-previous-contents";
    for (int k = 0; k < 3; ++k)
    {
        O d;
        dirty<O, E> (d, k);
        bool dok = apply (d, k);
        ++tl.tr; ++tl.fill[k];
        if (dok != rok) { R ().fail (site, desc () + "; objects previously: " + FILLN[k], std::string ("returns ") + (rok ? "true" : "false") + " as with zeroed objects", dok ? "true" : "false"); continue; }
        if (!rok) continue;
        int at = diff<O, E> (d, ref);
        if (at >= 0)
            R ().fail (site, desc () + "; objects previously: " + FILLN[k] + "; first differing slot " + std::to_string (at), "what the same call leaves in zeroed objects: " + show<O, E> (ref), show<O, E> (d));
    }
}

template <class T> struct O2 { Vec3<T> a, b; };
template <class T> struct O1 { Vec3<T> a; };
template <class T> struct OT { Vec3<T> pt, bary; T front; };

template <class T> void all (Tally& tl)
{
    const std::vector<I3> P = lattice (1);          // 27 points, zero included
    const std::vector<I3> D = directions_small ();  // 13 directions
    // setters: every ordered pair of lattice points / (point, direction) / point triple (degenerate ones included: whatever they give, it
    // must not depend on the object)
    for (auto& p : P)
        for (auto& q : P)
        {
            const Vec3<T> a = toV<T> (p), b = toV<T> (q);
            const bool    deg = (p == q) || (q == I3{0, 0, 0});
            tl.setters += 4; if (deg) ++tl.degenerate;
            run<Line3<T>, T> (tl, "Line3::set(p0,p1)", [&] (Line3<T>& l, int) { l.set (a, b); return true; }, [=] () { return "set(" + s (p) + "," + s (q) + ")"; });
            run<Plane3<T>, T> (tl, "Plane3::set(point,normal)", [&] (Plane3<T>& o, int) { o.set (a, b); return true; }, [=] () { return "set(point " + s (p) + ", normal " + s (q) + ")"; });
            run<Plane3<T>, T> (tl, "Plane3::set(normal,d)", [&] (Plane3<T>& o, int) { o.set (b, (T) (p.x + 2 * p.y + 4 * p.z) / 4); return true; }, [=] () { return "set(normal " + s (q) + ", d " + std::to_string (p.x + 2 * p.y + 4 * p.z) + "/4)"; });
            run<Sphere3<T>, T> (tl, "Sphere3::circumscribe(box)", [&] (Sphere3<T>& o, int) { o.circumscribe (Box<Vec3<T>> (a, b)); return true; }, [=] () { return "circumscribe(Box(" + s (p) + "," + s (q) + "))"; });
            for (size_t k = 0; k < P.size (); k += 2)
            {
                const I3 r = P[k];
                const Vec3<T> c = toV<T> (r);
                ++tl.setters;
                run<Plane3<T>, T> (tl, "Plane3::set(p1,p2,p3)", [&] (Plane3<T>& o, int) { o.set (a, b, c); return true; }, [=] () { return "set(" + s (p) + "," + s (q) + "," + s (r) + ")"; });
            }
        }
    // out-parameters: lines through lattice points along the direction alphabet
    std::vector<Line3<T>> L; std::vector<std::string> LN;
    for (size_t i = 0; i < P.size (); i += 2)
        for (auto& d : D) { L.push_back (Line3<T> (toV<T> (P[i]), toV<T> (P[i] + d))); LN.push_back ("Line3(" + s (P[i]) + "," + s (P[i] + d) + ")"); }
    for (size_t i = 0; i < L.size (); ++i)
    {
        for (size_t j = 0; j < L.size (); ++j)
        {
            ++tl.outs;
            run<O2<T>, T> (tl, "closestPoints(l1,l2,p1,p2)", [&] (O2<T>& o, int) { return closestPoints (L[i], L[j], o.a, o.b); }, [&] () { return "closestPoints(" + LN[i] + ", " + LN[j] + ", p1, p2)"; });
        }
        for (auto& n : D)
            for (int dd = -1; dd <= 1; ++dd)
            {
                const Plane3<T> pl (toV<T> (n), (T) dd * (T) 0.5);
                ++tl.outs;
                run<O1<T>, T> (tl, "Plane3::intersect(line,point)", [&] (O1<T>& o, int) { return pl.intersect (L[i], o.a); }, [&] () { return "Plane3(normal " + s (n) + ", d " + std::to_string (dd) + "/2).intersect(" + LN[i] + ", point)"; });
            }
        // triangles: v0 fixed family, v1, v2 over a sub-lattice (degenerate ones included: return false, not judged)
        for (size_t a = 0; a < P.size (); a += 13)
            for (size_t b = 0; b < P.size (); b += 2)
                for (size_t c = 1; c < P.size (); c += 3)
                {
                    const Vec3<T> v0 = toV<T> (P[a] * 2), v1 = toV<T> (P[b] * 2), v2 = toV<T> (P[c] * 2);
                    ++tl.outs;
                    run<OT<T>, T> (tl, "intersect(line,v0,v1,v2,pt,barycentric,front)", [&] (OT<T>& o, int k) {
                                       bool front = (k != 1);
                                       bool ok = intersect (L[i], v0, v1, v2, o.pt, o.bary, front);
                                       o.front = front ? 1 : 0;
                                       return ok;
                                   },
                                   [&] () { return "intersect(" + LN[i] + ", " + s (P[a] * 2) + ", " + s (P[b] * 2) + ", " + s (P[c] * 2) + ", pt, barycentric, front)"; });
                }
    }
}
} // namespace

void run_dirty ()
{
    if (!R ().stage ("set-and-outputs-on-dirty-objects")) return;
    Tally tl;
    all<float> (tl); all<double> (tl);
    R ().add ("states", tl.st); R ().add ("transitions", tl.tr); R ().add ("evaluations", tl.st);
    R ().cls ("dirty-object.previous-contents-distinct-primes", tl.fill[0]);
    R ().cls ("dirty-object.previous-contents-sign-flipped-reversed-primes", tl.fill[1]);
    R ().cls ("dirty-object.previous-contents-NaN", tl.fill[2]);
    R ().cls ("dirty-object.set/circumscribe", tl.setters);
    R ().cls ("dirty-object.set-with-degenerate-arguments", tl.degenerate);
    R ().cls ("dirty-object.out-parameter-call", tl.outs);
    R ().cls ("dirty-object.function-returns-true-outputs-judged", tl.ok);
    R ().cls ("dirty-object.function-returns-false-outputs-not-judged", tl.refused);
    R ().sample ("Plane3f pl; pl.normal = pl.distance = NaN; pl.set((1,0,-1),(0,1,1)) bitwise as on a zeroed plane");
    R ().stage_done ("Line3::set, Plane3::set (3 overloads), Sphere3::circumscribe over all ordered pairs of L(1)^3 (x 14 third points for the 3-point form); closestPoints over all ordered pairs of 182 lattice lines, "
                     "Plane3::intersect(line,point) x 39 planes, triangle intersect x 378 lattice triangles per line: zeroed objects vs objects pre-filled with primes / sign-flipped primes / NaN in every slot "
                     "(front pre-set both ways), bitwise equal whenever the function returns true; float and double");
}
} // namespace c15
