#include "c04.hpp"
namespace c04 {
void register_vec2f (Jobs& jobs) { reg_vec<Vec2<half>> (jobs); reg_vec<Vec2<float>> (jobs); reg_vec<Vec2<double>> (jobs); }
}
