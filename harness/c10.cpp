// C10 — quaternion / matrix / axis-angle consistency.
//
//   c10.cpp         stage group-exact    binary tetrahedral group (24 unit quaternions, components in
//                                        {0,+-1/2,+-1}): every product, matrix and rotated lattice vector is a
//                                        dyadic rational with a handful of bits, so the library result must
//                                        EQUAL the definition-level result (Hamilton product evaluated in long
//                                        double, which is exact on these operands)
//   c10_unit.cpp    stage unit-lattice   normalised integer quaternions L(2)^4\0 and axis-angle pairs: the
//                                        tolerance relations (exp(log q), setAxisAngle(axis(),angle()), Quat vs Matrix44)
//   c10_setrot.cpp  stage set-rotation   setRotation(from,to) / rotationMatrix over all ordered pairs of lattice
//                                        directions, scalings, exactly and nearly antipodal families
//   c10_slerp.cpp   stage slerp          slerp, slerpShortestArc, squad, spline (keys, tangent continuity)
//   c10_dirty.cpp   stage reused-objects Matrix44/Quat::setAxisAngle, Quat::setRotation on objects pre-filled with primes / NaN: bitwise the
//                                        fresh result; Quat-vs-Matrix44 relation on the re-used objects
//
// Conventions established from the code and the documentation and used by the oracles:
//   rotateVector(v) = q v q*  (documented in the function);  v*q, v*q.toMatrix33(), v*q.toMatrix44() are the same
//   rotated vector (row-vector convention), hence toMatrix(q1*q2) = toMatrix(q2) * toMatrix(q1).
#include "c10_common.hpp"

namespace c10 {
namespace {
using vf::R;

template <class T> bool qeq (const Quat<T>& g, const Q& e) { return (LD) g.r == e.w && (LD) g.v.x == e.x && (LD) g.v.y == e.y && (LD) g.v.z == e.z; }
template <class T> bool veq (const Vec3<T>& g, const LD* e) { return (LD) g.x == e[0] && (LD) g.y == e[1] && (LD) g.z == e[2]; }
inline Q qneg (const Q& a) { return Q{-a.w, -a.x, -a.y, -a.z}; }
inline bool qsame (const Q& a, const Q& b) { return a.w == b.w && a.x == b.x && a.y == b.y && a.z == b.z; }

struct Tally
{
    long long states = 0, trans = 0, w0 = 0, whalf = 0, w1 = 0, ex_tr_pos = 0, ex_i0 = 0, ex_i1 = 0, ex_i2 = 0, ex_tie = 0;
};

template <class T> void group_exact (Tally& tl)
{
    const auto G = tetra_group ();
    std::vector<Q> ref;
    for (auto& g : G) ref.push_back (Q{g.c[0] / 2.0L, g.c[1] / 2.0L, g.c[2] / 2.0L, g.c[3] / 2.0L});
    auto member = [&] (const Q& q) {
        for (auto& r : ref) if (qsame (r, q)) return true;
        return false;
    };
    for (size_t a = 0; a < G.size (); ++a)
    {
        const Quat<T> q  = fromG2<T> (G[a]);
        const Q       qr = ref[a];
        ++tl.states;
        if (G[a].c[0] == 0) ++tl.w0; else if (abs (G[a].c[0]) == 1) ++tl.whalf; else ++tl.w1;
        const std::string in = "q=" + qs (qr);
        // conjugate, inverse, length, normalized
        Quat<T> cj = ~q, inv = q.inverse (), inv2 = q, nq = q.normalized (), nq2 = q;
        inv2.invert ();
        nq2.normalize ();
        Quat<T> one = q * inv, one2 = inv * q;
        tl.trans += 8;
        if (!qeq (cj, qconj (qr))) R ().fail (site<T> ("Quat", "operator~=conjugate[group,exact]"), in, qs (qconj (qr)), qs (cj));
        if (!qeq (inv, qconj (qr))) R ().fail (site<T> ("Quat", "inverse[group,exact]"), in, qs (qconj (qr)), qs (inv));
        if (!qeq (inv2, qconj (qr))) R ().fail (site<T> ("Quat", "invert[group,exact]"), in, qs (qconj (qr)), qs (inv2));
        if (!qeq (one, Q{1, 0, 0, 0})) R ().fail (site<T> ("Quat", "q*inverse=1[group,exact]"), in, "(1 0 0 0)", qs (one));
        if (!qeq (one2, Q{1, 0, 0, 0})) R ().fail (site<T> ("Quat", "inverse*q=1[group,exact]"), in, "(1 0 0 0)", qs (one2));
        if (!((LD) q.length () == 1)) R ().fail (site<T> ("Quat", "length[group,exact]"), in, "1", vf::fmt (q.length ()));
        if (!qeq (nq, qr) || !qeq (nq2, qr)) R ().fail (site<T> ("Quat", "normalized[group,exact]"), in, qs (qr), qs (nq));
        // matrices: row i = image of e_i under v -> q v q*
        LD m[3][3];
        qmat (qr, m);
        Matrix33<T> M3 = q.toMatrix33 ();
        Matrix44<T> M4 = q.toMatrix44 ();
        tl.trans += 2;
        bool ok3 = true, ok4 = true;
        for (int i = 0; i < 3; ++i)
            for (int j = 0; j < 3; ++j)
            {
                ok3 = ok3 && (LD) M3.x[i][j] == m[i][j];
                ok4 = ok4 && (LD) M4.x[i][j] == m[i][j];
            }
        ok4 = ok4 && M4.x[0][3] == 0 && M4.x[1][3] == 0 && M4.x[2][3] == 0 && M4.x[3][0] == 0 && M4.x[3][1] == 0 && M4.x[3][2] == 0 && M4.x[3][3] == 1;
        if (!ok3) R ().fail (site<T> ("Quat", "toMatrix33[group,exact]"), in, "rows = q e_i q*", mat_str (M3.x));
        if (!ok4) R ().fail (site<T> ("Quat", "toMatrix44[group,exact]"), in, "rows = q e_i q*, affine part (0,0,0,1)", mat_str (M4.x));
        // the four ways of rotating a vector agree exactly on L(2)^3
        for (int pi = 0; pi < 125; ++pi)
        {
            int p[3];
            ex::decode ((uint64_t) pi, 5, 3, p, -2);
            LD v[3] = {(LD) p[0], (LD) p[1], (LD) p[2]}, e[3];
            qrot (qr, v, e);
            Vec3<T> vv ((T) p[0], (T) p[1], (T) p[2]);
            Vec3<T> r1 = q.rotateVector (vv), r2 = vv * q, r3 = vv * M3, r4 = vv * M4;
            tl.trans += 4;
            if (!veq (r1, e)) R ().fail (site<T> ("Quat", "rotateVector=q v q*[group,exact]"), in + " v=" + i3 (p), ld3 (e), v3 (r1));
            if (!veq (r2, e)) R ().fail (site<T> ("Quat", "v*q=q v q*[group,exact]"), in + " v=" + i3 (p), ld3 (e), v3 (r2));
            if (!veq (r3, e)) R ().fail (site<T> ("Quat", "v*toMatrix33=q v q*[group,exact]"), in + " v=" + i3 (p), ld3 (e), v3 (r3));
            if (!veq (r4, e)) R ().fail (site<T> ("Quat", "v*toMatrix44=q v q*[group,exact]"), in + " v=" + i3 (p), ld3 (e), v3 (r4));
        }
        // extractQuat(toMatrix44(q)) = +-q ; branch classes by the predicate the definition gives on q:
        // trace = 4w^2 - 1 > 0  <=>  |w| = 1 here; otherwise the largest diagonal entry picks i (ties when w = +-1/2)
        {
            LD tr = m[0][0] + m[1][1] + m[2][2];
            if (tr > 0) ++tl.ex_tr_pos;
            else
            {
                int i = 0;
                if (m[1][1] > m[0][0]) i = 1;
                if (m[2][2] > m[i][i]) i = 2;
                (i == 0 ? tl.ex_i0 : i == 1 ? tl.ex_i1 : tl.ex_i2)++;
                if (m[0][0] == m[1][1] && m[1][1] == m[2][2]) ++tl.ex_tie;
            }
            Quat<T> xq = extractQuat (M4);
            ++tl.trans;
            if (!qeq (xq, qr) && !qeq (xq, qneg (qr))) R ().fail (site<T> ("extractQuat", "extractQuat(toMatrix44(q))=+-q[group,exact]"), in, "+-" + qs (qr), qs (xq));
        }
        // products: closure, matrices multiply in the opposite order, conjugate of a product, division
        for (size_t b = 0; b < G.size (); ++b)
        {
            const Quat<T> q2  = fromG2<T> (G[b]);
            const Q       pr  = qmul (qr, ref[b]);
            const std::string in2 = "q1=" + qs (qr) + " q2=" + qs (ref[b]);
            ++tl.states;
            Quat<T> p = q * q2, pa = q;
            pa *= q2;
            Quat<T> dv = q / q2, dva = q;
            dva /= q2;
            tl.trans += 6;
            if (!member (pr)) R ().fail ("harness.group-closure", in2, "member of the group", qs (pr));
            if (!qeq (p, pr)) R ().fail (site<T> ("Quat", "operator*(Quat,Quat)=Hamilton-product[group,exact]"), in2, qs (pr), qs (p));
            if (!qeq (pa, pr)) R ().fail (site<T> ("Quat", "operator*=(Quat)=Hamilton-product[group,exact]"), in2, qs (pr), qs (pa));
            Q dr = qmul (qr, qconj (ref[b]));
            if (!qeq (dv, dr) || !qeq (dva, dr)) R ().fail (site<T> ("Quat", "operator/(Quat,Quat)=q1*inverse(q2)[group,exact]"), in2, qs (dr), qs (dv));
            Quat<T> cp = ~p, cq = (~q2) * (~q);
            if (!(cp == cq)) R ().fail (site<T> ("Quat", "~(q1*q2)=~q2*~q1[group,exact]"), in2, qs (cq), qs (cp));
            T dt = q ^ q2, dt2 = q.euclideanInnerProduct (q2);
            LD dl = qdot (qr, ref[b]);
            if (!((LD) dt == dl && (LD) dt2 == dl)) R ().fail (site<T> ("Quat", "operator^=4-D-dot[group,exact]"), in2, vf::fmt (dl), vf::fmt (dt));
            // M(q1 q2) = M(q2) M(q1)
            Matrix33<T> P3 = p.toMatrix33 (), R3 = q2.toMatrix33 () * M3, W3 = M3 * q2.toMatrix33 ();
            Matrix44<T> P4 = p.toMatrix44 (), R4 = q2.toMatrix44 () * M4;
            tl.trans += 2;
            if (!(P3 == R3)) R ().fail (site<T> ("Quat", "toMatrix33(q1*q2)=toMatrix33(q2)*toMatrix33(q1)[group,exact]"), in2, mat_str (R3.x), mat_str (P3.x));
            if (!(P4 == R4)) R ().fail (site<T> ("Quat", "toMatrix44(q1*q2)=toMatrix44(q2)*toMatrix44(q1)[group,exact]"), in2, mat_str (R4.x), mat_str (P4.x));
            (void) W3;
            // Matrix33 * Quat and Quat * Matrix33 are documented as M * toMatrix33(q), toMatrix33(q) * M
            Matrix33<T> MQ = M3 * q2, QM = q2 * M3;
            if (!(MQ == M3 * q2.toMatrix33 ()) || !(QM == R3)) R ().fail (site<T> ("Quat", "operator*(Matrix33,Quat)[group,exact]"), in2, mat_str (R3.x), mat_str (QM.x));
        }
    }
}

} // namespace

void run_group ()
{
    if (!R ().stage ("group-exact")) return;
    Tally tl;
    group_exact<float> (tl);
    group_exact<double> (tl);
    R ().add ("states", tl.states); R ().add ("transitions", tl.trans); R ().add ("evaluations", tl.states);
    R ().cls ("group.w=0(half-turn)", tl.w0);
    R ().cls ("group.w=+-1/2", tl.whalf);
    R ().cls ("group.w=+-1", tl.w1);
    R ().cls ("extractQuat.trace>0", tl.ex_tr_pos);
    R ().cls ("extractQuat.largest-diagonal-i=0", tl.ex_i0);
    R ().cls ("extractQuat.largest-diagonal-i=1", tl.ex_i1);
    R ().cls ("extractQuat.largest-diagonal-i=2", tl.ex_i2);
    R ().cls ("extractQuat.diagonal-three-way-tie", tl.ex_tie);
    R ().note ("group-exact.comparison", "every relation of this stage is compared for exact equality of values (sign of zero ignored); no fallback tolerance was needed");
    R ().sample ("q=(1/2 1/2 1/2 1/2): (1,2,-2)*q == rotateVector == v*toMatrix33 == v*toMatrix44 == (-2,1,2) exactly");
    R ().sample ("extractQuat(toMatrix44((0 0 1 0))) == +-(0 0 1 0): trace = -1, largest diagonal i=1 branch");
    R ().stage_done ("binary tetrahedral group: 24 elements x {conjugate, inverse, invert, q*q^-1, length, normalize, toMatrix33/44, extractQuat} + 24x125 vector rotations x 4 entry points "
                     "+ 24^2 products x {*, *=, /, /=, ~, ^, M(q1 q2)=M(q2)M(q1) 33 and 44, Matrix33*Quat}; exact; float and double");
}

} // namespace c10

int main (int argc, char** argv)
{
    vf::R ().property = "C10";
    vf::R ().parse (argc, argv);
    c10::run_group ();
    c10::run_unit ();
    c10::run_rounding ();
    c10::run_setrotation ();
    c10::run_slerp ();
    c10::run_repeated_keys ();
    c10::run_reused ();
    return vf::R ().finish ();
}
