// C14 double instantiation of the overflow-fallback stage
#include "c14_ovf.hpp"
namespace c14 { template bool run_ovf<double> (bool); }
