// C12 — 2-D (Matrix33) scale/shear/rotation/translation factorisations.
//
// M = S*H*R*T with S = diag(sx,sy,1), H = [[1,0],[xy,1]] (Matrix33::setShear(xy)), R = Matrix33::setRotation's
// matrix [[c,s],[-s,c]], T the translation row; composed in long double, rounded once to T.
// The unique factorisation with scale.x > 0 and R proper (what the 2-D algorithm produces: only the second row
// is flipped on a negative determinant):  with d = sign(sx):  s' = (|sx|, d*sy), xy' = xy, R' = d*R.
// Tolerances as in 3-D: recomposition 16*cond*eps*max|M_2x2|, cond = max|s|/min|s|*(1+|xy|); residual rotation
// orthonormal to 16 eps, det within 48 eps of +1; H*R*T / R*T products 16*cond*eps*max(1,|H R|); translation 16 eps |t|.
//
// Known defect exercised here (DESIGN section 3): the Matrix33 sansScaling/removeScaling compose with
// Matrix33::rotate, which post-multiplies, after translate, so the translation comes back as t*R. A wrong
// translation that equals t*R' (within the linear tolerance) is reported under the site
// "...translation.comes-back-rotated-by-r"; any other wrong translation under "...translation".
// Also: 1e-30 scales (may be reported or decomposed, never decomposed wrongly) and every singular 2x2 part over {-1,0,1,2}
// without a zero row (singular2d below).
#include "c12.hpp"

namespace c12 {
using vf::R;

struct Shrt2
{
    LD s[2], xy, th, t[2];
};
static M2 lin2 (const Shrt2& f)
{
    M2 S, H;
    S[0][0] = f.s[0]; S[1][1] = f.s[1];
    H[1][0] = f.xy;
    return ref::mul (ref::mul (S, H), ref::rot2 (f.th));
}
template <class T> static Matrix33<T> lib33 (const M2& lin, const LD t[2])
{
    Matrix33<T> m;
    for (int i = 0; i < 2; ++i) { for (int j = 0; j < 2; ++j) m[i][j] = (T) lin[i][j]; m[2][i] = (T) t[i]; }
    return m;
}

struct Tally2
{
    long long cases = 0, transitions = 0, refl = 0, graded = 0, sheared = 0, rot_and_trans = 0, generic = 0, degenerate = 0;
    long long us_sub = 0, us_recip = 0, us_tiny = 0, us_huge = 0, us_reported = 0;
    long long tiny = 0, tiny_reported = 0, sing_exact = 0, sing_residue = 0, sing_residue_reported = 0, sing_residue_decomposed = 0;
    double    w_recompose = 0, w_ortho = 0;
    void merge (const Tally2& o)
    {
        cases += o.cases; transitions += o.transitions; refl += o.refl; graded += o.graded; sheared += o.sheared; rot_and_trans += o.rot_and_trans;
        generic += o.generic; degenerate += o.degenerate;
        us_sub += o.us_sub; us_recip += o.us_recip; us_tiny += o.us_tiny; us_huge += o.us_huge; us_reported += o.us_reported;
        tiny += o.tiny; tiny_reported += o.tiny_reported; sing_exact += o.sing_exact; sing_residue += o.sing_residue;
        sing_residue_reported += o.sing_residue_reported; sing_residue_decomposed += o.sing_residue_decomposed;
        w_recompose = std::max (w_recompose, o.w_recompose); w_ortho = std::max (w_ortho, o.w_ortho);
    }
};

template <class T> struct Shrt2d
{
    typedef Matrix33<T> M33;
    typedef Vec2<T>     V2;
    const LD            eps = ex::eps<T> ();
    // site suffix naming the input class (empty for the original families)
    std::string sfx;
    std::string st (const std::string& site) const { return sfx.empty () ? site : site + sfx; }

    static LD recomposeErr (const V2& s, T h, const M2& Rl, const M2& Mlin)
    {
        M2 S, H;
        S[0][0] = s.x; S[1][1] = s.y;
        H[1][0] = h;
        return ref::maxdiff (ref::mul (ref::mul (S, H), Rl), Mlin);
    }
    static bool frameOK (const M33& m) { return m[0][2] == 0 && m[1][2] == 0 && m[2][2] == 1; }

    template <class InF> void hrt (const char* fn, InF&& in, const M33& got, const M2& HR, const M2& Rc, const M33& M, LD tolL, LD tolT) const
    {
        std::string site = st (fn);
        LD dl = ref::maxdiff (ref::fromLib<2> (got), HR);
        if (!(dl <= tolL)) R ().fail (site + ".linear", in (), "H*R within " + ref::fmtE (tolL), ref::fmtE (dl) + " off; got " + ref::fmtLib<3> (got));
        LD t0 = M[2][0], t1 = M[2][1];
        LD dt = std::max (fabsl ((LD) got[2][0] - t0), fabsl ((LD) got[2][1] - t1));
        if (!(dt <= tolT))
        {
            // t * R' : the signature of composing the rotation on the wrong side of the translation
            LD r0 = t0 * Rc[0][0] + t1 * Rc[1][0], r1 = t0 * Rc[0][1] + t1 * Rc[1][1];
            LD dr = std::max (fabsl ((LD) got[2][0] - r0), fabsl ((LD) got[2][1] - r1));
            bool rotated = dr <= tolL * std::max ((LD) 1, std::max (fabsl (t0), fabsl (t1)));
            failThrottled (site + (rotated ? ".translation.comes-back-rotated-by-r" : ".translation"), in, [&] { return (vf::Msg () << "(" << M[2][0] << " " << M[2][1] << ")").str (); },
                           [&] { return (vf::Msg () << "(" << got[2][0] << " " << got[2][1] << ")").str (); });
        }
        if (!frameOK (got)) R ().fail (site + ".affine-frame", in (), "last column (0,0,1)", ref::fmtLib<3> (got));
    }

    // mayReport: a 1e-30 scale may legitimately be reported as degenerate instead of decomposed (as in 3-D); if it is
    // decomposed, every relation below holds with the usual bounds (the rows are processed relative to their own length)
    // gridAbs (uniformly scaled families only, otherwise 0): see c12_shrt3d.hpp regular() - entries of M and the returned scales
    // in the subnormal range are rounded to multiples of denorm_min, so "eps * max|M|" becomes "eps * max|M| + denorm_min".
    template <class TagF> void regular (const Shrt2& f, TagF&& tagf, Tally2& t, bool mayReport = false, LD gridAbs = 0) const
    {
        const M33 M    = lib33<T> (lin2 (f), f.t);
        const M2  Mlin = ref::fromLib<2> (M);
        const LD  d    = f.s[0] < 0 ? -1.0L : 1.0L;
        M2        Rc   = ref::rot2 (f.th);
        for (int i = 0; i < 2; ++i) for (int j = 0; j < 2; ++j) Rc[i][j] *= d;
        M2 Hc;
        Hc[1][0] = f.xy;
        const M2 HR   = ref::mul (Hc, Rc);
        const LD cond = std::max (fabsl (f.s[0]), fabsl (f.s[1])) / std::min (fabsl (f.s[0]), fabsl (f.s[1])) * (1 + fabsl (f.xy));
        const LD nrm = ref::maxabs (Mlin), tol = 16 * cond * eps * nrm + 16 * cond * gridAbs;
        auto in = [&] () { return "T=" + std::string (ref::tname<T> ()) + " " + tagf () + " M=" + ref::fmtLib<3> (M); };
        ++t.cases;

        V2   s, tr;
        T    h = 9, r = 9;
        bool ok = false;
        try { ok = extractSHRT (M, s, h, r, tr, false); } catch (...) {}
        if (!ok && mayReport)
        {
            ++t.tiny_reported;
            bool thrown = false;
            try { V2 a, d; T b, c; extractSHRT (M, a, b, c, d, true); } catch (const std::domain_error&) { thrown = true; } catch (...) {}
            if (!thrown) R ().fail (st ("extractSHRT(Matrix33).exc-true-vs-exc-false"), in (), "std::domain_error (exc=false returned false)", "no domain_error");
            return;
        }
        if (!ok) { R ().fail (st ("extractSHRT(Matrix33).regular-matrix-reported-degenerate"), in (), "true", "false/throw"); return; }
        {
            LD e = recomposeErr (s, h, ref::rot2 (r), Mlin);
            t.w_recompose = std::max (t.w_recompose, (double) (e / (cond * eps * nrm)));
            if (!(e <= tol)) R ().fail (st ("extractSHRT(Matrix33).recompose"), in (), "S*H*R(r) within " + ref::fmtE (tol), vf::Msg () << ref::fmtE (e) << " off; s=" << fmtVec (s) << " h=" << h << " r=" << r);
            if (!(ex::same (tr.x, M[2][0]) && ex::same (tr.y, M[2][1]))) R ().fail (st ("extractSHRT(Matrix33).translation"), in (), vf::Msg () << "(" << M[2][0] << " " << M[2][1] << ")", fmtVec (tr));
            try
            {
                V2 s1, t1; T h1, r1;
                bool ok1 = extractSHRT (M, s1, h1, r1, t1);
                if (!(ok1 && sameVec (s1, s) && sameVec (t1, tr) && ex::same (h1, h) && ex::same (r1, r))) R ().fail (st ("extractSHRT(Matrix33).exc-true-vs-exc-false"), in ());
            }
            catch (...) { R ().fail (st ("extractSHRT(Matrix33).throws-on-regular-matrix"), in ()); }
        }
        M33  W = M;
        V2   s2;
        T    h2 = 9;
        bool ok2 = false;
        try { ok2 = extractAndRemoveScalingAndShear (W, s2, h2, false); } catch (...) {}
        if (!ok2) { R ().fail (st ("extractAndRemoveScalingAndShear(Matrix33).regular-matrix-reported-degenerate"), in ()); return; }
        const M2 Rres = ref::fromLib<2> (W);
        {
            LD oe = ref::orthoErr (Rres), dt = ref::det (Rres), e = recomposeErr (s2, h2, Rres, Mlin);
            t.w_ortho = std::max (t.w_ortho, (double) (oe / eps));
            t.w_recompose = std::max (t.w_recompose, (double) (e / (cond * eps * nrm)));
            if (!(oe <= 16 * eps)) R ().fail (st ("extractAndRemoveScalingAndShear(Matrix33).rotation-orthonormal"), in (), "<= 16 eps", ref::fmtE (oe / eps) + " eps");
            if (!(fabsl (dt - 1) <= 48 * eps)) R ().fail (st ("extractAndRemoveScalingAndShear(Matrix33).rotation-det+1"), in (), "+1 within 48 eps", ref::fmtE (dt));
            if (!(e <= tol)) R ().fail (st ("extractAndRemoveScalingAndShear(Matrix33).recompose"), in (), "S*H*R within " + ref::fmtE (tol), vf::Msg () << ref::fmtE (e) << " off; s=" << fmtVec (s2) << " h=" << h2 << " R=" << ref::fmtLib<2> (W));
            if (!(frameOK (W) && ex::same (W[2][0], M[2][0]) && ex::same (W[2][1], M[2][1]))) R ().fail (st ("extractAndRemoveScalingAndShear(Matrix33).keeps-translation"), in (), "row 2 / column 2 untouched", ref::fmtLib<3> (W));
        }
        {
            V2 s3, s4; T h4 = 9;
            bool o3 = false, o4 = false;
            try { o3 = extractScaling (M, s3, false); o4 = extractScalingAndShear (M, s4, h4, false); } catch (...) {}
            if (!o3) R ().fail (st ("extractScaling(Matrix33).regular-matrix-reported-degenerate"), in ());
            else if (!sameVec (s3, s2)) { LD e = recomposeErr (s3, h2, Rres, Mlin); if (!(e <= tol)) R ().fail (st ("extractScaling(Matrix33).recompose"), in (), "within " + ref::fmtE (tol), ref::fmtE (e) + " off; s=" + fmtVec (s3)); }
            if (!o4) R ().fail (st ("extractScalingAndShear(Matrix33).regular-matrix-reported-degenerate"), in ());
            else if (!(sameVec (s4, s2) && ex::same (h4, h2))) { LD e = recomposeErr (s4, h4, Rres, Mlin); if (!(e <= tol)) R ().fail (st ("extractScalingAndShear(Matrix33).recompose"), in (), "within " + ref::fmtE (tol), ref::fmtE (e) + " off"); }
        }
        // sansScaling / removeScaling = H*R*T
        {
            const LD tolH = 16 * cond * eps * std::max ((LD) 1, ref::maxabs (HR)) + (gridAbs > 0 ? 16 * cond * (gridAbs / nrm) * std::max ((LD) 1, ref::maxabs (HR)) : (LD) 0);
            const LD tolT = 16 * eps * std::max (fabsl ((LD) M[2][0]), fabsl ((LD) M[2][1]));
            try
            {
                hrt ("sansScaling(Matrix33)", in, sansScaling (M, false), HR, Rc, M, tolH, tolT);
                M33 b = M;
                if (!removeScaling (b, false)) R ().fail (st ("removeScaling(Matrix33).regular-matrix-reported-degenerate"), in ());
                else hrt ("removeScaling(Matrix33)", in, b, HR, Rc, M, tolH, tolT);
            }
            catch (...) { R ().fail (st ("sansScaling(Matrix33).throws-on-regular-matrix"), in ()); }
        }
        // sansScalingAndShear / removeScalingAndShear = R*T
        {
            auto judge = [&] (const char* site, const M33& q) {
                if (sameMat<3> (q, W)) return;
                M2 Rq = ref::fromLib<2> (q);
                if (!(ref::orthoErr (Rq) <= 16 * eps) || !(fabsl (ref::det (Rq) - 1) <= 48 * eps) || !(recomposeErr (s2, h2, Rq, Mlin) <= tol))
                    R ().fail (st (std::string (site) + ".rotation"), in (), "the residual rotation", ref::fmtLib<3> (q));
                if (!(frameOK (q) && ex::same (q[2][0], M[2][0]) && ex::same (q[2][1], M[2][1]))) R ().fail (st (std::string (site) + ".translation"), in (), "row 2 of the input", ref::fmtLib<3> (q));
            };
            try
            {
                judge ("sansScalingAndShear(Matrix33)", sansScalingAndShear (M, false));
                judge ("sansScalingAndShear(Matrix33)", sansScalingAndShear (M));
                M33 b = M;
                if (!removeScalingAndShear (b, false)) R ().fail (st ("removeScalingAndShear(Matrix33).regular-matrix-reported-degenerate"), in ());
                else judge ("removeScalingAndShear(Matrix33)", b);
            }
            catch (...) { R ().fail (st ("sansScalingAndShear(Matrix33).throws-on-regular-matrix"), in ()); }
        }
        t.transitions += 12;
    }

    template <class F> void expectThrow (const char* site, const std::string& in, F&& fn) const
    {
        try { fn (); R ().fail (site, in, "std::domain_error", "returned normally"); }
        catch (const std::domain_error&) {}
        catch (...) { R ().fail (site, in, "std::domain_error", "a different exception"); }
    }
    void degenerate (const Shrt2& f, const std::string& tag, Tally2& t) const
    {
        const M33   M  = lib33<T> (lin2 (f), f.t);
        std::string in = "T=" + std::string (ref::tname<T> ()) + " " + tag + " M=" + ref::fmtLib<3> (M);
        ++t.cases; ++t.degenerate;
        V2  s (9, 9), tr (9, 9);
        T   h = 9, r = 9;
        M33 w;
        try
        {
            if (extractSHRT (M, s, h, r, tr, false)) R ().fail ("extractSHRT(Matrix33).zero-scale-not-reported", in, "false", "true; s=" + fmtVec (s));
            if (extractScaling (M, s, false)) R ().fail ("extractScaling(Matrix33).zero-scale-not-reported", in, "false", "true");
            if (extractScalingAndShear (M, s, h, false)) R ().fail ("extractScalingAndShear(Matrix33).zero-scale-not-reported", in, "false", "true");
            w = M;
            if (extractAndRemoveScalingAndShear (w, s, h, false) || !sameMat<3> (w, M)) R ().fail ("extractAndRemoveScalingAndShear(Matrix33).zero-scale-not-reported", in, "false, m unchanged", ref::fmtLib<3> (w));
            w = sansScaling (M, false);
            if (!sameMat<3> (w, M)) R ().fail ("sansScaling(Matrix33).zero-scale-not-reported", in, "returns m", ref::fmtLib<3> (w));
            w = M;
            if (removeScaling (w, false) || !sameMat<3> (w, M)) R ().fail ("removeScaling(Matrix33).zero-scale-not-reported", in, "false, m unchanged", ref::fmtLib<3> (w));
            w = sansScalingAndShear (M, false);
            if (!sameMat<3> (w, M)) R ().fail ("sansScalingAndShear(Matrix33).zero-scale-not-reported", in, "returns m", ref::fmtLib<3> (w));
            w = M;
            if (removeScalingAndShear (w, false) || !sameMat<3> (w, M)) R ().fail ("removeScalingAndShear(Matrix33).zero-scale-not-reported", in, "false, m unchanged", ref::fmtLib<3> (w));
        }
        catch (...) { R ().fail ("zero-scale(Matrix33).exc-false-throws", in); }
        expectThrow ("extractSHRT(Matrix33).zero-scale-not-reported", in, [&] { extractSHRT (M, s, h, r, tr, true); });
        expectThrow ("extractScaling(Matrix33).zero-scale-not-reported", in, [&] { extractScaling (M, s); });
        expectThrow ("extractScalingAndShear(Matrix33).zero-scale-not-reported", in, [&] { extractScalingAndShear (M, s, h); });
        expectThrow ("extractAndRemoveScalingAndShear(Matrix33).zero-scale-not-reported", in, [&] { w = M; extractAndRemoveScalingAndShear (w, s, h); });
        expectThrow ("sansScaling(Matrix33).zero-scale-not-reported", in, [&] { sansScaling (M); });
        expectThrow ("removeScaling(Matrix33).zero-scale-not-reported", in, [&] { w = M; removeScaling (w); });
        expectThrow ("sansScalingAndShear(Matrix33).zero-scale-not-reported", in, [&] { sansScalingAndShear (M); });
        expectThrow ("removeScalingAndShear(Matrix33).zero-scale-not-reported", in, [&] { w = M; removeScalingAndShear (w); });
        t.transitions += 16;
    }
};

// ---- exactly singular 2x2 linear part without a zero row (rows over {-1,0,1,2}, row 1 parallel to row 0); see the 3-D
// counterpart in c12_shrt3d.hpp for the reasoning. The extracted scale.y is exactly zero, with no rounding anywhere, when
// row 0 lies along a coordinate axis; otherwise a rounding residue may survive and the case is only held to consistency.
template <class T> static void singular2d (const int d[4], Tally2& t)
{
    typedef Matrix33<T> M33;
    typedef Vec2<T>     V2;
    M33 M;
    for (int i = 0; i < 2; ++i) for (int j = 0; j < 2; ++j) M[i][j] = (T) d[2 * i + j];
    M[2][0] = 3; M[2][1] = -5;
    const bool  exact = (d[0] == 0) != (d[1] == 0);
    std::string in    = "T=" + std::string (ref::tname<T> ()) + " M=" + ref::fmtLib<3> (M);
    ++t.cases;
    (exact ? t.sing_exact : t.sing_residue)++;
    static const char* const FN[8] = {"extractSHRT(Matrix33)", "extractScaling(Matrix33)", "extractScalingAndShear(Matrix33)", "extractAndRemoveScalingAndShear(Matrix33)",
                                      "sansScaling(Matrix33)", "removeScaling(Matrix33)", "sansScalingAndShear(Matrix33)", "removeScalingAndShear(Matrix33)"};
    bool rep[8], untouched[8];
    for (int i = 0; i < 8; ++i) untouched[i] = true;
    V2  s, tr;
    T   h = 9, r = 9;
    M33 w;
    try
    {
        rep[0] = !extractSHRT (M, s, h, r, tr, false);
        rep[1] = !extractScaling (M, s, false);
        rep[2] = !extractScalingAndShear (M, s, h, false);
        w = M; rep[3] = !extractAndRemoveScalingAndShear (w, s, h, false); untouched[3] = sameMat<3> (w, M);
        rep[4] = sameMat<3> (sansScaling (M, false), M); // a returned H*R*T has determinant 1, the input 0
        w = M; rep[5] = !removeScaling (w, false); untouched[5] = sameMat<3> (w, M);
        rep[6] = sameMat<3> (sansScalingAndShear (M, false), M);
        w = M; rep[7] = !removeScalingAndShear (w, false); untouched[7] = sameMat<3> (w, M);
    }
    catch (...) { R ().fail ("singular-matrix(Matrix33).exc-false-throws", in); return; }
    bool agree = true;
    for (int i = 1; i < 8; ++i) agree = agree && rep[i] == rep[0];
    if (!agree)
    {
        std::string g;
        for (int i = 0; i < 8; ++i) g += std::string (i ? " " : "") + FN[i] + "=" + (rep[i] ? "reported" : "decomposed");
        R ().fail ("singular-matrix(Matrix33).entry-points-disagree", in, "one answer for one matrix", g);
    }
    for (int i = 0; i < 8; ++i)
    {
        if (rep[i] && !untouched[i]) R ().fail (std::string (FN[i]) + ".singular-matrix.reported-but-matrix-modified", in, "false, m unchanged");
        if (exact && !rep[i]) R ().fail (std::string (FN[i]) + ".exactly-zero-scale-after-orthogonalisation-not-reported", in, "reported (exc=false)", vf::Msg () << "decomposed; s=" << fmtVec (s) << " h=" << h);
    }
    auto thrown = [&] (int i) -> int {
        try
        {
            switch (i)
            {
                case 0: extractSHRT (M, s, h, r, tr, true); break;
                case 1: extractScaling (M, s); break;
                case 2: extractScalingAndShear (M, s, h); break;
                case 3: w = M; extractAndRemoveScalingAndShear (w, s, h); break;
                case 4: sansScaling (M); break;
                case 5: w = M; removeScaling (w); break;
                case 6: sansScalingAndShear (M); break;
                default: w = M; removeScalingAndShear (w); break;
            }
            return 0;
        }
        catch (const std::domain_error&) { return 1; }
        catch (...) { return 2; }
    };
    for (int i = 0; i < 8; ++i)
    {
        int th = thrown (i);
        if (th == 2) R ().fail (std::string (FN[i]) + ".singular-matrix.exc-true-vs-exc-false", in, "std::domain_error or a normal return", "a different exception");
        else if ((th == 1) != rep[i]) R ().fail (std::string (FN[i]) + ".singular-matrix.exc-true-vs-exc-false", in, rep[i] ? "std::domain_error (exc=false reported)" : "normal return (exc=false decomposed)", th ? "std::domain_error" : "returned normally");
        if (exact && th != 1) R ().fail (std::string (FN[i]) + ".exactly-zero-scale-after-orthogonalisation-not-reported", in, "std::domain_error", "returned normally");
    }
    if (!exact) (rep[0] ? t.sing_residue_reported : t.sing_residue_decomposed)++;
    t.transitions += 16;
}

static const LD SC2[8] = {1, -1, 3, -3, 0.5L, -0.25L, 0.015625L, -0.000244140625L};
static const LD SH2[5] = {-1, 0, 1, 0.375L, -2.5L};

template <class T> static bool run2d (Tally2& G)
{
    Shrt2d<T>       chk;
    std::mutex      mu;
    std::vector<LD> angles;
    for (int k = -12; k <= 12; ++k) angles.push_back (k * ref::PI_LD / 6);
    if (R ().thorough ())
    {
        const int jmax = sizeof (T) == 4 ? 7 : 15;
        for (int b = -2; b <= 2; ++b) for (int j = 1; j <= jmax; ++j) for (int sg = -1; sg <= 1; sg += 2) angles.push_back (b * ref::PI_LD / 2 + sg * powl (10.0L, -(LD) j));
    }
    const uint64_t na = angles.size (), N = 64ull * 5 * na * 25;
    auto tagOf = [&] (const Shrt2& f) {
        return "s=(" + ref::fmtE (f.s[0]) + "," + ref::fmtE (f.s[1]) + ") xy=" + ref::fmtE (f.xy) + " r=" + vf::fmt (f.th) + " t=(" + ref::fmtE (f.t[0]) + "," + ref::fmtE (f.t[1]) + ")";
    };
    bool ok = vf::parallel_chunks (N, na * 25, [&] (uint64_t lo, uint64_t hi, unsigned) {
        Tally2 l;
        for (uint64_t i = lo; i < hi; ++i)
        {
            uint64_t r = i;
            int td[2];
            ex::decode (r % 25, 5, 2, td, -2); r /= 25;
            int ai = (int) (r % na); r /= na;
            int hi_ = (int) (r % 5); r /= 5;
            int sd[2];
            ex::decode (r, 8, 2, sd);
            Shrt2 f;
            f.s[0] = SC2[sd[0]]; f.s[1] = SC2[sd[1]]; f.xy = SH2[hi_]; f.th = angles[ai]; f.t[0] = td[0]; f.t[1] = td[1];
            bool refl = f.s[0] * f.s[1] < 0, graded = fabsl (f.s[0]) != fabsl (f.s[1]), sheared = f.xy != 0;
            bool rt = (td[0] != 0 || td[1] != 0) && fabsl (sinl (f.th / 2)) > 1e-9L; // rotation != 0 mod 2pi and translation != 0
            if (refl) ++l.refl;
            if (graded) ++l.graded;
            if (sheared) ++l.sheared;
            if (rt) ++l.rot_and_trans;
            if (!refl && !graded && !sheared && !rt) ++l.generic;
            chk.regular (f, [&] { return tagOf (f); }, l);
        }
        std::lock_guard<std::mutex> g (mu);
        G.merge (l);
    });
    // zero scales
    static const LD SP[3] = {0, 1, -2};
    for (int si = 0; si < 9; ++si)
    {
        int sd[2];
        ex::decode ((uint64_t) si, 3, 2, sd);
        if (sd[0] != 0 && sd[1] != 0) continue;
        for (int hi_ = 0; hi_ < 5; ++hi_)
            for (int k = -12; k <= 12; k += 2)
            {
                Shrt2 f;
                f.s[0] = SP[sd[0]]; f.s[1] = SP[sd[1]]; f.xy = SH2[hi_]; f.th = k * ref::PI_LD / 6; f.t[0] = 3; f.t[1] = 5;
                chk.degenerate (f, tagOf (f), G);
            }
    }
    // 1e-30 scales (as in 3-D): may be reported or decomposed, never decomposed wrongly
    static const LD ST[3] = {1e-30L, 1, -2};
    for (int si = 0; si < 9; ++si)
    {
        int sd[2];
        ex::decode ((uint64_t) si, 3, 2, sd);
        if (sd[0] != 0 && sd[1] != 0) continue;
        for (int hi_ = 0; hi_ < 5; ++hi_)
            for (int k = -12; k <= 12; ++k)
            {
                Shrt2 f;
                f.s[0] = ST[sd[0]]; f.s[1] = ST[sd[1]]; f.xy = SH2[hi_]; f.th = k * ref::PI_LD / 6; f.t[0] = 3; f.t[1] = 5;
                ++G.tiny;
                chk.regular (f, [&] { return tagOf (f); }, G, true);
            }
    }
    // uniformly scaled: well-conditioned members of the main family with the linear part multiplied by an exact power of two,
    // down until every entry of the upper 2x2 is subnormal (largest entry below 1/max: its reciprocal overflows although every
    // quotient by it is O(1)), down to tiny normal entries, and up near max/8. Conditioning is unchanged, so the relations of
    // regular() hold with its bounds (subnormal grid: gridAbs); the scaled-down levels are the statement's "tiny scales"
    // class and may be reported instead of decomposed (as the 1e-30 scales above), the scaled-up level must be decomposed.
    {
        const std::vector<int> KS = sizeof (T) == 4 ? std::vector<int>{-137, -133, -131, -120, -100, 120} : std::vector<int>{-1060, -1033, -1029, -1027, -1015, -900, 1016};
        static const LD SB[6] = {1, -1, 3, -3, 0.5L, -0.25L};
        const LD        tmin = std::numeric_limits<T>::min (), tmax = std::numeric_limits<T>::max (), dmin = std::numeric_limits<T>::denorm_min ();
        Shrt2d<T> chkSub, chkTiny, chkHuge;
        chkSub.sfx  = ".uniformly-scaled.all-entries-subnormal";
        chkTiny.sfx = ".uniformly-scaled.tiny-normal-entries";
        chkHuge.sfx = ".uniformly-scaled.huge-entries";
        const double    keep_rec = G.w_recompose, keep_ortho = G.w_ortho; // the "worst" notes belong to the main family
        const long long keep_rep = G.tiny_reported;
        for (int k : KS)
            for (int si = 0; si < 36; ++si)
                for (int hi_ = 0; hi_ < 5; ++hi_)
                    for (int a = -12; a <= 12; ++a)
                    {
                        Shrt2 f;
                        f.s[0] = ldexpl (SB[si % 6], k); f.s[1] = ldexpl (SB[si / 6], k); f.xy = SH2[hi_]; f.th = a * ref::PI_LD / 6; f.t[0] = 3; f.t[1] = 5;
                        const LD nrmL = ref::maxabs (lin2 (f));
                        const Shrt2d<T>* ck;
                        if (k > 0) { ++G.us_huge; ck = &chkHuge; }
                        else if (nrmL < tmin) { ++G.us_sub; ck = &chkSub; if (nrmL * tmax < 1) ++G.us_recip; }
                        else { ++G.us_tiny; ck = &chkTiny; }
                        ck->regular (f, [&] { return "2^" + std::to_string (k) + " * " + tagOf (f); }, G, k < 0, dmin);
                    }
        G.us_reported += G.tiny_reported - keep_rep; G.tiny_reported = keep_rep;
        G.w_recompose = keep_rec; G.w_ortho = keep_ortho;
    }
    // exactly singular linear parts without a zero row
    for (int i = 0; i < 256; ++i)
    {
        int d[4];
        ex::decode ((uint64_t) i, 4, 4, d, -1);
        if ((d[0] == 0 && d[1] == 0) || (d[2] == 0 && d[3] == 0)) continue;
        if (d[0] * d[3] - d[1] * d[2] != 0) continue;
        singular2d<T> (d, G);
    }
    R ().note_max (std::string ("worst 2-D recomposition error / (cond eps |M|) (") + ref::tname<T> () + ")", G.w_recompose);
    R ().note_max (std::string ("worst 2-D residual-rotation orthonormality (eps, ") + ref::tname<T> () + ")", G.w_ortho);
    return ok;
}

void stage_shrt2d ()
{
    if (!R ().stage ("shrt2d")) return;
    Tally2 G;
    bool   ok = run2d<float> (G);
    Tally2 G2;
    ok = run2d<double> (G2) && ok;
    G.merge (G2);
    R ().add ("states", G.cases); R ().add ("evaluations", G.cases); R ().add ("transitions", G.transitions);
    R ().cls ("shrt2d.reflection", G.refl);
    R ().cls ("shrt2d.graded-scales", G.graded);
    R ().cls ("shrt2d.sheared", G.sheared);
    R ().cls ("shrt2d.rotation-and-translation-both-non-trivial", G.rot_and_trans);
    R ().cls ("shrt2d.zero-scale(guard fires)", G.degenerate);
    R ().cls ("shrt2d.plain.generic", G.generic);
    R ().cls ("shrt2d.scale-1e-30", G.tiny);
    R ().cls ("shrt2d.uniformly-scaled.all-entries-subnormal", G.us_sub);
    R ().cls ("shrt2d.uniformly-scaled.all-entries-subnormal.reciprocal-of-largest-entry-overflows", G.us_recip);
    R ().cls ("shrt2d.uniformly-scaled.tiny-normal-entries", G.us_tiny);
    R ().cls ("shrt2d.uniformly-scaled.huge-entries(near max/8)", G.us_huge);
    R ().add ("uniformly_scaled_down_reported_as_degenerate(2-D)", G.us_reported);
    R ().cls ("shrt2d.singular-no-zero-row.exactly-zero-scale-after-orthogonalisation(guard must fire)", G.sing_exact);
    R ().cls ("shrt2d.singular-no-zero-row.rounding-residue-scale(counted, held to consistency only)", G.sing_residue);
    R ().add ("tiny_scale_reported_as_degenerate(2-D)", G.tiny_reported);
    R ().add ("singular_rounding_residue_reported(2-D, not judged)", G.sing_residue_reported);
    R ().add ("singular_rounding_residue_decomposed(2-D, not judged)", G.sing_residue_decomposed);
    R ().sample ("2-D: s=(1,1) xy=0 r=0.7 t=(3,5): sansScaling must return translation (3,5); t*R = (-0.927,5.757)");
    std::string b = "8^2 scales x 5 shears x k*pi/6 (k in [-12,12]" + std::string (R ().thorough () ? ", plus b*pi/2 +- 10^-j" : "") + ") x L(2)^2 translations, float and double; zero scales reported by all eight entry points; 1e-30 scales; 6^2 scales x 5 shears x 25 angles uniformly scaled by 6 (float) / 7 (double) powers of two (all-subnormal, tiny normal, near max/8); all singular 2x2 parts over {-1,0,1,2} without a zero row";
    if (ok) R ().stage_done (b); else R ().stage_partial (b);
}

} // namespace c12
