// C13 set-level stage, element type int (one TU per type keeps the build parallel)
#include "c13_sets.hpp"
namespace c13 { template bool run_sets<int> (bool); }
