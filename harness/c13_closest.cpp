// C13 clip / closestPointInBox / closestPointOnBox, all element types
#include "c13_closest.hpp"
namespace c13 {
template bool run_closest<short> (bool);
template bool run_closest<int> (bool);
template bool run_closest<int64_t> (bool);
template bool run_closest<float> (bool);
template bool run_closest<double> (bool);
}
