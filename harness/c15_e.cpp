// C15 (part e) — strengthenings after the clause audit (findings/audits/audit3.md, section C15), continued:
//   graded-incidence.<T>   line/plane and line/triangle incidence for lines that make an angle of exactly 2^-k with the
//                          plane, k up to where the parameter of the hit overflows (cancellation-free exact oracle)
//   far-sphere.<T>         Sphere3::intersectT with the line origin 2^k away from the sphere (B^2 - 4C cancels)
//   plane-affine.<T>       Plane3 * Matrix44 for ALL 6960 linear parts over {-1,0,1} with determinant +-1 (shears,
//                          non-cube maps); side preservation for the 3480 with determinant +1
//   closestVertex.<V>      the Vec2 / Vec4 / integer instantiations of closestVertex(v0,v1,v2,p)
#include "c15.hpp"
#include <ImathVec.h>
#include <array>

namespace c15 {
using namespace vf;

// ------------------------------------------------------------------------------------------------
// Graded incidence.  Line direction dir = si e_i + sj 2^-k e_j stored directly in the public member (|dir|^2 =
// 1 + 2^-2k rounds to 1 for every k used: a unit vector to within half an ulp, as Line3 assumes); plane / triangle
// plane x_j = D with normal +-e_j.  Then normal.dir = +-2^-k EXACTLY (a single non-zero product) and the parameter of
// the hit is t = -sj (pos_j - D) 2^k EXACTLY, a small integer times a power of two: nothing cancels and nothing rounds
// as long as t is representable, whatever k is.
//  Plane3::intersect / intersectT (documented: "True if the line intersects the plane"): the line is NOT parallel
//   (normal.dir = 2^-k != 0, also when 2^-k is subnormal), so whenever |t| <= max the answer must be true with
//   |t - t_true| <= 4 eps |t_true| and the point within 4 eps (|t| + |pos|_1 + 1) per component (a correct evaluation
//   has at most one rounding in the numerator, one in the quotient and two in pos + dir t; here they all vanish).
//   When |t_true| > max the intersection is not representable and nothing is demanded (counted).
//  Triangle intersect(): two families.
//   (a) hit inside: pos = X - t dir with X an interior / exterior target of the triangle (weights/8 as in c15_c.cpp)
//       and k small enough that pos is exact and that 32 eps 2^k |h| stays far below the 1/8 margin of the targets
//       (float k in {12,13,14}, double k in {27,36,40}); verdict, point, barycentrics and front flag as at unit scale
//       with tolp = 4 eps (|t| + S) (the triangle's normal is +-e_j exactly by any formula - both edges have a zero
//       j component - so d has a single term); cases whose barycentric bound reaches 1/16 are counted and skipped.
//   (b) pos one or two units above a target point, k up to and beyond the overflow of t: the line meets the plane
//       at distance >= 2^30 from the (unit-size) triangle or beyond the representable range: it does not pass through
//       the triangle, intersect() must return false (this is the documented "line and plane nearly parallel" exit of
//       the guard |d| < max |nd|, taken from both sides).
template <class T> static void graded ()
{
    const LD e = ex::eps<T> ();
    std::string st = std::string ("graded-incidence.") + tname<T> ();
    if (!R ().stage (st)) return;
    const bool dbl = std::numeric_limits<T>::digits > 30;
    const std::string tn = std::string ("T=") + tname<T> ();
    const LD mx = (LD) std::numeric_limits<T>::max ();
    const std::vector<int> KP = dbl ? std::vector<int>{27, 49, 300, 1000, 1020, 1021, 1022, 1023, 1050, 1074} : std::vector<int>{12, 20, 60, 100, 125, 126, 127, 128, 140, 149};
    const std::vector<int> KIN = dbl ? std::vector<int>{27, 36, 40} : std::vector<int>{12, 13, 14};
    const std::vector<int> KFAR = dbl ? std::vector<int>{60, 300, 1000, 1021, 1022, 1023, 1024, 1050, 1074} : std::vector<int>{30, 60, 100, 125, 126, 127, 128, 140, 149};
    const auto P = lattice (2);
    ll n_fin = 0, n_ovf = 0, n_on = 0, n_sub = 0;
    auto dirstr = [] (int i, int j, int si, int sj, int k) { return std::string (si > 0 ? "+e" : "-e") + std::to_string (i) + (sj > 0 ? " + " : " - ") + "2^-" + std::to_string (k) + " e" + std::to_string (j); };
    // ---- plane
    for (int i = 0; i < 3; ++i) for (int jj = 1; jj <= 2; ++jj)
    {
        const int j = (i + jj) % 3;
        for (int si = -1; si <= 1; si += 2) for (int sj = -1; sj <= 1; sj += 2) for (int sn = -1; sn <= 1; sn += 2)
            for (int D = -2; D <= 2; ++D)
            {
                Vec3<T> nv (0, 0, 0); nv[j] = (T) sn;
                Plane3<T> pl (nv, (T) (sn * D)); // points with x_j = D
                for (int k : KP)
                {
                    const T tiny = (T) std::ldexp ((double) sj, -k);
                    for (const I3& p : P)
                    {
                        const ll pc[3] = {p.x, p.y, p.z};
                        Line3<T> l; l.pos = toV<T> (p); l.dir = Vec3<T> (0, 0, 0); l.dir[i] = (T) si; l.dir[j] = tiny;
                        const ll h = D - pc[j];                       // pos_j + sj 2^-k t = D  ->  t = sj h 2^k
                        const LD tt = ldexpl ((LD) (sj * h), k);
                        Vec3<T> X ((T) 77); T t = 77;
                        bool r1 = pl.intersect (l, X), r2 = pl.intersectT (l, t);
                        auto in = [&] () { return tn + " Plane3(normal=" + (sn > 0 ? "+e" : "-e") + std::to_string (j) + ", distance=" + std::to_string (sn * D) + ") Line3 pos=" + s (p) + " dir=" + dirstr (i, j, si, sj, k); };
                        if (k > (dbl ? 1022 : 126)) ++n_sub;
                        if (!(fabsl (tt) <= mx)) { ++n_ovf; continue; }
                        (h == 0 ? n_on : n_fin)++;
                        L3 wX = toL (p); LD* wc[3] = {&wX.x, &wX.y, &wX.z};
                        *wc[i] += si * tt; *wc[j] = (LD) D;
                        LD tol = 4 * e * (fabsl (tt) + (LD) l1 (p) + 1);
                        if (!r1) R ().fail ("Plane3::intersect.nearly-parallel.false-on-crossing-line", in (), "true, point " + s (wX), "false");
                        else if (!(maxdiff (X, wX) <= tol)) R ().fail ("Plane3::intersect.nearly-parallel.point", in (), s (wX), s (X));
                        if (!r2) R ().fail ("Plane3::intersectT.nearly-parallel.false-on-crossing-line", in (), "true, t = " + s (tt), "false");
                        else if (!(fabsl ((LD) t - tt) <= 4 * e * fabsl (tt))) R ().fail ("Plane3::intersectT.nearly-parallel.parameter", in (), s (tt), fmt (t));
                    }
                }
            }
    }
    ll np = n_fin + n_ovf + n_on;
    R ().add ("states", np); R ().add ("evaluations", np); R ().add ("transitions", (n_fin + n_on) * 2);
    R ().cls ("graded.plane.angle-2^-k-parameter-representable", n_fin); R ().cls ("graded.plane.parameter-overflows(no demand)", n_ovf);
    R ().cls ("graded.plane.line-origin-on-plane", n_on); R ().cls ("graded.plane.angle-is-subnormal", n_sub);

    // ---- triangle
    ll t_in = 0, t_out = 0, t_far = 0, t_ovf = 0, t_front = 0, t_back = 0, t_skip = 0;
    static const int IN[][3]  = {{4, 2, 2}, {6, 1, 1}, {1, 6, 1}, {1, 1, 6}};
    static const int OUT[][3] = {{-1, 5, 4}, {4, -1, 5}, {5, 4, -1}};
    for (int i = 0; i < 3; ++i) for (int jj = 1; jj <= 2; ++jj)
    {
        const int j = (i + jj) % 3, lx = 3 - i - j;
        for (int D : {-1, 0, 2})
            for (int a = 0; a < 729; ++a)
            {
                int q[6]; ex::decode ((uint64_t) a, 3, 6, q, -1); // (i,l) coordinates of the three vertices, in L(1)^2
                ll vv[3][3];
                for (int m = 0; m < 3; ++m) { vv[m][i] = q[2 * m]; vv[m][lx] = q[2 * m + 1]; vv[m][j] = D; }
                const I3 v0 = {vv[0][0], vv[0][1], vv[0][2]}, v1 = {vv[1][0], vv[1][1], vv[1][2]}, v2 = {vv[2][0], vv[2][1], vv[2][2]};
                const I3 Nd = cross (v2 - v1, v1 - v0);
                const ll NN = dot (Nd, Nd);
                if (NN == 0) continue;
                const ll Ndc[3] = {Nd.x, Nd.y, Nd.z};
                Vec3<T> a0 = toV<T> (v0), a1 = toV<T> (v1), a2 = toV<T> (v2);
                ll e2[3] = {dot (v1 - v0, v1 - v0), dot (v2 - v1, v2 - v1), dot (v0 - v2, v0 - v2)};
                LD L = sqrtl ((LD) std::max (e2[0], std::max (e2[1], e2[2]))), hh = sqrtl ((LD) NN) / L;
                const std::string tri = tn + " tri=" + s (v0) + s (v1) + s (v2);
                for (int wi = 0; wi < 7; ++wi)
                {
                    const int* w = wi < 4 ? IN[wi] : OUT[wi - 4];
                    const bool interior = wi < 4;
                    const I3 X8 = v0 * w[0] + v1 * w[1] + v2 * w[2];
                    const L3 XL = toL (X8) * 0.125L;
                    const LD Xc[3] = {XL.x, XL.y, XL.z};
                    for (int si = -1; si <= 1; si += 2) for (int sj = -1; sj <= 1; sj += 2) for (int hj : {1, -2})
                    {
                        // (a) hit at X
                        for (int k : KIN)
                        {
                            const LD tt = -ldexpl ((LD) (sj * hj), k); // pos_j = D + hj
                            LD pc[3] = {Xc[0], Xc[1], Xc[2]};
                            pc[j] = D + hj; pc[i] = Xc[i] - si * tt;
                            Line3<T> l; l.pos = Vec3<T> ((T) pc[0], (T) pc[1], (T) pc[2]); l.dir = Vec3<T> (0, 0, 0); l.dir[i] = (T) si; l.dir[j] = (T) std::ldexp ((double) sj, -k);
                            if (!((LD) l.pos[i] == pc[i])) { ++t_skip; continue; } // (never: the exponents were chosen so that pos is exact)
                            LD S = l1 (XL) + fabsl (pc[0]) + fabsl (pc[1]) + fabsl (pc[2]) + 4;
                            // d = normal.(v0 - pos) has one non-vanishing term, the quotient d/nd one rounding, pos + dir t two:
                            LD tolp = 4 * e * (fabsl (tt) + S), tolb = 64 * e * L / hh + 4 * tolp / hh;
                            if (!(tolb < 1.0L / 16)) { ++t_skip; continue; }
                            Vec3<T> pt ((T) 77), bc ((T) 77); bool fr = false;
                            bool r = intersect (l, a0, a1, a2, pt, bc, fr);
                            auto in = [&] () { return tri + " weights/8=(" + std::to_string (w[0]) + "," + std::to_string (w[1]) + "," + std::to_string (w[2]) + ") Line3 pos=" + s (l.pos) + " dir=" + dirstr (i, j, si, sj, k); };
                            if (!interior) { ++t_out; if (r) R ().fail ("intersect(triangle).nearly-parallel.true-outside", in (), "false", "true bary=" + s (bc)); continue; }
                            ++t_in;
                            if (!r) { R ().fail ("intersect(triangle).nearly-parallel.false-inside", in (), "true, point " + s (XL), "false"); continue; }
                            const bool wf = Ndc[j] * sj < 0; // Ndoc . dir = Nd_j sj 2^-k
                            (wf ? t_front : t_back)++;
                            if (fr != wf) R ().fail ("intersect(triangle).nearly-parallel.front", in (), fmt (wf), fmt (fr));
                            if (!(maxdiff (pt, XL) <= tolp)) R ().fail ("intersect(triangle).nearly-parallel.point", in (), s (XL), s (pt));
                            L3 wb = {w[0] / 8.0L, w[1] / 8.0L, w[2] / 8.0L};
                            if (!(maxdiff (bc, wb) <= tolb)) R ().fail ("intersect(triangle).nearly-parallel.barycentric", in (), s (wb), s (bc));
                        }
                        // (b) origin above the target point; the plane is met >= 2^30 away or beyond the representable range
                        if (wi > 1 && wi != 4) continue; // two interior targets and one exterior are enough here
                        for (int k : KFAR)
                        {
                            Line3<T> l; l.pos = Vec3<T> ((T) Xc[0], (T) Xc[1], (T) Xc[2]); l.pos[j] = (T) (D + hj);
                            l.dir = Vec3<T> (0, 0, 0); l.dir[i] = (T) si; l.dir[j] = (T) std::ldexp ((double) sj, -k);
                            const bool ovf = !(ldexpl ((LD) std::abs (hj), k) <= mx);
                            Vec3<T> pt ((T) 77), bc ((T) 77); bool fr = false;
                            bool r = intersect (l, a0, a1, a2, pt, bc, fr);
                            (ovf ? t_ovf : t_far)++;
                            if (r) R ().fail (ovf ? "intersect(triangle).nearly-parallel.true-on-unrepresentable-hit" : "intersect(triangle).nearly-parallel.true-on-far-miss",
                                              tri + " Line3 pos=" + s (l.pos) + " dir=" + dirstr (i, j, si, sj, k), "false (the line meets the plane |h| 2^k away)", "true pt=" + s (pt));
                        }
                    }
                }
            }
    }
    ll nt = t_in + t_out + t_far + t_ovf;
    R ().add ("states", nt); R ().add ("evaluations", nt); R ().add ("transitions", t_in * 4 + t_out + t_far + t_ovf);
    R ().add (std::string ("graded_triangle_cases_skipped.") + tname<T> (), t_skip);
    R ().cls ("graded.triangle.hit-inside-at-angle-2^-k", t_in); R ().cls ("graded.triangle.hit-outside-at-angle-2^-k", t_out);
    R ().cls ("graded.triangle.front-facing", t_front); R ().cls ("graded.triangle.back-facing", t_back);
    R ().cls ("graded.triangle.plane-met-far-away", t_far); R ().cls ("graded.triangle.hit-parameter-overflows(guard exit)", t_ovf);
    R ().stage_done (std::to_string (np) + " line/plane cases (6 axis pairs x 8 signs x 5 offsets x 10 exponents x 125 origins) and " + std::to_string (nt) + " line/triangle cases (6 axis pairs x 3 offsets x all non-degenerate triangles of L(1)^2 x 7 targets x 8 lines x exponents)");
}
void run_graded () { graded<float> (); graded<double> (); }

// ------------------------------------------------------------------------------------------------
// Far-origin sphere.  Centre c, radius r; line origin c + 2^k u + o with u = +-e_i and o an integer offset
// perpendicular to u; direction -u (towards the sphere) or +u (away).  All operands are exact in T (k <= 20 / 50).
// k >= 4: 2^k >= 16 > r + every tolerance, the origin is outside the sphere.
// With w = pos - c:  b = dir.w = -+2^k, C = w.w - r^2, disc = b^2 - C = r^2 - |o|^2  (a small integer), so
//   towards: roots 2^k -+ sqrt(disc) (both positive)   away: roots -2^k -+ sqrt(disc) (both negative -> false)
//   disc < 0: the line misses.
// The library evaluates discr = B^2 - 4C = 4 disc by cancellation from terms of size 4 S2, S2 = w.w + r^2 + 1: its
// absolute error is <= 60 eps S2 (c15_c.cpp), which grows like 4^k.  A verdict is demanded only while
// 60 eps S2 <= 2 |disc| (then the sign of discr is certainly right and sqrt(discr) errs by <= 60 eps S2 / (2 sqrt(disc)));
// tolerance on t as at unit scale, 16 eps S2 / sqrt(disc) + 16 eps S.  Cases beyond that bound are counted, not judged.
template <class T> static void farsphere ()
{
    const LD e = ex::eps<T> ();
    std::string st = std::string ("far-sphere.") + tname<T> ();
    if (!R ().stage (st)) return;
    const bool dbl = std::numeric_limits<T>::digits > 30;
    const int KMAX = dbl ? 50 : 20;
    const std::string tn = std::string ("T=") + tname<T> ();
    const I3 CC[] = {{0, 0, 0}, {1, -2, 2}};
    const ll RR[] = {1, 3, 5, 7}, OO[] = {-8, -7, -5, -3, -1, 0, 1, 2, 4, 6, 8};
    ll n_hit = 0, n_miss = 0, n_away = 0, n_unj = 0, n_tan = 0, kjudged = 0;
    double worst = 0;
    for (const I3& c : CC) for (int i = 0; i < 3; ++i) for (int su = -1; su <= 1; su += 2) for (int k = 4; k <= KMAX; ++k)
        for (ll r : RR) for (ll o1 : OO) for (ll o2 : OO) for (int toward = 0; toward < 2; ++toward)
        {
            LD wc[3]; wc[i] = ldexpl ((LD) su, k); wc[(i + 1) % 3] = (LD) o1; wc[(i + 2) % 3] = (LD) o2;
            const ll cc[3] = {c.x, c.y, c.z};
            Line3<T> l; l.dir = Vec3<T> (0, 0, 0); l.dir[i] = (T) (toward ? -su : su);
            for (int q = 0; q < 3; ++q) l.pos[q] = (T) (wc[q] + cc[q]);
            Sphere3<T> sp (toV<T> (c), (T) r);
            const ll disc = r * r - o1 * o1 - o2 * o2;
            const LD S2 = ldexpl (1, 2 * k) + (LD) (o1 * o1 + o2 * o2 + r * r + 1), S = ldexpl (1, k) + (LD) (std::llabs (o1) + std::llabs (o2) + r + 1);
            T tt = 77; Vec3<T> X ((T) 77);
            bool r1 = sp.intersectT (l, tt), r2 = sp.intersect (l, X);
            auto in = [&] () { return tn + " Sphere3(" + s (c) + ", " + std::to_string (r) + ") Line3 pos=" + s (l.pos) + " dir=" + s (l.dir) + " [origin 2^" + std::to_string (k) + " from the centre, offset (" + std::to_string (o1) + "," + std::to_string (o2) + ")]"; };
            if (r1 != r2) R ().fail ("Sphere3::intersect-vs-intersectT.far-origin", in (), fmt (r1), fmt (r2));
            if (disc == 0) { ++n_tan; continue; }
            if (!(60 * e * S2 <= 2 * (LD) std::llabs (disc))) { ++n_unj; continue; }
            kjudged = std::max (kjudged, (ll) k);
            if (disc < 0) { ++n_miss; if (r1) R ().fail ("Sphere3::intersectT.far-origin.true-on-miss", in (), "false", "true t=" + fmt (tt)); continue; }
            const LD sq = sqrtl ((LD) disc), tol = 16 * e * S2 / sq + 16 * e * S;
            if (!toward)
            {   // both roots -2^k -+ sq are far below -tol
                ++n_away;
                if (r1) R ().fail ("Sphere3::intersectT.far-origin.true-with-sphere-behind", in (), "false (roots " + s (-ldexpl (1, k) - sq) + ", " + s (-ldexpl (1, k) + sq) + ")", "true t=" + fmt (tt));
                continue;
            }
            ++n_hit;
            const LD tm = ldexpl (1, k) - sq;
            if (!r1) R ().fail ("Sphere3::intersectT.far-origin.false-on-hit", in (), "true, t = " + s (tm), "false");
            else
            {
                LD d = fabsl ((LD) tt - tm);
                worst = std::max (worst, (double) (d / tol));
                // tol < sq here (60 eps S2 <= 2 disc), so the larger root tm + 2 sq is never within tol of tm
                if (!(d <= tol)) R ().fail ("Sphere3::intersectT.far-origin.smallest-nonnegative-root", in (), s (tm) + " (larger root " + s (tm + 2 * sq) + ")", fmt (tt));
                else if (r2 && !(fabsl (len (toL (X) - toL (c)) - r) <= 2 * tol + 8 * e * S)) R ().fail ("Sphere3::intersect.far-origin.point-on-sphere", in (), std::to_string (r), s (len (toL (X) - toL (c))));
            }
        }
    ll n = n_hit + n_miss + n_away + n_unj + n_tan;
    R ().add ("states", n); R ().add ("evaluations", n); R ().add ("transitions", (n_hit + n_miss + n_away) * 2);
    R ().add (std::string ("far_sphere_cases_beyond_cancellation_bound_unjudged.") + tname<T> (), n_unj);
    R ().note (std::string ("far-sphere largest judged exponent k, ") + tname<T> (), std::to_string (kjudged));
    R ().cls ("far-sphere.pointing-at-sphere-two-positive-roots", n_hit); R ().cls ("far-sphere.line-misses", n_miss);
    R ().cls ("far-sphere.sphere-behind-origin", n_away); R ().cls ("far-sphere.tangent(unjudged)", n_tan);
    R ().note_max (std::string ("worst far-origin intersectT error / tolerance, ") + tname<T> (), worst);
    R ().stage_done (std::to_string (n) + " cases: 2 centres x 6 axis directions x 2^k (k=4.." + std::to_string (KMAX) + ") x 4 radii x 121 perpendicular offsets x {towards, away}; judged while 60 eps S2 <= 2 |disc|");
}
void run_farsphere () { farsphere<float> (); farsphere<double> (); }

// ------------------------------------------------------------------------------------------------
// Plane3 * Matrix44 for general integer affine maps: x' = x A + tr with A any of the 6960 matrices over {-1,0,1}
// with det A = +-1 (3480 of each sign; shears and maps that send no axis to an axis included) - images of lattice
// points are exact integers.  For the plane n.x = d (n = nn/|nn|, d = n.pp) the image plane has normal direction
// A^-1 n (column form) and the image of y lies at signed distance (n.y - d) / |A^-1 n| from it.
//   contains (all A)       : |P'.distanceTo(a A + tr)| <= tol for a = pp, pp + u1, pp + u2 (u1, u2 lattice vectors in the plane)
//   side (det A = +1 only)  : P'.distanceTo((pp +- nn) A + tr) has the sign +-, whenever the true value exceeds 2 tol
// Tolerance.  operator* rebuilds the plane from the images of three points P0 = d n, P0 + dir2, P0 + dir1 with
// |dir1| = |dir2| >= sqrt(2/3), dir1 _|_ dir2 _|_ n.  With F = |A|_Frobenius >= sigma_max(A) (and sigma_min = 1/..: det = +-1):
//  * the three points lie within 8 eps (|d|+1) of the ideal plane; their images within delta = 8 eps F (|d|+1) + 4 eps S'
//    of the ideal image plane (S' >= 1 + every coordinate sum involved);
//  * image triangle: twice its area is |dir1|^2 |A^-1 n| >= |dir1|^2 / F, its longest edge <= sqrt2 F |dir1|, so its smallest
//    altitude is h >= 0.577 / F^2; a plane through three points displaced by <= delta moves by <= delta (1 + 4 L/h) at
//    distance L from the anchor image;
//  * the cross product of the rounded edge vectors adds an angular error <= eps (4 F^3 + 8 S' F^2) (products 2 eps |E1||E2|,
//    differences 4 eps S' |E|, divided by the doubled area), i.e. L times that at distance L;
//  * normalisation, the offset n'.P0' and the evaluation n'.x - d': <= 16 eps S'.
//  tol = 2 eps [ (8 F (|d|+1) + 4 S') (1 + 7 L F^2) + L (4 F^3 + 8 S' F^2) + 16 S' ]    (factor 2 = head room)
template <class T> static void plane_affine ()
{
    const LD e = ex::eps<T> ();
    const bool th = R ().thorough ();
    std::string st = std::string ("plane-affine.") + tname<T> ();
    if (!R ().stage (st)) return;
    const std::string tn = std::string ("T=") + tname<T> ();
    struct AM { int a[9]; int adj[9]; int det; LD F; bool axes; };
    std::vector<AM> AS;
    for (int m = 0; m < 19683; ++m)
    {
        AM x; ex::decode ((uint64_t) m, 3, 9, x.a, -1);
        const int* a = x.a;
        x.det = a[0] * (a[4] * a[8] - a[5] * a[7]) - a[1] * (a[3] * a[8] - a[5] * a[6]) + a[2] * (a[3] * a[7] - a[4] * a[6]);
        if (x.det != 1 && x.det != -1) continue;
        // adjugate (row-major): adj = det * A^-1
        x.adj[0] = a[4] * a[8] - a[5] * a[7]; x.adj[1] = a[2] * a[7] - a[1] * a[8]; x.adj[2] = a[1] * a[5] - a[2] * a[4];
        x.adj[3] = a[5] * a[6] - a[3] * a[8]; x.adj[4] = a[0] * a[8] - a[2] * a[6]; x.adj[5] = a[2] * a[3] - a[0] * a[5];
        x.adj[6] = a[3] * a[7] - a[4] * a[6]; x.adj[7] = a[1] * a[6] - a[0] * a[7]; x.adj[8] = a[0] * a[4] - a[1] * a[3];
        int f2 = 0, nz = 0; for (int q = 0; q < 9; ++q) { f2 += a[q] * a[q]; nz += a[q] != 0; }
        x.F = sqrtl ((LD) f2); x.axes = nz == 3;
        AS.push_back (x);
    }
    const auto D = directions ();
    const std::vector<I3> PP = th ? std::vector<I3>{{0, 0, 0}, {1, -2, 2}, {-1, 0, 2}, {2, 1, -1}} : std::vector<I3>{{0, 0, 0}, {1, -2, 2}, {-1, 0, 2}};
    const std::vector<I3> TR = th ? std::vector<I3>{{1, -2, 3}, {0, 0, 0}} : std::vector<I3>{{1, -2, 3}};
    std::atomic<ll> cases (0), c_pos (0), c_neg (0), c_gen (0), c_side (0), c_sideskip (0);
    std::mutex mm; double worst = 0;
    bool ok = parallel_chunks (PP.size () * D.size (), 2, [&] (uint64_t lo, uint64_t hi, unsigned) {
        ll k_c = 0, k_p = 0, k_n = 0, k_g = 0, k_s = 0, k_ss = 0; double lw = 0;
        for (uint64_t i = lo; i < hi; ++i)
        {
            const I3 pp = PP[i / D.size ()], nn = D[i % D.size ()];
            Plane3<T> pl (toV<T> (pp), toV<T> (nn));
            int kx = std::llabs (nn.x) >= std::llabs (nn.y) && std::llabs (nn.x) >= std::llabs (nn.z) ? 0 : (std::llabs (nn.y) >= std::llabs (nn.z) ? 1 : 2);
            const I3 ax[3] = {{1, 0, 0}, {0, 1, 0}, {0, 0, 1}};
            const I3 u1 = cross (nn, ax[(kx + 1) % 3]), u2 = cross (nn, ax[(kx + 2) % 3]);
            const I3 pts[5] = {pp, pp + u1, pp + u2, pp + nn, pp - nn};
            const LD nl = sqrtl ((LD) dot (nn, nn)), dd = (LD) dot (nn, pp) / nl;
            const L3 anchor = toL (nn) * (dd / nl); // d n
            for (const AM& A : AS) for (const I3& tr : TR)
            {
                Matrix44<T> M;
                for (int r = 0; r < 3; ++r) for (int c = 0; c < 3; ++c) M[r][c] = (T) A.a[r * 3 + c];
                M[3][0] = (T) tr.x; M[3][1] = (T) tr.y; M[3][2] = (T) tr.z;
                auto img = [&] (const L3& x) { return L3{x.x * A.a[0] + x.y * A.a[3] + x.z * A.a[6] + tr.x, x.x * A.a[1] + x.y * A.a[4] + x.z * A.a[7] + tr.y, x.x * A.a[2] + x.y * A.a[5] + x.z * A.a[8] + tr.z}; };
                const Plane3<T> q = pl * M;
                const L3 an = img (anchor);
                L3 im[5]; LD S = 1 + l1 (an) + 2 * A.F;
                for (int a = 0; a < 5; ++a) { im[a] = img (toL (pts[a])); S = std::max (S, 1 + l1 (im[a]) + 2 * A.F); }
                auto tolat = [&] (const L3& x) { LD L = len (x - an), F = A.F; return 2 * e * ((8 * F * (fabsl (dd) + 1) + 4 * S) * (1 + 7 * L * F * F) + L * (4 * F * F * F + 8 * S * F * F) + 16 * S); };
                auto in = [&] () {
                    std::string m;
                    for (int r = 0; r < 3; ++r) m += std::string (r ? " / " : "") + std::to_string (A.a[r * 3]) + " " + std::to_string (A.a[r * 3 + 1]) + " " + std::to_string (A.a[r * 3 + 2]);
                    return tn + " Plane3(point=" + s (pp) + ", normal=" + s (nn) + ") * M(linear rows " + m + "; translation row " + s (tr) + "; det " + std::to_string (A.det) + ")";
                };
                ++k_c; (A.det > 0 ? k_p : k_n)++; if (!A.axes) ++k_g;
                const L3 qn = toL (q.normal);
                if (!(fabsl (dot (qn, qn) - 1) <= 8 * e)) R ().fail ("Plane3*Matrix44.integer-affine.unit-normal", in (), "1", s (dot (qn, qn)));
                for (int a = 0; a < 3; ++a)
                {
                    LD dv = dot (qn, im[a]) - (LD) q.distance, tol = tolat (im[a]);
                    lw = std::max (lw, (double) (fabsl (dv) / tol));
                    if (!(fabsl (dv) <= tol)) R ().fail (A.det > 0 ? "Plane3*Matrix44.integer-affine.contains-transformed-points" : "Plane3*Matrix44.integer-affine.contains-transformed-points.orientation-reversing", in () + " point " + s (pts[a]), "0", s (dv));
                }
                if (A.det > 0)
                {
                    // |A^-1 nn| with A^-1 = adj (det = 1), column form
                    const ll w0 = A.adj[0] * nn.x + A.adj[1] * nn.y + A.adj[2] * nn.z, w1 = A.adj[3] * nn.x + A.adj[4] * nn.y + A.adj[5] * nn.z, w2 = A.adj[6] * nn.x + A.adj[7] * nn.y + A.adj[8] * nn.z;
                    const LD td = (LD) dot (nn, nn) / sqrtl ((LD) (w0 * w0 + w1 * w1 + w2 * w2));
                    const LD tol = std::max (tolat (im[3]), tolat (im[4]));
                    if (td > 2 * tol)
                    {
                        ++k_s;
                        LD dp = dot (qn, im[3]) - (LD) q.distance, dm = dot (qn, im[4]) - (LD) q.distance;
                        if (!(dp > 0) || !(dm < 0)) R ().fail ("Plane3*Matrix44.integer-affine.side-preserved", in (), "+" + s (td) + " / -" + s (td), s (dp) + " / " + s (dm));
                        else if (!(fabsl (dp - td) <= tol) || !(fabsl (dm + td) <= tol)) R ().fail ("Plane3*Matrix44.integer-affine.off-plane-distance", in (), "+" + s (td) + " / -" + s (td), s (dp) + " / " + s (dm));
                    }
                    else ++k_ss;
                }
            }
        }
        cases += k_c; c_pos += k_p; c_neg += k_n; c_gen += k_g; c_side += k_s; c_sideskip += k_ss;
        std::lock_guard<std::mutex> g (mm); worst = std::max (worst, lw);
    });
    R ().add ("states", cases); R ().add ("evaluations", cases); R ().add ("transitions", cases.load () * 4 + c_side.load () * 2);
    R ().add (std::string ("plane_affine_side_cases_inside_tolerance_unjudged.") + tname<T> (), c_sideskip);
    R ().cls ("plane-affine.det=+1", c_pos); R ().cls ("plane-affine.det=-1(contains only)", c_neg);
    R ().cls ("plane-affine.shear-or-non-axis-map", c_gen); R ().cls ("plane-affine.side-checked", c_side);
    R ().note_max (std::string ("worst plane*M(integer affine) containment residual / tolerance, ") + tname<T> (), worst);
    if (ok) R ().stage_done (std::to_string (PP.size () * D.size ()) + " planes x all " + std::to_string (AS.size ()) + " linear parts over {-1,0,1} with det +-1 x " + std::to_string (TR.size ()) + " translation(s)");
    else R ().stage_partial ("deadline");
}
void run_affine () { plane_affine<float> (); plane_affine<double> (); }

// ------------------------------------------------------------------------------------------------
// closestVertex(v0, v1, v2, p) - documented for Vec2, Vec3, Vec4 and not restricted to floating-point element types.
// Every operand is a small integer, so (v - p).length2() is exact in every element type; the oracle is the integer
// squared distance; the result must be (==) one of the vertices at minimal distance (ties: any minimal vertex).
template <class V> static void cvertex (int kv, int kp, const char* vn)
{
    typedef typename V::BaseType T;
    const unsigned n = V::dimensions (), bv = 2 * kv + 1, bp = 2 * kp + 1;
    std::string st = std::string ("closestVertex.") + vn;
    if (!R ().stage (st)) return;
    const uint64_t NV = ex::ipow (bv, n), NP = ex::ipow (bp, n);
    std::vector<V> VV (NV), PV (NP);
    std::vector<std::array<int, 4>> VI (NV), PI (NP);
    for (uint64_t i = 0; i < NV; ++i) { int d[4] = {0, 0, 0, 0}; ex::decode (i, bv, n, d, -kv); for (unsigned c = 0; c < n; ++c) { VV[i][c] = (T) d[c]; VI[i][c] = d[c]; } }
    for (uint64_t i = 0; i < NP; ++i) { int d[4] = {0, 0, 0, 0}; ex::decode (i, bp, n, d, -kp); for (unsigned c = 0; c < n; ++c) { PV[i][c] = (T) d[c]; PI[i][c] = d[c]; } }
    std::atomic<ll> cases (0), ties (0), uniq (0), first (0), second (0), third (0);
    const std::string site = std::string ("closestVertex(point).") + vn;
    bool ok = parallel_chunks (NV * NV, 16, [&] (uint64_t lo, uint64_t hi, unsigned) {
        ll k_c = 0, k_t = 0, k_u = 0, k_w[3] = {0, 0, 0};
        for (uint64_t i = lo; i < hi; ++i)
        {
            const uint64_t i0 = i / NV, i1 = i % NV;
            for (uint64_t i2 = 0; i2 < NV; ++i2)
                for (uint64_t ip = 0; ip < NP; ++ip)
                {
                    const uint64_t ix[3] = {i0, i1, i2};
                    int d[3], m;
                    for (int k = 0; k < 3; ++k) { d[k] = 0; for (unsigned c = 0; c < n; ++c) { int q = VI[ix[k]][c] - PI[ip][c]; d[k] += q * q; } }
                    m = std::min (d[0], std::min (d[1], d[2]));
                    const V g = closestVertex (VV[i0], VV[i1], VV[i2], PV[ip]);
                    bool hit = false;
                    for (int k = 0; k < 3; ++k) if (d[k] == m && g == VV[ix[k]]) hit = true;
                    if (!hit) R ().fail (site, std::string (vn) + " v0,v1,v2 = #" + std::to_string (i0) + ",#" + std::to_string (i1) + ",#" + std::to_string (i2) + " (base-" + std::to_string (bv) + " digits, offset -" + std::to_string (kv) + ") p = #" + std::to_string (ip) + " (base-" + std::to_string (bp) + ", offset -" + std::to_string (kp) + ")",
                                         "a vertex at squared distance " + std::to_string (m) + " (squared distances " + std::to_string (d[0]) + "," + std::to_string (d[1]) + "," + std::to_string (d[2]) + ")", "another point");
                    ((d[0] == m) + (d[1] == m) + (d[2] == m) > 1 ? k_t : k_u)++;
                    if (d[0] == m) ++k_w[0]; else if (d[1] == m) ++k_w[1]; else ++k_w[2];
                    ++k_c;
                }
        }
        cases += k_c; ties += k_t; uniq += k_u; first += k_w[0]; second += k_w[1]; third += k_w[2];
    });
    R ().add ("states", cases); R ().add ("evaluations", cases); R ().add ("transitions", cases);
    R ().cls (std::string ("closestVertex.") + vn + ".tie", ties); R ().cls (std::string ("closestVertex.") + vn + ".unique-minimum", uniq);
    R ().cls (std::string ("closestVertex.") + vn + ".only-v1-minimal", second); R ().cls (std::string ("closestVertex.") + vn + ".only-v2-minimal", third);
    if (ok) R ().stage_done ("all " + std::to_string (NV) + "^3 vertex triples of L(" + std::to_string (kv) + ")^" + std::to_string (n) + " x all " + std::to_string (NP) + " points of L(" + std::to_string (kp) + ")^" + std::to_string (n) + ", exact integer oracle");
    else R ().stage_partial (std::to_string (cases.load ()) + " cases");
}
void run_cvertex ()
{
    cvertex<V2f> (2, 3, "V2f"); cvertex<V2d> (2, 3, "V2d"); cvertex<V2i> (2, 3, "V2i");
    cvertex<V3i> (1, 2, "V3i");
    cvertex<V4f> (1, 1, "V4f"); cvertex<V4d> (1, 1, "V4d"); cvertex<V4i> (1, 1, "V4i");
}
} // namespace c15
