// C12 — 3-D (Matrix44) scale/shear/rotation/translation factorisations.
//
// M = S*H*R*T is composed by the harness in long double from the enumerated factors and rounded once
// to T. Tolerances (DESIGN C12, fixed before the first run):
//   recomposition  |S'H'R'(T') - M|  <= 16 * cond * eps * max|M_3x3|,  cond = max|s|/min|s| * (1 + sum|h|)
//       (error analysis: every row is processed relative to its own length, so row i of the recomposition
//        is off by <= ~5 eps |s_i| (1+sum|h|); max|M| >= max|s|/sqrt3; the cond factor is the DESIGN's margin)
//   residual rotation  |R R^T - I| <= 16 eps, |det R - 1| <= 48 eps (= 3 * 16 eps from the previous line)
//       (the rows are orthogonalised by modified Gram-Schmidt, which loses orthogonality in proportion to
//        1/sin(angle between a row and the span of the earlier ones) = sqrt(1 + h_i1^2 + h_i2^2) <= 3.3 on this
//        alphabet, at <= 4 eps per projection step: 13.2 eps < 16 eps; the flat bound is the DESIGN's and is valid
//        for shears of this size, not for arbitrarily large ones)
//   sansScaling/removeScaling = H*R*T, sansScalingAndShear/removeScalingAndShear = R*T with the unique
//       factors (all scales of one sign, see c12.hpp canonical()):  16 * cond * eps * max(1,|H R|);
//       translation entries are copied through one multiply-add each: 16 eps max|t|
//   computeRSMatrix = S_x * R_y * T_A (documented mix): 16 * max(cond_A,cond_B) * eps * max|s_x|
//   a zero scale (an exactly zero row) must be reported: false with exc=false (outputs untouched as the
//   header comment documents), std::domain_error with exc=true.
//   singular linear parts without a zero row: see Shrt3d::singular; extractSHRT's rOrder / Euler& in the 18 repeated-axis
//   and rotating-frame orders: see section G of Shrt3d::regular (tolerance = factor bound + 48 eps max|s| (1+sum|h|)).
#pragma once
#include "c12.hpp"
#include "c11.hpp" // c11::ORDERS: the 24 Order values taken from the real header, with their names

namespace c12 {

struct ShrtTally
{
    long long cases = 0, transitions = 0, reflections = 0, graded = 0, sheared = 0, lock = 0, generic = 0;
    long long degenerate = 0, tiny = 0, tiny_reported = 0, rs = 0, rorder = 0, euler_overload = 0;
    long long order_cls[4] = {0, 0, 0, 0}; // extractSHRT rOrder / Euler& calls by order class
    long long sing_exact = 0, sing_residue = 0, sing_residue_reported = 0, sing_residue_decomposed = 0;
    double    w_recompose = 0, w_ortho = 0, w_sans = 0, w_rs = 0;
    void merge (const ShrtTally& o)
    {
        cases += o.cases; transitions += o.transitions; reflections += o.reflections; graded += o.graded; sheared += o.sheared; lock += o.lock;
        generic += o.generic; degenerate += o.degenerate; tiny += o.tiny; tiny_reported += o.tiny_reported; rs += o.rs; rorder += o.rorder;
        euler_overload += o.euler_overload;
        for (int i = 0; i < 4; ++i) order_cls[i] += o.order_cls[i];
        sing_exact += o.sing_exact; sing_residue += o.sing_residue; sing_residue_reported += o.sing_residue_reported; sing_residue_decomposed += o.sing_residue_decomposed;
        w_recompose = std::max (w_recompose, o.w_recompose); w_ortho = std::max (w_ortho, o.w_ortho); w_sans = std::max (w_sans, o.w_sans);
        w_rs = std::max (w_rs, o.w_rs);
    }
};

static const int STATIC6[6][3] = {{0, 1, 2}, {0, 2, 1}, {1, 2, 0}, {1, 0, 2}, {2, 0, 1}, {2, 1, 0}};
static const char* const STATIC6_NAME[6] = {"XYZ", "XZY", "YZX", "YXZ", "ZXY", "ZYX"};

template <class T> struct Shrt3d
{
    typedef Matrix44<T> M44;
    typedef Vec3<T>     V3;
    const LD            eps = ex::eps<T> ();
    using R_            = vf::Report;
    // site suffix naming the input class of the stage that uses this checker (empty for the original stages)
    std::string sfx;
    std::string st (const std::string& site) const { return sfx.empty () ? site : site + sfx; }

    static LD recomposeErr (const V3& s, const V3& h, const M3& Rl, const M3& Mlin)
    {
        LD sl[3] = {s.x, s.y, s.z}, hl[3] = {h.x, h.y, h.z};
        return ref::maxdiff (ref::mul (ref::mul (diagMat (sl), shearMat (hl)), Rl), Mlin);
    }
    static bool frameOK (const M44& m) { return m[0][3] == 0 && m[1][3] == 0 && m[2][3] == 0 && m[3][3] == 1; }

    // got vs [lin 0; t 1]
    template <class InF> void checkAffine (const std::string& site, InF&& in, const M44& got, const M3& lin, const M44& M, LD tolL, LD tolT) const
    {
        LD dl = ref::maxdiff (ref::fromLib<3> (got), lin);
        if (!(dl <= tolL)) vf::R ().fail (st (site + ".linear"), in (), "within " + ref::fmtE (tolL), ref::fmtE (dl) + " off; got " + ref::fmtLib<4> (got));
        LD dt = 0;
        for (int i = 0; i < 3; ++i) { LD d = fabsl ((LD) got[3][i] - (LD) M[3][i]); dt = (d == d) ? std::max (dt, d) : INFINITY; }
        if (!(dt <= tolT)) vf::R ().fail (st (site + ".translation"), in (), vf::Msg () << "(" << M[3][0] << " " << M[3][1] << " " << M[3][2] << ")", vf::Msg () << "(" << got[3][0] << " " << got[3][1] << " " << got[3][2] << ")");
        if (!frameOK (got)) vf::R ().fail (st (site + ".affine-frame"), in (), "last column (0,0,0,1)", ref::fmtLib<4> (got));
    }

    // ---- a matrix with non-zero scales. mayReport: tiny (1e-30) scales may legitimately be reported instead
    // gridAbs (stage shrt3d-uniformly-scaled only, otherwise 0): absolute rounding error of the subnormal grid. Every bound
    // below is derived from "each entry of M, and each returned scale, carries a rounding error <= eps/2 relative", i.e.
    // <= eps/2 * max|M| absolute. When the entries of M (and therefore the returned scales s = normalised length * maxVal)
    // are subnormal, each of them is instead rounded to a multiple of denorm_min: absolute error <= eps/2 * max|M| +
    // denorm_min/2. The same derivations therefore hold with  eps * max|M|  replaced by  eps * max|M| + denorm_min
    // (relative form: eps + denorm_min / max|M|); rotation, shear and the orthonormality of the residual rotation are
    // computed from the rows divided by their largest entry (O(1), normal numbers) and keep their bounds.
    template <class TagF> void regular (const Shrt3& f, TagF&& tagf, ShrtTally& t, bool extras, bool mayReport = false, LD gridAbs = 0) const
    {
        auto&       Rp   = vf::R ();
        const M3    linL = linOf (f);
        const M44   M    = toLib44<T> (affine (linL, f.t));
        const M3    Mlin = ref::fromLib<3> (M);
        const Shrt3 c    = canonical (f);
        const LD    cond = cond3 (f), nrm = ref::maxabs (Mlin), tol = 16 * cond * eps * nrm + 16 * cond * gridAbs;
        auto in = [&] () { return "T=" + std::string (ref::tname<T> ()) + " " + tagf () + " M=" + ref::fmtLib<4> (M); };
        ++t.cases;

        // A. extractSHRT (XYZ)
        V3   s, h, r, tr;
        bool ok = false;
        try { ok = extractSHRT (M, s, h, r, tr, false); }
        catch (...) { Rp.fail (st ("extractSHRT.exc-false-throws"), in ()); return; }
        if (!ok)
        {
            if (mayReport)
            {
                ++t.tiny_reported;
                bool thrown = false;
                try { V3 a, b, cc, d; extractSHRT (M, a, b, cc, d, true); } catch (const std::domain_error&) { thrown = true; } catch (...) {}
                if (!thrown) Rp.fail (st ("extractSHRT.exc-true-vs-exc-false"), in (), "std::domain_error (exc=false returned false)", "no domain_error");
                return;
            }
            Rp.fail (st ("extractSHRT.regular-matrix-reported-degenerate"), in (), "true", "false");
            return;
        }
        {
            LD e = recomposeErr (s, h, ref::compose (0, 1, 2, r.x, r.y, r.z), Mlin);
            t.w_recompose = std::max (t.w_recompose, (double) (e / (cond * eps * nrm)));
            if (!(e <= tol))
                Rp.fail (st ("extractSHRT.recompose"), in (), "S*H*R(xyz) within 16*cond*eps*|M| = " + ref::fmtE (tol), ref::fmtE (e) + " off; s=" + fmtVec (s) + " h=" + fmtVec (h) + " r=" + fmtVec (r));
            if (!(ex::same (tr.x, M[3][0]) && ex::same (tr.y, M[3][1]) && ex::same (tr.z, M[3][2])))
                Rp.fail (st ("extractSHRT.translation"), in (), vf::Msg () << "(" << M[3][0] << " " << M[3][1] << " " << M[3][2] << ")", fmtVec (tr));
        }
        try
        {
            V3 s1, h1, r1, t1;
            bool ok1 = extractSHRT (M, s1, h1, r1, t1); // exc defaults to true
            if (!(ok1 && sameVec (s1, s) && sameVec (h1, h) && sameVec (r1, r) && sameVec (t1, tr))) Rp.fail (st ("extractSHRT.exc-true-vs-exc-false"), in ());
        }
        catch (...) { Rp.fail (st ("extractSHRT.throws-on-regular-matrix"), in ()); }
        t.transitions += 2;

        // B. extractAndRemoveScalingAndShear: structured factors
        M44  W = M;
        V3   s2, h2;
        bool ok2 = false;
        try { ok2 = extractAndRemoveScalingAndShear (W, s2, h2, false); } catch (...) {}
        if (!ok2) { Rp.fail (st ("extractAndRemoveScalingAndShear.regular-matrix-reported-degenerate"), in (), "true", "false/throw"); return; }
        const M3 Rres = ref::fromLib<3> (W);
        {
            LD oe = ref::orthoErr (Rres), dt = ref::det (Rres);
            t.w_ortho = std::max (t.w_ortho, (double) (oe / eps));
            if (!(oe <= 16 * eps)) Rp.fail (st ("extractAndRemoveScalingAndShear.rotation-orthonormal"), in (), "<= 16 eps", ref::fmtE (oe / eps) + " eps; " + ref::fmtLib<3> (W));
            if (!(fabsl (dt - 1) <= 48 * eps)) Rp.fail (st ("extractAndRemoveScalingAndShear.rotation-det+1"), in (), "det = +1 within 48 eps", ref::fmtE (dt));
            LD e = recomposeErr (s2, h2, Rres, Mlin);
            t.w_recompose = std::max (t.w_recompose, (double) (e / (cond * eps * nrm)));
            if (!(e <= tol))
                Rp.fail (st ("extractAndRemoveScalingAndShear.recompose"), in (), "S*H*R within " + ref::fmtE (tol), ref::fmtE (e) + " off; s=" + fmtVec (s2) + " h=" + fmtVec (h2) + " R=" + ref::fmtLib<3> (W));
            bool keep = frameOK (W);
            for (int i = 0; i < 3; ++i) keep = keep && ex::same (W[3][i], M[3][i]);
            if (!keep) Rp.fail (st ("extractAndRemoveScalingAndShear.keeps-translation"), in (), "row 3 / column 3 untouched", ref::fmtLib<4> (W));
        }
        t.transitions += 4;

        // C. the read-only wrappers (same code path: bitwise equal, otherwise judged on their own)
        {
            V3 s3, s4, h4;
            bool o3 = false, o4 = false;
            try { o3 = extractScaling (M, s3, false); o4 = extractScalingAndShear (M, s4, h4, false); } catch (...) {}
            if (!o3) Rp.fail (st ("extractScaling.regular-matrix-reported-degenerate"), in ());
            else if (!sameVec (s3, s2)) { LD e = recomposeErr (s3, h2, Rres, Mlin); if (!(e <= tol)) Rp.fail (st ("extractScaling.recompose"), in (), "within " + ref::fmtE (tol), ref::fmtE (e) + " off; s=" + fmtVec (s3)); }
            if (!o4) Rp.fail (st ("extractScalingAndShear.regular-matrix-reported-degenerate"), in ());
            else if (!(sameVec (s4, s2) && sameVec (h4, h2))) { LD e = recomposeErr (s4, h4, Rres, Mlin); if (!(e <= tol)) Rp.fail (st ("extractScalingAndShear.recompose"), in (), "within " + ref::fmtE (tol), ref::fmtE (e) + " off; s=" + fmtVec (s4) + " h=" + fmtVec (h4)); }
            t.transitions += 2;
        }

        // D. sansScaling / removeScaling = H*R*T
        {
            const M3 HR   = ref::mul (shearMat (c.h), c.R);
            const LD tolH = 16 * cond * eps * std::max ((LD) 1, ref::maxabs (HR)) + (gridAbs > 0 ? 16 * cond * (gridAbs / nrm) * std::max ((LD) 1, ref::maxabs (HR)) : (LD) 0);
            LD       tm   = 0;
            for (int i = 0; i < 3; ++i) tm = std::max (tm, fabsl ((LD) M[3][i]));
            const LD tolT = 16 * eps * tm;
            try
            {
                M44 a = sansScaling (M, false);
                t.w_sans = std::max (t.w_sans, (double) (ref::maxdiff (ref::fromLib<3> (a), HR) / (cond * eps * std::max ((LD) 1, ref::maxabs (HR)))));
                checkAffine ("sansScaling(Matrix44)", in, a, HR, M, tolH, tolT);
                M44 b = M;
                if (!removeScaling (b, false)) Rp.fail (st ("removeScaling(Matrix44).regular-matrix-reported-degenerate"), in ());
                else if (!sameMat<4> (a, b)) checkAffine ("removeScaling(Matrix44)", in, b, HR, M, tolH, tolT);
                M44 a1 = sansScaling (M); // exc = true
                if (!sameMat<4> (a, a1)) checkAffine ("sansScaling(Matrix44)", in, a1, HR, M, tolH, tolT);
            }
            catch (...) { Rp.fail (st ("sansScaling(Matrix44).throws-on-regular-matrix"), in ()); }
            t.transitions += 3;
        }

        // E. sansScalingAndShear (both overloads) / removeScalingAndShear = R*T
        {
            auto judge = [&] (const char* site, const M44& q) {
                if (sameMat<4> (q, W)) return; // identical to the matrix already judged under B
                M3 Rq = ref::fromLib<3> (q);
                LD oe = ref::orthoErr (Rq), e = recomposeErr (s2, h2, Rq, Mlin);
                if (!(oe <= 16 * eps) || !(fabsl (ref::det (Rq) - 1) <= 48 * eps) || !(e <= tol))
                    Rp.fail (st (std::string (site) + ".rotation"), in (), "the residual rotation", ref::fmtLib<4> (q));
                bool keep = frameOK (q);
                for (int i = 0; i < 3; ++i) keep = keep && ex::same (q[3][i], M[3][i]);
                if (!keep) Rp.fail (st (std::string (site) + ".translation"), in (), "row 3 of the input", ref::fmtLib<4> (q));
            };
            try
            {
                judge ("sansScalingAndShear(Matrix44)", sansScalingAndShear (M, false));
                judge ("sansScalingAndShear(Matrix44)", sansScalingAndShear (M));
                M44 res = M, other;
                other[0][0] = 7; other[3][1] = -2; // documented: `mat` is only the fallback value
                sansScalingAndShear (res, other, false);
                judge ("sansScalingAndShear(result,mat)", res);
                M44 b = M;
                if (!removeScalingAndShear (b, false)) Rp.fail (st ("removeScalingAndShear(Matrix44).regular-matrix-reported-degenerate"), in ());
                else judge ("removeScalingAndShear(Matrix44)", b);
            }
            catch (...) { Rp.fail (st ("sansScalingAndShear(Matrix44).throws-on-regular-matrix"), in ()); }
            t.transitions += 4;
        }

        if (!extras) return;
        // F. rotation order argument: XYZ-layout angle vector of the six fixed-axis non-repeated orders
        for (int o = 0; o < 6; ++o)
        {
            typedef Euler<T> E;
            static const typename E::Order ORD[6] = {E::XYZ, E::XZY, E::YZX, E::YXZ, E::ZXY, E::ZYX};
            const int* ax = STATIC6[o];
            V3 so, ho, ro, to;
            bool oko = false;
            try { oko = extractSHRT (M, so, ho, ro, to, false, ORD[o]); } catch (...) {}
            ++t.rorder;
            if (!oko) { Rp.fail (st ("extractSHRT(rOrder).regular-matrix-reported-degenerate"), in () + " rOrder=" + STATIC6_NAME[o]); continue; }
            LD e = recomposeErr (so, ho, ref::compose (ax[0], ax[1], ax[2], ro[ax[0]], ro[ax[1]], ro[ax[2]]), Mlin);
            if (!(e <= tol)) Rp.fail (st ("extractSHRT(rOrder).recompose"), in () + " rOrder=" + STATIC6_NAME[o], "S*H*R(order, angle about axis a = r[a]) within " + ref::fmtE (tol), ref::fmtE (e) + " off; r=" + fmtVec (ro));
            // Euler& overload: the Euler handed in must come back representing the rotation
            E er (ORD[o]);
            V3 se, he, te;
            bool oke = false;
            try { oke = extractSHRT (M, se, he, er, te, false); } catch (...) {}
            ++t.euler_overload;
            if (!oke) { Rp.fail (st ("extractSHRT(Euler&).regular-matrix-reported-degenerate"), in () + " order=" + STATIC6_NAME[o]); continue; }
            LD ee = recomposeErr (se, he, ref::compose (ax[0], ax[1], ax[2], er.x, er.y, er.z), Mlin);
            if (!(ee <= tol) || er.order () != ORD[o])
            {
                // signature of the known defect: the Euler's ijk slots were filled with the XYZ-layout vector (the
                // slots recompose M when read "angle about axis a = slot a"); any other wrong answer keeps the plain site
                LD ex2 = recomposeErr (se, he, ref::compose (ax[0], ax[1], ax[2], er[ax[0]], er[ax[1]], er[ax[2]]), Mlin);
                bool xyzSlots = er.order () == ORD[o] && ex2 <= tol;
                failThrottled (st (xyzSlots ? "extractSHRT(Euler&).recompose.slots-hold-XYZ-layout-vector" : "extractSHRT(Euler&).recompose"), [&] { return in () + " order=" + STATIC6_NAME[o]; },
                               [&] { return "S*H*R(euler)*T = M within " + ref::fmtE (tol); }, [&] { return ref::fmtE (ee) + " off; euler slots=" + fmtVec ((const V3&) er); });
            }
            t.transitions += 2;
        }
        t.order_cls[0] += 6;
        // G. the other 18 Order values accepted by the rOrder parameter and by the Euler& overload (repeated-axis and
        // rotating-frame orders). The rotation the angles stand for is the harness's own reference (c11_ref.hpp
        // eulerRef: product of elementary rotations decoded from the Order bit-fields), applied to
        //   - the slots of the Euler handed to the Euler& overload, and
        //   - the slots of Euler(r, rOrder, XYZLayout) for the Vec3 overload, whose r is documented only as "the
        //     XYZ-layout vector of that order" (the library constructor is used as the decoder of the layout only; C11
        //     decides that it is the inverse permutation of toXYZVector).
        // Tolerance: the rotation goes through extractEulerXYZ (rebuild <= 16 eps), Euler(XYZ)::toMatrix33 (8 eps),
        // extraction in the new order (16 eps, flat, also at that order's gimbal lock) and the reference's view of those
        // angles (8 eps): |dR| <= 48 eps, which S*H amplifies by at most max|s| (1 + sum|h|); added to the factor bound.
        LD smax = std::max (fabsl (f.s[0]), std::max (fabsl (f.s[1]), fabsl (f.s[2])));
        const LD tolO = tol + 48 * eps * smax * (1 + fabsl (f.h[0]) + fabsl (f.h[1]) + fabsl (f.h[2]));
        for (int o = 0; o < 24; ++o)
        {
            typedef Euler<T> E;
            const ref::OrderInfo& O = c11::ORDERS[o];
            if (O.frameStatic () && !O.repeated ()) continue; // judged under F
            const typename E::Order ord = (typename E::Order) O.value;
            const std::string       oc  = O.cls ();
            ++t.order_cls[(O.frameStatic () ? 0 : 2) + (O.repeated () ? 1 : 0)];
            V3 so, ho, ro, to;
            bool oko = false;
            try { oko = extractSHRT (M, so, ho, ro, to, false, ord); } catch (...) {}
            ++t.rorder;
            if (!oko) Rp.fail (st ("extractSHRT(rOrder).regular-matrix-reported-degenerate"), in () + " rOrder=" + O.name);
            else
            {
                E  dec (ro, ord, E::XYZLayout);
                LD e = recomposeErr (so, ho, ref::eulerRef (O, dec.x, dec.y, dec.z), Mlin);
                if (!(e <= tolO) || !sameVec (to, tr))
                    failThrottled (st ("extractSHRT(rOrder).recompose." + oc + "-order"), [&] { return in () + " rOrder=" + O.name; }, [&] { return "S*H*R(Euler(r,rOrder,XYZLayout))*T = M within " + ref::fmtE (tolO); },
                                   [&] { return ref::fmtE (e) + " off; r=" + fmtVec (ro) + " t=" + fmtVec (to); });
            }
            E  er (ord);
            V3 se, he, te;
            bool oke = false;
            try { oke = extractSHRT (M, se, he, er, te, false); } catch (...) {}
            ++t.euler_overload;
            if (!oke) Rp.fail (st ("extractSHRT(Euler&).regular-matrix-reported-degenerate"), in () + " order=" + O.name);
            else
            {
                LD ee = recomposeErr (se, he, ref::eulerRef (O, er.x, er.y, er.z), Mlin);
                if (!(ee <= tolO) || er.order () != ord || !sameVec (te, tr))
                    failThrottled (st ("extractSHRT(Euler&).recompose." + oc + "-order"), [&] { return in () + " order=" + O.name; }, [&] { return "S*H*R(euler)*T = M within " + ref::fmtE (tolO) + ", order kept"; },
                                   [&] { return ref::fmtE (ee) + " off; euler slots=" + fmtVec ((const V3&) er) + " order=" + c11::hex4 ((int) er.order ()); });
            }
            t.transitions += 2;
        }
    }

    // ---- exactly zero scale on at least one axis: must be reported, nothing decomposed
    template <class F> void expectThrow (const char* site, const std::string& in, F&& fn) const
    {
        try { fn (); vf::R ().fail (site, in, "std::domain_error", "returned normally"); }
        catch (const std::domain_error&) {}
        catch (...) { vf::R ().fail (site, in, "std::domain_error", "a different exception"); }
    }
    void degenerate (const Shrt3& f, const std::string& tag, const M44& regularM, ShrtTally& t) const
    {
        auto&     Rp = vf::R ();
        const M44 M  = toLib44<T> (affine (linOf (f), f.t));
        std::string in = "T=" + std::string (ref::tname<T> ()) + " " + tag + " M=" + ref::fmtLib<4> (M);
        ++t.cases; ++t.degenerate;
        V3  s (9, 9, 9), h (9, 9, 9), r (9, 9, 9), tr (9, 9, 9);
        M44 w;
        try
        {
            if (extractSHRT (M, s, h, r, tr, false)) Rp.fail ("extractSHRT.zero-scale-not-reported", in, "false", "true; s=" + fmtVec (s));
            if (extractScaling (M, s, false)) Rp.fail ("extractScaling.zero-scale-not-reported", in, "false", "true");
            if (extractScalingAndShear (M, s, h, false)) Rp.fail ("extractScalingAndShear.zero-scale-not-reported", in, "false", "true");
            w = M;
            if (extractAndRemoveScalingAndShear (w, s, h, false) || !sameMat<4> (w, M)) Rp.fail ("extractAndRemoveScalingAndShear.zero-scale-not-reported", in, "false, m unchanged", ref::fmtLib<4> (w));
            w = sansScaling (M, false);
            if (!sameMat<4> (w, M)) Rp.fail ("sansScaling(Matrix44).zero-scale-not-reported", in, "returns m", ref::fmtLib<4> (w));
            w = M;
            if (removeScaling (w, false) || !sameMat<4> (w, M)) Rp.fail ("removeScaling(Matrix44).zero-scale-not-reported", in, "false, m unchanged", ref::fmtLib<4> (w));
            w = sansScalingAndShear (M, false);
            if (!sameMat<4> (w, M)) Rp.fail ("sansScalingAndShear(Matrix44).zero-scale-not-reported", in, "returns m", ref::fmtLib<4> (w));
            w = M;
            sansScalingAndShear (w, regularM, false);
            if (!sameMat<4> (w, regularM)) Rp.fail ("sansScalingAndShear(result,mat).zero-scale-not-reported", in, "result = mat", ref::fmtLib<4> (w));
            w = M;
            if (removeScalingAndShear (w, false) || !sameMat<4> (w, M)) Rp.fail ("removeScalingAndShear(Matrix44).zero-scale-not-reported", in, "false, m unchanged", ref::fmtLib<4> (w));
        }
        catch (...) { Rp.fail ("zero-scale.exc-false-throws", in); }
        expectThrow ("extractSHRT.zero-scale-not-reported", in, [&] { extractSHRT (M, s, h, r, tr, true); });
        expectThrow ("extractScaling.zero-scale-not-reported", in, [&] { extractScaling (M, s); });
        expectThrow ("extractScalingAndShear.zero-scale-not-reported", in, [&] { extractScalingAndShear (M, s, h); });
        expectThrow ("extractAndRemoveScalingAndShear.zero-scale-not-reported", in, [&] { w = M; extractAndRemoveScalingAndShear (w, s, h); });
        expectThrow ("sansScaling(Matrix44).zero-scale-not-reported", in, [&] { sansScaling (M); });
        expectThrow ("removeScaling(Matrix44).zero-scale-not-reported", in, [&] { w = M; removeScaling (w); });
        expectThrow ("sansScalingAndShear(Matrix44).zero-scale-not-reported", in, [&] { sansScalingAndShear (M); });
        expectThrow ("sansScalingAndShear(result,mat).zero-scale-not-reported", in, [&] { w = M; sansScalingAndShear (w, regularM); });
        expectThrow ("removeScalingAndShear(Matrix44).zero-scale-not-reported", in, [&] { w = M; removeScalingAndShear (w); });
        expectThrow ("computeRSMatrix.degenerate-A-not-reported", in, [&] { computeRSMatrix (true, true, M, regularM); });
        expectThrow ("computeRSMatrix.degenerate-B-not-reported", in, [&] { computeRSMatrix (false, false, regularM, M); });
        // "degenerate input is reported ... rather than decomposed": A and B are both inputs of computeRSMatrix, so a
        // degenerate one is reported under every flag combination, also the one in which its factors end up unused
        // (seed C12-z2 skipped the factorisation of B when both of A's factors are kept).
        for (int fl = 0; fl < 4; ++fl)
        {
            const bool kr = fl & 1, ks = fl & 2;
            expectThrow ("computeRSMatrix.degenerate-A-not-reported.every-flag-combination", in, [&] { computeRSMatrix (kr, ks, M, regularM); });
            expectThrow ("computeRSMatrix.degenerate-B-not-reported.every-flag-combination", in, [&] { computeRSMatrix (kr, ks, regularM, M); });
        }
        t.transitions += 28;
    }

    // ---- exactly singular linear part WITHOUT a zero row: integer rows over {-1,0,1,2}, exact rank < 3.
    // Such a matrix has no S*H*R factorisation at all (a dependent row would need an infinite shear). What the
    // statement and the header promise for it:
    //  (1) the answer "degenerate or not" belongs to the matrix: the ten entry points agree with each other, and exc = true
    //      throws std::domain_error exactly when exc = false reports (the header documents exc as selecting the style only);
    //  (2) when reported with exc = false the documented fallbacks hold (m unchanged / m returned / result = mat);
    //  (3) when the scale that the documented technique (Gram-Schmidt on the rows in order, after an exact division by the
    //      largest entry, here 1 or 2) extracts is EXACTLY zero with no rounding anywhere, the guard must fire. That is
    //      provable from the input when row 0 lies along a coordinate axis a and either row 1 does too, or the remainder of
    //      row 1 lies along a second axis c and row 2 has no component on the third axis: every length is |integer|/maxVal,
    //      every normalised row is +-e_axis, every dot product and subtraction is exact, the dependent row cancels to
    //      (0,0,0). Judged under "<entry point>.exactly-zero-scale-after-orthogonalisation-not-reported".
    // For every other singular matrix the cancellation leaves a rounding residue (a scale of a few eps and a shear of 1/eps):
    // the library documents its guard as "scl is small enough that the operation would overflow", the residue is not, and
    // a one-ulp perturbation of the input makes the same matrix a regular "nearly singular" one, which the statement
    // excludes. Those are counted (reported / decomposed) and only held to (1) and (2), not to "must be reported".
    static bool exactZeroScale (const int d[9])
    {
        int a = -1, nz = 0;
        for (int j = 0; j < 3; ++j) if (d[j]) { a = j; ++nz; }
        if (nz != 1) return false;
        int c = -1, nz1 = 0;
        for (int j = 0; j < 3; ++j) if (j != a && d[3 + j]) { c = j; ++nz1; }
        if (nz1 == 0) return true;  // row 1 parallel to row 0: scale.y is exactly 0
        if (nz1 == 2) return false; // |row 1 remainder| is an inexact square root
        int b = 3 - a - c;
        return d[6 + b] == 0;       // row 2 inside the (a,c) plane: scale.z is exactly 0
    }
    void singular (const int d[9], const M44& regularM, ShrtTally& t) const
    {
        auto& Rp = vf::R ();
        M44   M;
        for (int i = 0; i < 3; ++i) for (int j = 0; j < 3; ++j) M[i][j] = (T) d[3 * i + j];
        M[3][0] = 3; M[3][1] = 5; M[3][2] = -7;
        const bool  exact = exactZeroScale (d);
        std::string in    = "T=" + std::string (ref::tname<T> ()) + " M=" + ref::fmtLib<4> (M);
        ++t.cases;
        (exact ? t.sing_exact : t.sing_residue)++;
        static const char* const FN[9] = {"extractSHRT", "extractScaling", "extractScalingAndShear", "extractAndRemoveScalingAndShear", "sansScaling(Matrix44)",
                                          "removeScaling(Matrix44)", "sansScalingAndShear(Matrix44)", "sansScalingAndShear(result,mat)", "removeScalingAndShear(Matrix44)"};
        bool rep[9], untouched[9];
        for (int i = 0; i < 9; ++i) untouched[i] = true;
        V3  s, h, r, tr;
        M44 w;
        try
        {
            rep[0] = !extractSHRT (M, s, h, r, tr, false);
            rep[1] = !extractScaling (M, s, false);
            rep[2] = !extractScalingAndShear (M, s, h, false);
            w = M; rep[3] = !extractAndRemoveScalingAndShear (w, s, h, false); untouched[3] = sameMat<4> (w, M);
            // the returned H*R*T / R*T has a linear part of determinant 1 and can never equal the singular input
            rep[4] = sameMat<4> (sansScaling (M, false), M);
            w = M; rep[5] = !removeScaling (w, false); untouched[5] = sameMat<4> (w, M);
            rep[6] = sameMat<4> (sansScalingAndShear (M, false), M);
            w = M; sansScalingAndShear (w, regularM, false); rep[7] = sameMat<4> (w, regularM);
            w = M; rep[8] = !removeScalingAndShear (w, false); untouched[8] = sameMat<4> (w, M);
        }
        catch (...) { Rp.fail ("singular-matrix.exc-false-throws", in); return; }
        bool agree = true;
        for (int i = 1; i < 9; ++i) agree = agree && rep[i] == rep[0];
        if (!agree)
        {
            std::string g;
            for (int i = 0; i < 9; ++i) g += std::string (i ? " " : "") + FN[i] + "=" + (rep[i] ? "reported" : "decomposed");
            Rp.fail ("singular-matrix.entry-points-disagree", in, "one answer for one matrix", g);
        }
        for (int i = 0; i < 9; ++i)
        {
            if (rep[i] && !untouched[i]) Rp.fail (std::string (FN[i]) + ".singular-matrix.reported-but-matrix-modified", in, "false, m unchanged");
            if (exact && !rep[i]) Rp.fail (std::string (FN[i]) + ".exactly-zero-scale-after-orthogonalisation-not-reported", in, "reported (exc=false)", "decomposed; s=" + fmtVec (s) + " h=" + fmtVec (h));
        }
        // exc = true: std::domain_error exactly when exc = false reported (computeRSMatrix always behaves as exc = true)
        auto thrown = [&] (int i) -> int {
            try
            {
                switch (i)
                {
                    case 0: extractSHRT (M, s, h, r, tr, true); break;
                    case 1: extractScaling (M, s); break;
                    case 2: extractScalingAndShear (M, s, h); break;
                    case 3: w = M; extractAndRemoveScalingAndShear (w, s, h); break;
                    case 4: sansScaling (M); break;
                    case 5: w = M; removeScaling (w); break;
                    case 6: sansScalingAndShear (M); break;
                    case 7: w = M; sansScalingAndShear (w, regularM); break;
                    case 8: w = M; removeScalingAndShear (w); break;
                    case 9: computeRSMatrix (true, true, M, regularM); break;
                    default: computeRSMatrix (false, false, regularM, M); break;
                }
                return 0;
            }
            catch (const std::domain_error&) { return 1; }
            catch (...) { return 2; }
        };
        for (int i = 0; i < 11; ++i)
        {
            int         th = thrown (i);
            const char* fn = i < 9 ? FN[i] : (i == 9 ? "computeRSMatrix(A)" : "computeRSMatrix(B)");
            bool        rp = rep[i < 9 ? i : 0];
            if (th == 2) Rp.fail (std::string (fn) + ".singular-matrix.exc-true-vs-exc-false", in, "std::domain_error or a normal return", "a different exception");
            else if ((th == 1) != rp) Rp.fail (std::string (fn) + ".singular-matrix.exc-true-vs-exc-false", in, rp ? "std::domain_error (exc=false reported)" : "normal return (exc=false decomposed)", th ? "std::domain_error" : "returned normally");
            if (exact && th != 1) Rp.fail (std::string (fn) + ".exactly-zero-scale-after-orthogonalisation-not-reported", in, "std::domain_error", "returned normally");
        }
        if (!exact) (rep[0] ? t.sing_residue_reported : t.sing_residue_decomposed)++;
        t.transitions += 20;
    }

    // ---- computeRSMatrix(keepRotateA, keepScaleA, A, B) = S_x * R_y * T_A
    // mayReport / gridAbs: see regular(); computeRSMatrix reports by std::domain_error only
    template <class TagF> void rs (const Shrt3& fa, const Shrt3& fb, TagF&& tagf, ShrtTally& t, bool mayReport = false, LD gridAbs = 0) const
    {
        const M44   A = toLib44<T> (affine (linOf (fa), fa.t)), B = toLib44<T> (affine (linOf (fb), fb.t));
        const Shrt3 ca = canonical (fa), cb = canonical (fb);
        const LD    cnd = std::max (cond3 (fa), cond3 (fb));
        for (int flags = 0; flags < 4; ++flags)
        {
            bool keepR = flags & 1, keepS = flags & 2;
            const Shrt3& cs = keepS ? ca : cb;
            const Shrt3& cr = keepR ? ca : cb;
            M3 want = ref::mul (diagMat (cs.s), cr.R);
            LD smax = std::max (fabsl (cs.s[0]), std::max (fabsl (cs.s[1]), fabsl (cs.s[2])));
            LD tm = 0;
            for (int i = 0; i < 3; ++i) tm = std::max (tm, fabsl ((LD) A[3][i]));
            auto in = [&] () { return "T=" + std::string (ref::tname<T> ()) + " keepRotateA=" + (keepR ? "1" : "0") + " keepScaleA=" + (keepS ? "1" : "0") + " " + tagf () + " A=" + ref::fmtLib<4> (A) + " B=" + ref::fmtLib<4> (B); };
            ++t.rs;
            try
            {
                M44 g = computeRSMatrix (keepR, keepS, A, B);
                t.w_rs = std::max (t.w_rs, (double) (ref::maxdiff (ref::fromLib<3> (g), want) / (cnd * eps * smax)));
                // gridAbs > 0: the entries of the scaled operand carry an absolute error of denorm_min/2, i.e. gridAbs/max|entry| relative to
                // its largest entry (instead of eps), which the rotation taken from it inherits; the product S*R is rounded to the same grid
                const LD grid = gridAbs > 0 ? 16 * cnd * (gridAbs / std::min (ref::maxabs (ref::fromLib<3> (A)), ref::maxabs (ref::fromLib<3> (B)))) * smax + 16 * cnd * gridAbs : (LD) 0;
                checkAffine ("computeRSMatrix", in, g, want, A, 16 * cnd * eps * smax + grid, 16 * eps * tm);
            }
            catch (const std::domain_error&) { if (mayReport) ++t.tiny_reported; else vf::R ().fail (st ("computeRSMatrix.throws-on-regular-matrix"), in ()); }
            catch (...) { vf::R ().fail (st ("computeRSMatrix.throws-on-regular-matrix"), in ()); }
        }
        t.transitions += 4;
    }
};

// ---- alphabets ---------------------------------------------------------------------------------------
static const LD SCALES[8] = {1, -1, 3, -3, 0.5L, -0.25L, 0.015625L /*2^-6*/, -0.000244140625L /*-2^-12*/};
static const LD GENERIC_H[2][3] = {{0.375L, -1.25L, 2.5L}, {-3, 0.5L, 1.75L}};
static const LD TRANS[3][3] = {{3, 5, -7}, {0, 0, 0}, {-2, 0, 1}};

inline void shearOf (int hi, LD h[3])
{
    if (hi < 27) { int d[3]; ex::decode ((uint64_t) hi, 3, 3, d, -1); for (int i = 0; i < 3; ++i) h[i] = d[i]; }
    else for (int i = 0; i < 3; ++i) h[i] = GENERIC_H[hi - 27][i];
}

// part 0: the cheap stages (zero / tiny scales, computeRSMatrix); part 1: the big factor sweep (run last, so that a
// deadline cut on a loaded machine costs a tail of the sweep and not whole stages)
template <class T> inline void run_shrt3d (int part)
{
    using vf::R;
    const std::string tn = ref::tname<T> ();
    Shrt3d<T>         chk;
    std::mutex        mu;

    // rotation table: fixed-axis X,Y,Z product of (k*pi/6) angles
    std::vector<int> K;
    if (R ().thorough ()) K = {-11, -8, -5, -3, -2, 0, 1, 3, 4, 6, 9};
    else K = {-5, -2, 0, 3, 6};
    const int       nk = (int) K.size (), nr = nk * nk * nk, nt = R ().thorough () ? 2 : 1;
    std::vector<M3> Rtab (nr);
    for (int i = 0; i < nr; ++i)
    {
        int d[3];
        ex::decode ((uint64_t) i, (unsigned) nk, 3, d);
        Rtab[i] = ref::compose (0, 1, 2, K[d[0]] * ref::PI_LD / 6, K[d[1]] * ref::PI_LD / 6, K[d[2]] * ref::PI_LD / 6);
    }
    auto rtag = [&] (int ri) { int d[3]; ex::decode ((uint64_t) ri, (unsigned) nk, 3, d); return "r=(" + std::to_string (K[d[0]]) + "," + std::to_string (K[d[1]]) + "," + std::to_string (K[d[2]]) + ")*pi/6"; };
    auto tagOf = [&] (const Shrt3& f, int ri) {
        return "s=(" + ref::fmtE (f.s[0]) + "," + ref::fmtE (f.s[1]) + "," + ref::fmtE (f.s[2]) + ") h=(" + ref::fmtE (f.h[0]) + "," + ref::fmtE (f.h[1]) + "," + ref::fmtE (f.h[2]) + ") " + rtag (ri) +
               " t=(" + ref::fmtE (f.t[0]) + "," + ref::fmtE (f.t[1]) + "," + ref::fmtE (f.t[2]) + ")";
    };

    if (part == 1 && R ().stage ("shrt3d-" + tn))
    {
        ShrtTally      G;
        const uint64_t N = 512ull * 29 * nr * nt;
        bool ok = vf::parallel_chunks (N, (uint64_t) nr * nt, [&] (uint64_t lo, uint64_t hi, unsigned) {
            ShrtTally l;
            for (uint64_t i = lo; i < hi; ++i)
            {
                uint64_t r = i;
                int ti = (int) (r % nt); r /= nt;
                int ri = (int) (r % nr); r /= nr;
                int hi_ = (int) (r % 29); r /= 29;
                int sd[3];
                ex::decode (r, 8, 3, sd);
                Shrt3 f;
                for (int a = 0; a < 3; ++a) { f.s[a] = SCALES[sd[a]]; f.t[a] = TRANS[ti][a]; }
                shearOf (hi_, f.h);
                f.R = Rtab[ri];
                bool refl = f.s[0] * f.s[1] * f.s[2] < 0, graded = !(fabsl (f.s[0]) == fabsl (f.s[1]) && fabsl (f.s[1]) == fabsl (f.s[2]));
                bool sheared = f.h[0] != 0 || f.h[1] != 0 || f.h[2] != 0;
                int  d[3];
                ex::decode ((uint64_t) ri, (unsigned) nk, 3, d);
                bool lock = ((K[d[1]] % 6) + 6) % 6 == 3;
                if (refl) ++l.reflections;
                if (graded) ++l.graded;
                if (sheared) ++l.sheared;
                if (lock) ++l.lock;
                if (!refl && !graded && !sheared && !lock) ++l.generic;
                // rOrder / Euler& in all 24 orders: on the two generic shears with every rotation, and on each of the 27
                // lattice shears with every 24th rotation (24 is coprime to the table's base, so all three angles vary)
                chk.regular (f, [&] { return tagOf (f, ri); }, l, hi_ >= 27 || ri % 24 == 7);
            }
            std::lock_guard<std::mutex> g (mu);
            G.merge (l);
        });
        R ().add ("states", G.cases); R ().add ("evaluations", G.cases); R ().add ("transitions", G.transitions);
        R ().add ("extractSHRT_rOrder_calls", G.rorder); R ().add ("extractSHRT_Euler_overload_calls", G.euler_overload);
        R ().cls ("shrt3d.extractSHRT-order.static-nonrepeated", G.order_cls[0]);
        R ().cls ("shrt3d.extractSHRT-order.static-repeated", G.order_cls[1]);
        R ().cls ("shrt3d.extractSHRT-order.rotating-nonrepeated", G.order_cls[2]);
        R ().cls ("shrt3d.extractSHRT-order.rotating-repeated", G.order_cls[3]);
        R ().cls ("shrt3d.reflection(odd number of negative scales)", G.reflections);
        R ().cls ("shrt3d.graded-scales", G.graded);
        R ().cls ("shrt3d.sheared", G.sheared);
        R ().cls ("shrt3d.rotation-at-xyz-gimbal-lock", G.lock);
        R ().cls ("shrt3d.plain.generic", G.generic);
        R ().note_max ("worst 3-D recomposition error / (cond eps |M|) (" + tn + ")", G.w_recompose);
        R ().note_max ("worst 3-D residual-rotation orthonormality (eps, " + tn + ")", G.w_ortho);
        R ().note_max ("worst sansScaling(Matrix44) linear error / (cond eps |HR|) (" + tn + ")", G.w_sans);
        std::string b = "8^3 scales x 29 shears (L(1)^3 + 2 generic) x " + std::to_string (nr) + " rotations x " + std::to_string (nt) + " translations, " + tn +
                        "; extractSHRT rOrder / Euler& in all 24 orders on the generic shears and on every 24th rotation of the lattice shears";
        if (ok) R ().stage_done (b); else R ().stage_partial (std::to_string (G.cases) + " of " + b);
    }

    if (part == 0 && R ().stage ("shrt3d-degenerate-" + tn))
    {
        // zero and 1e-30 scales: s in {0, 1e-30, 1, -2}^3 with at least one 0 or 1e-30; shear in {0, generic}; 27 rotations
        ShrtTally G;
        static const LD SP[4] = {0, 1e-30L, 1, -2};
        Shrt3 reg;
        for (int a = 0; a < 3; ++a) { reg.s[a] = 1 + a; reg.h[a] = GENERIC_H[0][a]; reg.t[a] = TRANS[0][a]; }
        reg.R = Rtab[nr / 3 + 1];
        const Matrix44<T> regularM = toLib44<T> (affine (linOf (reg), reg.t));
        for (int si = 0; si < 64; ++si)
        {
            int sd[3];
            ex::decode ((uint64_t) si, 4, 3, sd);
            bool zero = sd[0] == 0 || sd[1] == 0 || sd[2] == 0, tiny = sd[0] == 1 || sd[1] == 1 || sd[2] == 1;
            if (!zero && !tiny) continue;
            for (int hi_ = 0; hi_ < 3; ++hi_)
                for (int ri = 0; ri < nr; ri += std::max (1, nr / 27))
                {
                    Shrt3 f;
                    for (int a = 0; a < 3; ++a) { f.s[a] = SP[sd[a]]; f.t[a] = TRANS[0][a]; f.h[a] = hi_ == 0 ? 0 : GENERIC_H[hi_ - 1][a]; }
                    f.R = Rtab[ri];
                    if (zero) chk.degenerate (f, tagOf (f, ri), regularM, G);
                    else { ++G.tiny; chk.regular (f, [&] { return tagOf (f, ri); }, G, false, true); }
                }
        }
        R ().add ("states", G.cases); R ().add ("evaluations", G.cases); R ().add ("transitions", G.transitions);
        R ().add ("tiny_scale_reported_as_degenerate", G.tiny_reported);
        R ().cls ("shrt3d.zero-scale(guard fires)", G.degenerate);
        R ().cls ("shrt3d.scale-1e-30", G.tiny);
        R ().stage_done ("s in {0,1e-30,1,-2}^3 with a zero or 1e-30 axis x 3 shears x every (n/27)-th rotation, " + tn + ": zero rows reported by all ten entry points in both exc modes");
    }

    if (part == 0 && R ().stage ("shrt3d-singular-" + tn))
    {
        ShrtTally G;
        Shrt3 reg;
        for (int a = 0; a < 3; ++a) { reg.s[a] = 1 + a; reg.h[a] = GENERIC_H[0][a]; reg.t[a] = TRANS[0][a]; }
        reg.R = Rtab[nr / 3 + 1];
        const Matrix44<T> regularM = toLib44<T> (affine (linOf (reg), reg.t));
        bool ok = vf::parallel_chunks (262144, 4096, [&] (uint64_t lo, uint64_t hi, unsigned) {
            ShrtTally l;
            for (uint64_t i = lo; i < hi; ++i)
            {
                int d[9];
                ex::decode (i, 4, 9, d, -1);
                bool zeroRow = false;
                for (int r = 0; r < 3; ++r) zeroRow = zeroRow || (d[3 * r] == 0 && d[3 * r + 1] == 0 && d[3 * r + 2] == 0);
                if (zeroRow) continue; // the zero-scale class of shrt3d-degenerate
                long long a[9];
                for (int k = 0; k < 9; ++k) a[k] = d[k];
                if (ref::rankExact (a, 3, 3) == 3) continue;
                chk.singular (d, regularM, l);
            }
            std::lock_guard<std::mutex> g (mu);
            G.merge (l);
        });
        R ().add ("states", G.cases); R ().add ("evaluations", G.cases); R ().add ("transitions", G.transitions);
        R ().add ("singular_rounding_residue_reported(not judged)", G.sing_residue_reported);
        R ().add ("singular_rounding_residue_decomposed(not judged)", G.sing_residue_decomposed);
        R ().cls ("shrt3d.singular-no-zero-row.exactly-zero-scale-after-orthogonalisation(guard must fire)", G.sing_exact);
        R ().cls ("shrt3d.singular-no-zero-row.rounding-residue-scale(counted, held to consistency only)", G.sing_residue);
        std::string b = "all 3x3 linear parts over {-1,0,1,2} of exact rank < 3 without a zero row, " + tn + ": ten entry points x both exc modes";
        if (ok) R ().stage_done (b); else R ().stage_partial (b);
    }


    if (part == 0 && R ().stage ("shrt3d-uniformly-scaled-" + tn))
    {
        // Well-conditioned matrices (the scale x shear x rotation families of the main sweep) whose linear part is multiplied
        // by an exact power of two 2^k: down until EVERY entry of the upper 3x3 is subnormal (largest entry below 1/max, so
        // that a reciprocal of it overflows although every quotient by it is O(1)), down to tiny normal entries, and up to
        // entries near max/8. The factors of 2^k*M are those of M with the scales multiplied by 2^k (exactly, a power of
        // two): conditioning is unchanged, so the statement ("every affine matrix whose linear part is not nearly singular")
        // promises the same relations - recomposition, orthonormal residual rotation, H*R*T / R*T / S_x*R_y*T_A products -
        // with the bounds of regular() (see the gridAbs comment there for the subnormal grid). The scaled-DOWN levels belong
        // to the statement's "tiny scales" class, which (as for the 1e-30 scales of shrt3d-degenerate) may be reported as
        // degenerate instead of decomposed, but never decomposed wrongly; the scaled-UP level must be decomposed.
        const std::vector<int> KS = sizeof (T) == 4 ? std::vector<int>{-137, -133, -131, -120, -100, 120} : std::vector<int>{-1060, -1033, -1029, -1027, -1015, -900, 1016};
        static const LD  SB[6] = {1, -1, 3, -3, 0.5L, -0.25L};
        static const int HS[5] = {13 /* no shear */, 0 /* (-1,-1,-1) */, 26 /* (1,1,1) */, 27, 28 /* generic */};
        const int      rstep = std::max (1, nr / 27);
        const uint64_t nrr = (nr + rstep - 1) / rstep, nks = KS.size (), N = nks * 216 * 5 * nrr;
        const LD       tmin = std::numeric_limits<T>::min (), tmax = std::numeric_limits<T>::max (), dmin = std::numeric_limits<T>::denorm_min ();
        Shrt3d<T> chkSub, chkTiny, chkHuge;
        chkSub.sfx  = ".uniformly-scaled.all-entries-subnormal";
        chkTiny.sfx = ".uniformly-scaled.tiny-normal-entries";
        chkHuge.sfx = ".uniformly-scaled.huge-entries";
        Shrt3 regB;
        for (int a = 0; a < 3; ++a) { regB.s[a] = 1 + a; regB.h[a] = GENERIC_H[0][a]; regB.t[a] = TRANS[0][a]; }
        regB.R = Rtab[nr / 3 + 1];
        ShrtTally G;
        long long c_sub = 0, c_recip = 0, c_tiny = 0, c_huge = 0, c_refl = 0, c_sheared = 0;
        bool ok = vf::parallel_chunks (N, 5 * nrr, [&] (uint64_t lo, uint64_t hi, unsigned) {
            ShrtTally l;
            long long sub = 0, recip = 0, tiny = 0, huge = 0, refl = 0, sheared = 0;
            for (uint64_t i = lo; i < hi; ++i)
            {
                uint64_t r = i;
                int ri = (int) (r % nrr) * rstep; r /= nrr;
                int hi_ = HS[r % 5]; r /= 5;
                int sd[3];
                ex::decode (r % 216, 6, 3, sd); r /= 216;
                const int k = KS[r];
                Shrt3 f;
                for (int a = 0; a < 3; ++a) { f.s[a] = ldexpl (SB[sd[a]], k); f.t[a] = TRANS[0][a]; }
                shearOf (hi_, f.h);
                f.R = Rtab[ri];
                // classes: predicates on the composed input
                const LD nrmL = ref::maxabs (linOf (f));
                const Shrt3d<T>* ck;
                if (k > 0) { ++huge; ck = &chkHuge; }
                else if (nrmL < tmin) { ++sub; ck = &chkSub; if (nrmL * tmax < 1) ++recip; }
                else { ++tiny; ck = &chkTiny; }
                if (f.s[0] * f.s[1] * f.s[2] < 0) ++refl;
                if (f.h[0] != 0 || f.h[1] != 0 || f.h[2] != 0) ++sheared;
                const bool mayReport = k < 0;
                ck->regular (f, [&] { return "2^" + std::to_string (k) + " * " + tagOf (f, ri); }, l, hi_ >= 27 && ri % 2 == 0, mayReport, dmin);
                if (hi_ == 13 || hi_ == 27)
                {
                    ck->rs (f, regB, [&] { return "A scaled by 2^" + std::to_string (k) + ": " + tagOf (f, ri); }, l, mayReport, dmin);
                    ck->rs (regB, f, [&] { return "B scaled by 2^" + std::to_string (k) + ": " + tagOf (f, ri); }, l, mayReport, dmin);
                }
            }
            std::lock_guard<std::mutex> g (mu);
            G.merge (l);
            c_sub += sub; c_recip += recip; c_tiny += tiny; c_huge += huge; c_refl += refl; c_sheared += sheared;
        });
        R ().add ("states", G.cases); R ().add ("evaluations", G.cases); R ().add ("transitions", G.transitions);
        R ().add ("uniformly_scaled_down_reported_as_degenerate(3-D, " + tn + ")", G.tiny_reported);
        R ().cls ("shrt3d.uniformly-scaled.all-entries-subnormal", c_sub);
        R ().cls ("shrt3d.uniformly-scaled.all-entries-subnormal.reciprocal-of-largest-entry-overflows", c_recip);
        R ().cls ("shrt3d.uniformly-scaled.tiny-normal-entries", c_tiny);
        R ().cls ("shrt3d.uniformly-scaled.huge-entries(near max/8)", c_huge);
        R ().cls ("shrt3d.uniformly-scaled.reflection", c_refl);
        R ().cls ("shrt3d.uniformly-scaled.sheared", c_sheared);
        R ().cls ("shrt3d.uniformly-scaled.computeRSMatrix-calls", G.rs);
        R ().note_max ("worst 3-D residual-rotation orthonormality, uniformly scaled inputs (eps, " + tn + ")", G.w_ortho);
        std::string b = std::to_string (nks) + " powers of two (all-subnormal, tiny normal, near max/8) x 6^3 scales x 5 shears x " + std::to_string (nrr) + " rotations, " + tn +
                        ": every 3-D entry point incl. computeRSMatrix (scaled A / scaled B), extractSHRT rOrder / Euler& in all 24 orders on the generic shears";
        if (ok) R ().stage_done (b); else R ().stage_partial (std::to_string (G.cases) + " of " + b);
    }

    if (part == 0 && R ().stage ("computeRSMatrix-" + tn))
    {
        ShrtTally G;
        Shrt3     B[4];
        static const LD BS[4][3] = {{2, 3, 0.5L}, {-1, 1, 1}, {1, 1, 1}, {-2, -0.5L, -4}};
        for (int b = 0; b < 4; ++b)
        {
            for (int a = 0; a < 3; ++a) { B[b].s[a] = BS[b][a]; B[b].h[a] = (b & 1) ? GENERIC_H[1][a] : 0; B[b].t[a] = 1 + a; }
            B[b].R = Rtab[(7 * b + 3) % nr];
        }
        const int      rstep = std::max (1, nr / 27);
        const uint64_t nrr = (nr + rstep - 1) / rstep, N = 512ull * 2 * nrr;
        bool ok = vf::parallel_chunks (N, 2 * nrr, [&] (uint64_t lo, uint64_t hi, unsigned) {
            ShrtTally l;
            for (uint64_t i = lo; i < hi; ++i)
            {
                uint64_t r = i;
                int ri = (int) (r % nrr) * rstep; r /= nrr;
                int hi_ = (int) (r % 2); r /= 2;
                int sd[3];
                ex::decode (r, 8, 3, sd);
                Shrt3 f;
                for (int a = 0; a < 3; ++a) { f.s[a] = SCALES[sd[a]]; f.t[a] = TRANS[0][a]; f.h[a] = hi_ ? GENERIC_H[0][a] : 0; }
                f.R = Rtab[ri];
                for (int b = 0; b < 4; ++b) chk.rs (f, B[b], [&] { return tagOf (f, ri) + " Bindex=" + std::to_string (b); }, l);
            }
            std::lock_guard<std::mutex> g (mu);
            G.merge (l);
        });
        R ().add ("states", G.rs); R ().add ("evaluations", G.rs); R ().add ("transitions", G.transitions);
        R ().cls ("computeRSMatrix.flag-combinations-x-pairs", G.rs);
        R ().note_max ("worst computeRSMatrix error / (cond eps |s|) (" + tn + ")", G.w_rs);
        std::string b = "A in 8^3 scales x {no shear, generic} x " + std::to_string (nrr) + " rotations, B in 4 fixed matrices, 4 flag combinations, " + tn;
        if (ok) R ().stage_done (b); else R ().stage_partial (b);
    }
}

} // namespace c12
