// C05 — explicit instantiation of the 'round' stages for float (one TU per scalar type to keep the build parallel)
#include "c05_round.hpp"
namespace c05 { template void run_rounding<float> (); }
