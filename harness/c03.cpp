// C03 — half is a coherent numeric type: classification, unary minus, round(n), numeric_limits /
// HALF_* constants, text round trip, compound arithmetic, halfFunction tables.
//
// Every stage enumerates a finite space completely on the real code:
//   classification : all 2^16 patterns
//   round          : all 2^16 patterns x n in {0..12, 31, 32, UINT_MAX}
//   limits         : every constant against the value found by scanning all 2^16 patterns through the
//                    library's own half->float conversion; digits10 / max_digits10 by brute force
//   text           : operator<< then operator>> on every finite pattern (default stream, precision 5)
//   arith-half-rhs : quick all 2^16 lhs x ~1900 boundary rhs x 4 ops; thorough all 2^32 ordered pairs x 4 ops
//   arith-float-rhs: all 2^16 lhs x boundary float alphabet x 4 ops
//   arith-float-rhs-result-boundaries: += and -= with the float rhs chosen so that the exact result sits on / one float
//                    ulp beside a half rounding boundary (quick: every finite lhs x the midpoints next to the boundary
//                    half patterns; thorough: every finite lhs x every midpoint)
//   text-sequential: all finite halves written into ONE stream, separated by single spaces, read back in sequence
//   halfFunction   : 5 instantiations x 18 domains x all 2^16 entries, default build and IMATH_HAVE_LARGE_STACK build
// Oracles are written from the definitions: engine/halfref.hpp decodes/encodes binary16 independently
// of half.h, the float operation is one IEEE single-precision operation (this TU is built without
// -ffast-math on x86-64/SSE, so `a op b` on floats is exactly that), integers / long double (64-bit
// significand: every half value and every midpoint is exact) for round(n).
#include "../engine/exact.hpp"
#include "../engine/halfref.hpp"
#include "../engine/report.hpp"
#include <half.h>
#include <halfFunction.h>
#include <halfLimits.h>
#include <algorithm>
#include <cfloat>
#include <climits>
#include <iomanip>
#include <limits>
#include <memory>
#include <sstream>

using namespace vf;
using IMATH_NAMESPACE::half;
typedef std::numeric_limits<half> NL;

static std::string hx (uint32_t v, int w) { char b[16]; snprintf (b, sizeof b, "0x%0*x", w, v); return b; }
static bool is_nan16 (uint16_t h) { return (h & 0x7c00) == 0x7c00 && (h & 0x3ff); }
static bool is_inf16 (uint16_t h) { return (h & 0x7fff) == 0x7c00; }
static bool is_nan32 (uint32_t u) { return (u & 0x7fffffffu) > 0x7f800000u; }
static half hb (uint16_t b) { half h; h.setBits (b); return h; }

// reference decoding of every pattern (definition-level, independent of half.h)
static float REFV[65536];

// is the float with magnitude bits `ab` an exact tie between two adjacent halves? (predicate on the
// value, from the format definition: the bits below the half significand are exactly 100..0)
static bool is_half_tie (uint32_t ab)
{
    if (ab >= 0x477ff000u || ab < 0x33000000u) return false;
    int e    = (int) (ab >> 23);
    int drop = e >= 113 ? 13 : 13 + (113 - e);
    if (drop > 24) return false;
    uint32_t m = (ab & 0x7fffff) | 0x800000;
    return (m & ((1u << drop) - 1)) == (1u << (drop - 1));
}

// ------------------------------------------------------------------------------------------------
static void stage_classification ()
{
    long long c_zero = 0, c_norm = 0, c_den = 0, c_inf = 0, c_nan = 0, c_neg = 0;
    const float nrm_min = ldexpf (1.0f, -14); // smallest normal magnitude of the format, by definition
    for (uint32_t i = 0; i < 65536; ++i)
    {
        half              h   = hb ((uint16_t) i);
        const std::string in  = "half " + hx (i, 4);
        const float       v   = REFV[i];
        const int         fc  = std::fpclassify (v);
        const bool z = h.isZero (), n = h.isNormalized (), d = h.isDenormalized (), f = h.isInfinity (), a = h.isNan ();
        int cnt = (int) z + n + d + f + a;
        if (cnt != 1)
            R ().fail ("classification.exactly-one-class", in, "1 of {zero,normalized,denormalized,infinity,nan}",
                       Msg () << cnt << " (z n d inf nan = " << z << n << d << f << a << ")");
        // agreement with the float classification of the value the pattern denotes (a half subnormal
        // is a *normal* float, so "normalized" vs "denormalized" is decided by the magnitude 2^-14)
        if (z != (fc == FP_ZERO)) R ().fail ("isZero", in, fmt (fc == FP_ZERO), fmt (z));
        if (f != (fc == FP_INFINITE)) R ().fail ("isInfinity", in, fmt (fc == FP_INFINITE), fmt (f));
        if (a != (fc == FP_NAN)) R ().fail ("isNan", in, fmt (fc == FP_NAN), fmt (a));
        bool want_n = fc == FP_NORMAL && fabsf (v) >= nrm_min, want_d = fc == FP_NORMAL && fabsf (v) < nrm_min;
        if (n != want_n) R ().fail ("isNormalized", in, fmt (want_n), fmt (n));
        if (d != want_d) R ().fail ("isDenormalized", in, fmt (want_d), fmt (d));
        if (h.isFinite () != (bool) std::isfinite (v)) R ().fail ("isFinite", in, fmt ((bool) std::isfinite (v)), fmt (h.isFinite ()));
        if (h.isFinite () != (z || n || d)) R ().fail ("isFinite.vs-classes", in, fmt (z || n || d), fmt (h.isFinite ()));
        if (h.isNegative () != (bool) std::signbit (v)) R ().fail ("isNegative", in, fmt ((bool) std::signbit (v)), fmt (h.isNegative ()));
        // the same through the library's own conversion of the pattern
        {
            float lv  = (float) h;
            int   lfc = std::fpclassify (lv);
            bool  ok  = (z == (lfc == FP_ZERO)) && (f == (lfc == FP_INFINITE)) && (a == (lfc == FP_NAN)) && ((n || d) == (lfc == FP_NORMAL)) &&
                      (h.isNegative () == (bool) std::signbit (lv));
            if (!ok) R ().fail ("classification.vs-fpclassify(float(h))", in, "class/sign of " + fmt (lv), Msg () << "z n d inf nan neg = " << z << n << d << f << a << h.isNegative ());
        }
        // unary minus flips only the sign bit (NaNs included)
        uint16_t neg = (-h).bits ();
        if (neg != (uint16_t) (i ^ 0x8000)) R ().fail ("operator-(unary)", in, hx (i ^ 0x8000, 4), hx (neg, 4));
        // raw-bits access is the identity
        if (h.bits () != i || half (half::FromBits, (uint16_t) i).bits () != i) R ().fail ("bits-roundtrip", in, hx (i, 4), hx (h.bits (), 4));
        c_zero += z; c_norm += n; c_den += d; c_inf += f; c_nan += a; c_neg += h.isNegative ();
    }
    // named special values
    if (!(half::posInf ().isInfinity () && !half::posInf ().isNegative ())) R ().fail ("special-values.posInf", "posInf()", "+infinity", hx (half::posInf ().bits (), 4));
    if (!(half::negInf ().isInfinity () && half::negInf ().isNegative ())) R ().fail ("special-values.negInf", "negInf()", "-infinity", hx (half::negInf ().bits (), 4));
    if (half::qNan ().bits () != 0x7fff) R ().fail ("special-values.qNan", "qNan()", "0x7fff (documented pattern)", hx (half::qNan ().bits (), 4));
    if (half::sNan ().bits () != 0x7dff) R ().fail ("special-values.sNan", "sNan()", "0x7dff (documented pattern)", hx (half::sNan ().bits (), 4));
    R ().add ("states", 65536);
    R ().add ("transitions", 65536 * 11);
    R ().add ("evaluations", 65536);
    R ().cls ("class.zero", c_zero); R ().cls ("class.normalized", c_norm); R ().cls ("class.denormalized", c_den);
    R ().cls ("class.infinity", c_inf); R ().cls ("class.nan", c_nan); R ().cls ("class.negative", c_neg);
    R ().sample ("half 0x03ff: isDenormalized=" + fmt (hb (0x03ff).isDenormalized ()) + " isNormalized=" + fmt (hb (0x03ff).isNormalized ()));
    R ().stage_done ("all 65536 patterns x {5 class predicates, isFinite, isNegative, unary minus, bits}");
}

// ------------------------------------------------------------------------------------------------
// round(n). Reference (from the documentation and the property statement, on the 15 magnitude bits):
//   n >= 10        : identity.
//   infinity       : stays the same infinity.
//   finite x, n<10 : the result keeps the sign, is finite, has its low q = 10-n significand bits
//                    clear, and |result - x| <= unit/2 where unit is the spacing of the n-bit grid
//                    around x (exact, in long double); a tie may go either way. Where the upper
//                    grid neighbour would be infinity (pattern 0x7c00) the result is the lower
//                    neighbour (truncation), whatever the distance.
//   NaN, n<10      : nothing is promised (the statement covers finite and infinite values).
// The n-bit grid in pattern space is {k * 2^(10-n)}; since every binade boundary is a grid point
// and the value is affine in the pattern within a binade, lo/hi below are the value neighbours too.
static void stage_round ()
{
    const unsigned ns[] = {0, 1, 2, 3, 4, 5, 6, 7, 8, 9, 10, 11, 12, 31, 32, UINT_MAX};
    long long c_tie = 0, c_up = 0, c_down = 0, c_exact = 0, c_trunc = 0, c_ident = 0, c_inf = 0, c_nan_skipped = 0, trans = 0;
    for (unsigned n : ns)
        for (uint32_t i = 0; i < 65536; ++i)
        {
            half              h = hb ((uint16_t) i);
            uint16_t          r = h.round (n).bits ();
            const std::string in = "half " + hx (i, 4) + " n=" + std::to_string (n);
            ++trans;
            if (n >= 10)
            {
                ++c_ident;
                if (r != i) R ().fail ("round.n>=10-is-identity", in, hx (i, 4), hx (r, 4));
                continue;
            }
            if (is_nan16 ((uint16_t) i)) { ++c_nan_skipped; continue; }
            if (is_inf16 ((uint16_t) i))
            {
                ++c_inf;
                if (r != i) R ().fail ("round.infinity-stays-infinity", in, hx (i, 4), hx (r, 4));
                continue;
            }
            const uint32_t s = i & 0x8000, x = i & 0x7fff, q = 1u << (10 - n), lo = x & ~(q - 1), hi = lo + q, d = x - lo;
            const uint32_t rs = r & 0x8000, rx = r & 0x7fff;
            if (rs != s) R ().fail ("round.sign-kept", in, hx (s, 4), hx (rs, 4));
            if (rx & (q - 1)) R ().fail ("round.low-bits-cleared", in, "low " + std::to_string (10 - n) + " bits zero", hx (r, 4));
            if (rx >= 0x7c00) R ().fail ("round.finite-stays-finite", in, "finite", hx (r, 4));
            if (hi >= 0x7c00)
            {   // rounding up would reach infinity: truncation
                if (2 * d >= q) ++c_trunc; else if (d) ++c_down; else ++c_exact;
                if (rx != lo) R ().fail ("round.overflow-truncates", in, hx (s | lo, 4), hx (r, 4));
                continue;
            }
            long double vx = href::half_mag (x), vlo = href::half_mag (lo), vhi = href::half_mag (hi);
            if (rx < 0x7c00)
            {
                long double vr = href::half_mag (rx);
                if (2 * fabsl (vr - vx) > vhi - vlo)
                    R ().fail ("round.within-half-unit", in,
                               (2 * d < q ? hx (s | lo, 4) : 2 * d > q ? hx (s | hi, 4) : hx (s | lo, 4) + " or " + hx (s | hi, 4)), hx (r, 4));
            }
            if (d == 0) ++c_exact; else if (2 * d == q) ++c_tie; else if (2 * d > q) ++c_up; else ++c_down;
        }
    R ().add ("states", 65536LL * (long long) (sizeof ns / sizeof ns[0]));
    R ().add ("transitions", trans);
    R ().add ("evaluations", trans);
    R ().cls ("round.tie", c_tie); R ().cls ("round.up", c_up); R ().cls ("round.down", c_down); R ().cls ("round.already-on-grid", c_exact);
    R ().cls ("round.overflow-truncation", c_trunc); R ().cls ("round.n>=10-identity", c_ident); R ().cls ("round.infinity", c_inf);
    R ().cls ("round.nan-input-unspecified.generic", c_nan_skipped);
    R ().sample ("half(0x3c01).round(9) = " + hx (hb (0x3c01).round (9).bits (), 4) + ", half(0x7bff).round(0) = " + hx (hb (0x7bff).round (0).bits (), 4));
    R ().stage_done ("all 65536 patterns x n in {0..12, 31, 32, UINT_MAX}");
}

// ------------------------------------------------------------------------------------------------
// text helpers
static bool write_read (uint16_t bits, int precision, uint16_t& back, std::string& txt)
{
    std::ostringstream os; // fresh stream: default state ("C" locale, precision 6, no floatfield)
    if (precision >= 0) os.precision (precision);
    os << hb (bits);
    txt = os.str ();
    std::istringstream is (txt);
    half               g = hb (0x7e55);
    is >> g;
    back = g.bits ();
    return !is.fail ();
}

// does the decimal `text` survive text -> half (operator>>) -> text with `digits` significant digits?
static bool decimal_survives (const std::string& text, int digits, std::string& out)
{
    std::istringstream is (text);
    half               h = hb (0x7e55);
    is >> h;
    if (is.fail ()) { out = "(parse failed)"; return false; }
    std::ostringstream os;
    os.precision (digits);
    os << h;
    out = os.str ();
    // equal decimals <=> equal long doubles (glibc strtold is correctly rounded; two different decimals
    // of <= 5 significant digits differ by > 1e-5 relative, far above long double resolution)
    return strtold (text.c_str (), nullptr) == strtold (out.c_str (), nullptr);
}

static void stage_limits ()
{
    // ---- scan: what the conversion actually does with every pattern
    struct PV { float v; uint16_t p; };
    std::vector<PV> fin;
    for (uint32_t i = 0; i < 65536; ++i)
    {
        float v = (float) hb ((uint16_t) i);
        if (std::isfinite (v)) fin.push_back ({v, (uint16_t) i});
    }
    std::stable_sort (fin.begin (), fin.end (), [] (const PV& a, const PV& b) { return a.v < b.v; });
    std::vector<PV> pos; // strictly positive, distinct, ascending
    for (auto& e : fin)
        if (e.v > 0 && (pos.empty () || pos.back ().v != e.v)) pos.push_back (e);
    R ().add ("states", 65536);
    R ().add ("finite_values_scanned", (long long) fin.size ());
    if (fin.size () < 4 || pos.size () < 4) { R ().fail ("limits.scan", "all patterns", "> 4 finite values", std::to_string (fin.size ())); return; }
    auto expect_bits = [] (const std::string& site, const char* what, uint16_t want, uint16_t got) {
        if (want != got) R ().fail (site, what, hx (want, 4) + " (found by scanning all patterns through float(half))", hx (got, 4));
    };
    // a HALF_* macro is a decimal literal naming a half value: as a half (reference converter) it must
    // be exactly the pattern found by the scan
    auto expect_macro = [] (const std::string& site, const char* what, uint16_t want, double macro) {
        uint16_t got = href::f2h_ref (href::fbits ((float) macro));
        if (want != got) R ().fail (site, what, hx (want, 4) + " (found by scanning)", hx (got, 4) + " = nearest half of " + fmt (macro));
    };
    long long checks = 0;
    const PV vmax = fin.back (), vlow = fin.front (), dmin = pos.front ();
    expect_bits ("limits.max", "numeric_limits<half>::max()", vmax.p, NL::max ().bits ()); ++checks;
    expect_bits ("limits.lowest", "numeric_limits<half>::lowest()", vlow.p, NL::lowest ().bits ()); ++checks;
    expect_bits ("limits.denorm_min", "numeric_limits<half>::denorm_min()", dmin.p, NL::denorm_min ().bits ()); ++checks;
    expect_macro ("limits.HALF_MAX", "HALF_MAX", vmax.p, HALF_MAX); ++checks;
    expect_macro ("limits.-HALF_MAX", "-HALF_MAX", vlow.p, -HALF_MAX); ++checks;
    expect_macro ("limits.HALF_DENORM_MIN", "HALF_DENORM_MIN", dmin.p, HALF_DENORM_MIN); ++checks;
    // gap above 1.0
    size_t one = 0;
    while (one < pos.size () && pos[one].v != 1.0f) ++one;
    if (one + 1 >= pos.size ()) { R ().fail ("limits.scan", "1.0", "1.0 is a half value", "not found"); return; }
    const float eps = pos[one + 1].v - 1.0f; // exact (Sterbenz)
    size_t      ei  = 0;
    while (ei < pos.size () && pos[ei].v != eps) ++ei;
    if (ei == pos.size ()) R ().fail ("limits.epsilon", "nextafter(1)-1 = " + fmt (eps), "a half value", "not representable");
    else
    {
        expect_bits ("limits.epsilon", "numeric_limits<half>::epsilon()", pos[ei].p, NL::epsilon ().bits ()); ++checks;
        expect_macro ("limits.HALF_EPSILON", "HALF_EPSILON", pos[ei].p, HALF_EPSILON); ++checks;
    }
    // digits: 2^(digits-1) values in [1,2)
    long long in12 = 0;
    for (auto& e : pos) if (e.v >= 1.0f && e.v < 2.0f) ++in12;
    if (in12 != (1LL << (NL::digits - 1))) R ().fail ("limits.digits", "numeric_limits<half>::digits", std::to_string (in12) + " values in [1,2)", "2^(" + std::to_string (NL::digits) + "-1)");
    if (in12 != (1LL << (HALF_MANT_DIG - 1))) R ().fail ("limits.HALF_MANT_DIG", "HALF_MANT_DIG", std::to_string (in12) + " values in [1,2)", "2^(" + std::to_string (HALF_MANT_DIG) + "-1)");
    checks += 2;
    // smallest normal: smallest positive value carrying full relative precision, gap(v) <= v * eps
    size_t mi = 0;
    while (mi + 1 < pos.size () && !(pos[mi + 1].v - pos[mi].v <= pos[mi].v * eps)) ++mi;
    const PV vmin = pos[mi];
    expect_bits ("limits.min", "numeric_limits<half>::min()", vmin.p, NL::min ().bits ()); ++checks;
    expect_macro ("limits.HALF_MIN", "HALF_MIN", vmin.p, HALF_MIN); ++checks;
    expect_macro ("limits.HALF_NRM_MIN", "HALF_NRM_MIN", vmin.p, HALF_NRM_MIN); ++checks;
    if (!(dmin.v < vmin.v) || NL::has_denorm != std::denorm_present) R ().fail ("limits.has_denorm", "numeric_limits<half>::has_denorm", "denorm_present (values below min() exist)", std::to_string ((int) NL::has_denorm));
    ++checks;
    // exponents (std definitions: radix^(k-1) is a normalized / finite value)
    auto is_value = [&] (float v) { for (auto& e : pos) if (e.v == v) return true; return false; };
    int kmax = INT_MIN, kmin = INT_MAX;
    for (int k = -40; k <= 40; ++k)
    {
        float p2 = ldexpf (1.0f, k - 1);
        if (is_value (p2) && p2 >= vmin.v) { if (k > kmax) kmax = k; if (k < kmin) kmin = k; }
    }
    if (kmax != NL::max_exponent) R ().fail ("limits.max_exponent", "numeric_limits<half>::max_exponent", std::to_string (kmax), std::to_string (NL::max_exponent));
    if (kmax != HALF_MAX_EXP) R ().fail ("limits.HALF_MAX_EXP", "HALF_MAX_EXP", std::to_string (kmax), std::to_string (HALF_MAX_EXP));
    if (kmin != NL::min_exponent) R ().fail ("limits.min_exponent", "numeric_limits<half>::min_exponent", std::to_string (kmin), std::to_string (NL::min_exponent));
    if (kmin != HALF_DENORM_MIN_EXP) R ().fail ("limits.HALF_DENORM_MIN_EXP", "HALF_DENORM_MIN_EXP", std::to_string (kmin), std::to_string (HALF_DENORM_MIN_EXP));
    int k10max = INT_MIN, k10min = INT_MAX;
    for (int k = -12; k <= 12; ++k)
    {   // 10^k within [min normal, max]; exact: 10^|k| < 2^64 is exact in long double, min/max are dyadic
        long double p = 1;
        for (int j = 0; j < (k < 0 ? -k : k); ++j) p *= 10;
        bool in = k >= 0 ? (p <= (long double) vmax.v && p >= (long double) vmin.v) : (1.0L >= (long double) vmin.v * p && 1.0L <= (long double) vmax.v * p);
        if (in) { if (k > k10max) k10max = k; if (k < k10min) k10min = k; }
    }
    if (k10max != NL::max_exponent10) R ().fail ("limits.max_exponent10", "numeric_limits<half>::max_exponent10", std::to_string (k10max), std::to_string (NL::max_exponent10));
    if (k10max != HALF_MAX_10_EXP) R ().fail ("limits.HALF_MAX_10_EXP", "HALF_MAX_10_EXP", std::to_string (k10max), std::to_string (HALF_MAX_10_EXP));
    if (k10min != NL::min_exponent10) R ().fail ("limits.min_exponent10", "numeric_limits<half>::min_exponent10", std::to_string (k10min), std::to_string (NL::min_exponent10));
    if (k10min != HALF_DENORM_MIN_10_EXP) R ().fail ("limits.HALF_DENORM_MIN_10_EXP", "HALF_DENORM_MIN_10_EXP", std::to_string (k10min), std::to_string (HALF_DENORM_MIN_10_EXP));
    checks += 8;
    // remaining members
    if ((float) NL::round_error () != 0.5f) R ().fail ("limits.round_error", "round_error()", "0.5 (round to nearest)", fmt ((float) NL::round_error ()));
    if (!((float) NL::infinity () > vmax.v && std::isinf ((float) NL::infinity ()))) R ().fail ("limits.infinity", "infinity()", "+inf", fmt ((float) NL::infinity ()));
    if (!std::isnan ((float) NL::quiet_NaN ()) || !std::isnan ((float) NL::signaling_NaN ()) || NL::quiet_NaN ().bits () == NL::signaling_NaN ().bits ())
        R ().fail ("limits.NaNs", "quiet_NaN()/signaling_NaN()", "two distinct NaNs", hx (NL::quiet_NaN ().bits (), 4) + " " + hx (NL::signaling_NaN ().bits (), 4));
    if (!(NL::is_specialized && NL::is_signed && !NL::is_integer && !NL::is_exact && NL::radix == 2 && HALF_RADIX == 2 && NL::has_infinity && NL::has_quiet_NaN &&
          NL::has_signaling_NaN && NL::round_style == std::round_to_nearest))
        R ().fail ("limits.flags", "is_specialized is_signed !is_integer !is_exact radix==2 has_infinity has_quiet_NaN has_signaling_NaN round_to_nearest", "all true", "not all true");
    checks += 4;

    // ---- digits10: every q-digit decimal in the normalized range survives decimal -> half -> decimal,
    // and q is the largest such count (some (q+1)-digit decimal does not survive).
    // A priori: binary16 has p = 11 significant bits; 10^3 < 2^(p-1) = 1024 <= 10^4 (Matula / Goldberg),
    // so exactly 3 digits survive. operator>> goes decimal -> float -> half; the intermediate float adds
    // at most 2^-14 half-ulps to the error, which the 1000/1024 margin absorbs.
    auto sweep_decimals = [&] (int q, long long& total, long long& failed, std::string& first_fail) {
        long long p10 = 1;
        for (int j = 1; j < q; ++j) p10 *= 10;
        for (int K = -6; K <= 5; ++K)
            for (long long M = p10; M < p10 * 10; ++M)
                for (int sg = 0; sg < 2; ++sg)
                {
                    char t[64];
                    if (q > 1) snprintf (t, sizeof t, "%s%lld.%0*llde%+03d", sg ? "-" : "", M / p10, q - 1, M % p10, K);
                    else snprintf (t, sizeof t, "%s%llde%+03d", sg ? "-" : "", M, K);
                    long double v = fabsl (strtold (t, nullptr));
                    if (v < (long double) vmin.v || v > (long double) vmax.v) continue; // normalized range only
                    std::string out;
                    ++total;
                    if (!decimal_survives (t, q, out)) { if (!failed++) first_fail = std::string (t) + " -> " + out; }
                }
    };
    {
        long long tot = 0, bad = 0, tot1 = 0, bad1 = 0;
        std::string ff, ff1;
        sweep_decimals (NL::digits10, tot, bad, ff);
        if (bad) R ().fail ("limits.digits10.decimal-roundtrip", ff, "every " + std::to_string (NL::digits10) + "-digit decimal in [min,max] survives text->half->text", std::to_string (bad) + " of " + std::to_string (tot) + " do not");
        sweep_decimals (NL::digits10 + 1, tot1, bad1, ff1);
        if (!bad1) R ().fail ("limits.digits10.not-maximal", std::to_string (NL::digits10 + 1) + " digits", "some decimal does not survive", "all " + std::to_string (tot1) + " survive");
        if (NL::digits10 != HALF_DIG) R ().fail ("limits.HALF_DIG", "HALF_DIG", std::to_string (NL::digits10), std::to_string (HALF_DIG));
        R ().add ("decimal_roundtrips", tot + tot1);
        R ().add ("transitions", tot + tot1);
        R ().cls ("limits.decimals-of-digits10-digits-surviving", tot - bad);
        R ().cls ("limits.decimals-of-digits10+1-digits-not-surviving", bad1);
        R ().sample ("4-digit decimal that does not survive: " + ff1);
    }
    // ---- max_digits10: every finite half survives print(q digits) -> parse, and q-1 digits do not suffice
    {
        long long bad = 0, bad1 = 0, tot = 0;
        std::string ff1;
        for (auto& e : fin)
        {
            uint16_t back; std::string txt;
            ++tot;
            bool ok = write_read (e.p, NL::max_digits10, back, txt);
            if (!ok || back != e.p) { ++bad; R ().fail ("limits.max_digits10.text-roundtrip", "half " + hx (e.p, 4) + " printed as \"" + txt + "\"", hx (e.p, 4), ok ? hx (back, 4) : "parse failed"); }
            ok = write_read (e.p, NL::max_digits10 - 1, back, txt);
            if (!ok || back != e.p) { if (!bad1++) ff1 = "half " + hx (e.p, 4) + " printed as \"" + txt + "\" reads back as " + hx (back, 4); }
        }
        if (!bad1) R ().fail ("limits.max_digits10.not-minimal", std::to_string (NL::max_digits10 - 1) + " digits", "some half does not survive", "all survive");
        if (NL::max_digits10 != HALF_DECIMAL_DIG) R ().fail ("limits.HALF_DECIMAL_DIG", "HALF_DECIMAL_DIG", std::to_string (NL::max_digits10), std::to_string (HALF_DECIMAL_DIG));
        R ().add ("transitions", 2 * tot);
        R ().cls ("limits.halves-surviving-max_digits10-print", tot - bad);
        R ().cls ("limits.halves-not-surviving-max_digits10-1-print", bad1);
        R ().sample ("with 4 digits: " + ff1);
    }
    R ().add ("limit_constants_checked", checks);
    R ().add ("transitions", checks);
    R ().add ("evaluations", 65536);
    R ().sample ("scan: max " + fmt (vmax.v) + " pattern " + hx (vmax.p, 4) + ", min normal " + fmt (vmin.v) + " pattern " + hx (vmin.p, 4) + ", epsilon " + fmt (eps));
    R ().stage_done ("every numeric_limits<half> value member and HALF_* macro vs scan of all 65536 patterns; digits10 and max_digits10 by brute force over all decimals / all finite halves");
}

// ------------------------------------------------------------------------------------------------
static void stage_text ()
{
    long long n = 0, sub = 0, negz = 0;
    for (uint32_t i = 0; i < 65536; ++i)
    {
        if ((i & 0x7c00) == 0x7c00) continue; // finite patterns only
        for (int prec : {-1, (int) NL::max_digits10})
        {
            uint16_t back; std::string txt;
            bool ok = write_read ((uint16_t) i, prec, back, txt);
            ++n;
            const char* site = prec < 0 ? "text.roundtrip.default-stream" : "text.roundtrip.precision=max_digits10";
            if (!ok || back != i) R ().fail (site, "half " + hx (i, 4) + " printed as \"" + txt + "\"", hx (i, 4), ok ? hx (back, 4) : "parse failed (" + hx (back, 4) + ")");
        }
        if ((i & 0x7c00) == 0 && (i & 0x3ff)) ++sub;
        if ((i & 0x7fff) == 0) ++negz;
    }
    R ().add ("states", 63488);
    R ().add ("transitions", n);
    R ().add ("evaluations", n);
    R ().cls ("text.subnormal", sub); R ().cls ("text.zeros", negz); R ().cls ("text.normal.generic", 63488 - sub - negz);
    { uint16_t b; std::string t; write_read (0x8000, -1, b, t); R ().sample ("half 0x8000 prints as \"" + t + "\" and reads back as " + hx (b, 4)); }
    { uint16_t b; std::string t; write_read (0x0001, -1, b, t); R ().sample ("half 0x0001 prints as \"" + t + "\" and reads back as " + hx (b, 4)); }
    R ().stage_done ("operator<< then operator>> on all 63488 finite patterns x {default stream state, precision = max_digits10}");
}

// ------------------------------------------------------------------------------------------------
// compound arithmetic: a op= b  ==  f2h_ref( float(a) op float(b) ), one IEEE single operation.
// When that float result is a NaN only NaN-ness is demanded (which operand's payload/sign an x86
// operation propagates depends on operand order, which the compiler may commute).
struct ArithTally
{
    long long nan = 0, ovf = 0, sub = 0, tie = 0, zero_from_nonzero = 0, generic = 0, n = 0, nank[3] = {0, 0, 0};
    void classify (float fa, float fb, uint32_t rbits, uint16_t want)
    {
        ++n;
        uint32_t ab = rbits & 0x7fffffffu;
        if (is_nan32 (rbits)) { ++nan; ++nank[(std::isnan (fa) && std::isnan (fb)) ? 2 : (std::isnan (fa) || std::isnan (fb)) ? 0 : 1]; }
        else if (is_inf16 (want) && std::isfinite (fa) && std::isfinite (fb)) ++ovf;
        else if (is_half_tie (ab)) ++tie;
        else if ((want & 0x7c00) == 0 && (want & 0x3ff)) ++sub;
        else if ((want & 0x7fff) == 0 && fa != 0 && fb != 0 && std::isfinite (fb)) ++zero_from_nonzero;
        else ++generic;
    }
    void flush (const char* pfx)
    {
        std::string p = pfx;
        R ().cls (p + ".nan-result", nan); R ().cls (p + ".overflow-to-infinity", ovf); R ().cls (p + ".subnormal-result", sub);
        R ().cls (p + ".exact-tie-in-final-rounding", tie); R ().cls (p + ".zero-from-nonzero-operands", zero_from_nonzero); R ().cls (p + ".generic", generic);
        R ().cls (p + ".nan-result.exactly-one-nan-operand", nank[0]); R ().cls (p + ".nan-result.invalid-operation-on-non-nan-operands", nank[1]);
        R ().cls (p + ".nan-result.two-nan-operands", nank[2]);
    }
    void operator+= (const ArithTally& o) { for (int k = 0; k < 3; ++k) nank[k] += o.nank[k]; nan += o.nan; ovf += o.ovf; sub += o.sub; tie += o.tie; zero_from_nonzero += o.zero_from_nonzero; generic += o.generic; n += o.n; }
};

// NaN results. "converting to float, operating once in float and converting back" fixes more than NaN-ness wherever one
// IEEE single operation does: (a) exactly one NaN operand: the result is that operand quieted (sign and payload kept),
// whatever the operand order; (b) no NaN operand (inf-inf, 0*inf, 0/0, inf/inf): the default NaN of the platform; both are
// what the harness's own single float operation returns, so the expected half is f2h_ref of that. (c) two NaN operands:
// x86 returns the first *source* operand quieted and the compiler may commute + and *, so the result must be one of the
// two operands quieted (converted), not a particular one.
// returns 0 = fine, 1 = not a NaN at all, 2 = wrong sign/payload (class in `kind`: 0 one-NaN, 1 invalid-operation, 2 two-NaN)
static inline int nan_verdict (uint32_t fa_bits, uint32_t fb_bits, uint32_t rbits, uint16_t got, int& kind)
{
    const bool na = is_nan32 (fa_bits), nb = is_nan32 (fb_bits);
    kind = (na && nb) ? 2 : (na || nb) ? 0 : 1;
    if (!is_nan16 (got)) return 1;
    if (kind == 2)
    {
        uint16_t qa = href::f2h_ref (fa_bits | 0x00400000u), qb = href::f2h_ref (fb_bits | 0x00400000u);
        return (got == qa || got == qb) ? 0 : 2;
    }
    return got == href::f2h_ref (rbits) ? 0 : 2;
}
static const char* NANKIND[3] = {".nan-result-sign-payload.one-nan-operand", ".nan-result-sign-payload.invalid-operation", ".nan-result-sign-payload.two-nan-operands"};

// A change that breaks an operator fails on ~10^8 cases; R().fail (mutex + string formatting) is therefore
// called for at most FAIL_CAP cases per (chunk, operator); the exact number of failing cases per site is
// kept in the counter "mismatching_cases: <site>".
static const int FAIL_CAP = 16;
static std::mutex                       g_mm_mu;
static std::map<std::string, long long> g_mm;
static void mismatch_total (const std::string& site, long long n)
{
    if (!n) return;
    std::lock_guard<std::mutex> g (g_mm_mu);
    g_mm[site] += n;
}
static const char* OPN[4] = {"+=", "-=", "*=", "/="};
// site prefix: keeps the sites distinct after check.py maps non-alphanumerics to '_' for the replay file name
static const char* OPW[4] = {"add-assign", "subtract-assign", "multiply-assign", "divide-assign"};

template <class RHS> static inline uint16_t apply (int op, uint16_t a, RHS b)
{
    half x = hb (a);
    switch (op)
    {
        case 0: x += b; break;
        case 1: x -= b; break;
        case 2: x *= b; break;
        default: x /= b; break;
    }
    return x.bits ();
}
static inline float fop (int op, float a, float b)
{
    switch (op)
    {
        case 0: return a + b;
        case 1: return a - b;
        case 2: return a * b;
        default: return a / b;
    }
}

static void stage_arith_half ()
{
    std::vector<uint16_t> rhs;
    if (R ().thorough ()) for (uint32_t i = 0; i < 65536; ++i) rhs.push_back ((uint16_t) i);
    else
    {   // every exponent x 33 boundary significands x both signs: zeros, smallest/largest subnormal, every binade's ends and
        // middle, every single significand bit, every run of low ones, every run of high ones, alternating bits; infinities;
        // NaNs with each payload bit
        std::vector<uint16_t> ms = {0, 0x155, 0x2aa};
        for (int k = 0; k < 10; ++k) { ms.push_back ((uint16_t) (1u << k)); ms.push_back ((uint16_t) ((2u << k) - 1)); ms.push_back ((uint16_t) (0x3ff & ~((1u << k) - 1))); }
        std::sort (ms.begin (), ms.end ());
        ms.erase (std::unique (ms.begin (), ms.end ()), ms.end ());
        for (uint32_t s = 0; s < 2; ++s)
            for (uint32_t e = 0; e < 32; ++e)
                for (uint16_t m : ms) rhs.push_back ((uint16_t) ((s << 15) | (e << 10) | m));
    }
    const uint64_t N = (uint64_t) rhs.size () << 16;
    std::mutex     mu;
    ArithTally     total;
    std::atomic<long long> done (0);
    bool complete = parallel_chunks (N, 1ull << 18, [&] (uint64_t lo, uint64_t hi, unsigned) {
        ArithTally t;
        long long  bad[4] = {0, 0, 0, 0}, badnan[4][3] = {{0, 0, 0}, {0, 0, 0}, {0, 0, 0}, {0, 0, 0}};
        for (uint64_t i = lo; i < hi; ++i)
        {
            uint16_t b = rhs[(size_t) (i >> 16)], a = (uint16_t) (i & 0xffff);
            float    fa = REFV[a], fb = REFV[b];
            half     hbv = hb (b);
            for (int op = 0; op < 4; ++op)
            {
                uint32_t rb   = href::fbits (fop (op, fa, fb));
                uint16_t want = href::f2h_ref (rb), got = apply<half> (op, a, hbv);
                t.classify (fa, fb, rb, want);
                int kind = 0, nv = is_nan32 (rb) ? nan_verdict (href::fbits (fa), href::fbits (fb), rb, got, kind) : 0;
                bool ok = is_nan32 (rb) ? nv != 1 : got == want;
                if (!ok && ++bad[op] <= FAIL_CAP)
                    R ().fail (std::string (OPW[op]) + ": half::operator" + OPN[op] + "(half)", "lhs " + hx (a, 4) + " rhs " + hx (b, 4), is_nan32 (rb) ? "a NaN" : hx (want, 4), hx (got, 4));
                if (nv == 2 && ++badnan[op][kind] <= FAIL_CAP)
                    R ().fail (std::string (OPW[op]) + ": half::operator" + OPN[op] + "(half)" + NANKIND[kind], "lhs " + hx (a, 4) + " rhs " + hx (b, 4),
                               kind == 2 ? hx (href::f2h_ref (href::fbits (fa) | 0x400000u), 4) + " or " + hx (href::f2h_ref (href::fbits (fb) | 0x400000u), 4) : hx (want, 4), hx (got, 4));
            }
        }
        for (int op = 0; op < 4; ++op)
        {
            mismatch_total (std::string (OPW[op]) + ": half::operator" + OPN[op] + "(half)", bad[op]);
            for (int k = 0; k < 3; ++k) mismatch_total (std::string (OPW[op]) + ": half::operator" + OPN[op] + "(half)" + NANKIND[k], badnan[op][k]);
        }
        done += (long long) (hi - lo);
        std::lock_guard<std::mutex> g (mu);
        total += t;
    });
    R ().add ("states", done.load ());
    R ().add ("transitions", total.n);
    R ().add ("evaluations", total.n);
    total.flush ("arith.half-rhs");
    R ().sample ("half(0x3c00) += half(0x1000) -> " + hx (apply<half> (0, 0x3c00, hb (0x1000)), 4) + " (1 + 2^-11: tie to even)");
    R ().sample ("half(0x7bff) += half(0x7bff) -> " + hx (apply<half> (0, 0x7bff, hb (0x7bff)), 4));
    std::string bound = R ().thorough () ? "all 2^32 ordered pairs of half patterns x {+=,-=,*=,/=}" : "all 65536 lhs x " + std::to_string (rhs.size ()) + " boundary rhs (every exponent x boundary significands x 2 signs) x {+=,-=,*=,/=}";
    if (complete) R ().stage_done (bound);
    else R ().stage_partial (std::to_string (done.load ()) + " pairs of: " + bound);
}

static void stage_arith_float ()
{
    // float rhs alphabet: every float exponent x boundary significands x both signs. Contains B(float):
    // +-0, +-denorm_min, +-FLT_MIN, +-1, 1+ulp, 1-ulp/2, +-FLT_MAX, +-inf, quiet and signalling NaNs; every
    // half-representable power of two; the bit patterns that sit exactly on / next to a half rounding
    // boundary (0x1000 = half an ulp of a normal half, 0x0fff, 0x1001, 0x2000).
    std::vector<uint32_t> ms = {0, 1, 0x000fff, 0x001000, 0x001001, 0x002000, 0x400000, 0x7fffff};
    if (R ().thorough ())
        for (int k = 1; k < 23; ++k) { ms.push_back (1u << k); ms.push_back ((1u << k) - 1); ms.push_back (0x7fffffu & ~((1u << k) - 1)); }
    std::sort (ms.begin (), ms.end ());
    ms.erase (std::unique (ms.begin (), ms.end ()), ms.end ());
    std::vector<uint32_t> rhs;
    for (uint32_t s = 0; s < 2; ++s)
        for (uint32_t e = 0; e < 256; ++e)
            for (uint32_t m : ms) rhs.push_back ((s << 31) | (e << 23) | m);
    const uint64_t N = (uint64_t) rhs.size () << 16;
    std::mutex     mu;
    ArithTally     total;
    long long      rhs_not_half = 0;
    for (uint32_t u : rhs) if (!is_nan32 (u) && href::h2f_ref (href::f2h_ref (u)) != u) ++rhs_not_half;
    std::atomic<long long> done (0);
    bool complete = parallel_chunks (N, 1ull << 18, [&] (uint64_t lo, uint64_t hi, unsigned) {
        ArithTally t;
        long long  bad[4] = {0, 0, 0, 0}, badnan[4][3] = {{0, 0, 0}, {0, 0, 0}, {0, 0, 0}, {0, 0, 0}};
        for (uint64_t i = lo; i < hi; ++i)
        {
            uint32_t ub = rhs[(size_t) (i >> 16)];
            uint16_t a  = (uint16_t) (i & 0xffff);
            float    fa = REFV[a], fb = href::bitsf (ub);
            for (int op = 0; op < 4; ++op)
            {
                uint32_t rb   = href::fbits (fop (op, fa, fb));
                uint16_t want = href::f2h_ref (rb), got = apply<float> (op, a, fb);
                t.classify (fa, fb, rb, want);
                int kind = 0, nv = is_nan32 (rb) ? nan_verdict (href::fbits (fa), ub, rb, got, kind) : 0;
                bool ok = is_nan32 (rb) ? nv != 1 : got == want;
                if (!ok && ++bad[op] <= FAIL_CAP)
                    R ().fail (std::string (OPW[op]) + ": half::operator" + OPN[op] + "(float)", "lhs " + hx (a, 4) + " rhs float " + hx (ub, 8), is_nan32 (rb) ? "a NaN" : hx (want, 4), hx (got, 4));
                if (nv == 2 && ++badnan[op][kind] <= FAIL_CAP)
                    R ().fail (std::string (OPW[op]) + ": half::operator" + OPN[op] + "(float)" + NANKIND[kind], "lhs " + hx (a, 4) + " rhs float " + hx (ub, 8),
                               kind == 2 ? hx (href::f2h_ref (href::fbits (fa) | 0x400000u), 4) + " or " + hx (href::f2h_ref (ub | 0x400000u), 4) : hx (want, 4), hx (got, 4));
            }
        }
        for (int op = 0; op < 4; ++op)
        {
            mismatch_total (std::string (OPW[op]) + ": half::operator" + OPN[op] + "(float)", bad[op]);
            for (int k = 0; k < 3; ++k) mismatch_total (std::string (OPW[op]) + ": half::operator" + OPN[op] + "(float)" + NANKIND[k], badnan[op][k]);
        }
        done += (long long) (hi - lo);
        std::lock_guard<std::mutex> g (mu);
        total += t;
    });
    R ().add ("states", done.load ());
    R ().add ("transitions", total.n);
    R ().add ("evaluations", total.n);
    total.flush ("arith.float-rhs");
    R ().cls ("arith.float-rhs.rhs-values-not-representable-as-half", rhs_not_half);
    R ().sample ("half(0x3c00) += 0x1p-11f -> " + hx (apply<float> (0, 0x3c00, ldexpf (1.0f, -11)), 4) + "; += nextafter(0x1p-11f) -> " + hx (apply<float> (0, 0x3c00, href::bitsf (0x3a000001u)), 4));
    std::string bound = "all 65536 lhs x " + std::to_string (rhs.size ()) + " float rhs (256 exponents x " + std::to_string (ms.size ()) + " boundary significands x 2 signs) x {+=,-=,*=,/=}";
    if (complete) R ().stage_done (bound);
    else R ().stage_partial (std::to_string (done.load ()) + " pairs of: " + bound);
}

// ------------------------------------------------------------------------------------------------
// += / -= with a float rhs aimed at the *result's* rounding boundaries. For a finite lhs a and a midpoint t between two
// adjacent half magnitudes (either sign; including the overflow midpoint 65520), d = t - a (for +=) or a - t (for -=) is
// exact in double (a and t are multiples of 2^-25 below 2^17: <= 42 significant bits). Three float targets are aimed at: t
// itself and the floats immediately below and above t (a perturbation of the rhs smaller than the float spacing at t would
// be absorbed by the float operation: the statement's "operating once in float" is a double rounding). For each target s
// the rhs candidates are the float(s) bracketing the exact s - a (one float if it is representable, else both neighbours),
// so the float sum lands on t (a tie in the final rounding), on its float neighbours, or one step further. The oracle is
// the same as everywhere: one IEEE single operation, then f2h_ref.
static void stage_arith_float_boundaries ()
{
    // midpoints as exact doubles, by the format definition: magnitude pattern h -> value(h), value(h+1)
    auto mag = [] (uint32_t h15) -> double { uint32_t e = h15 >> 10, m = h15 & 0x3ff; return e == 0 ? ldexp ((double) m, -24) : ldexp ((double) (1024 + m), (int) e - 25); };
    std::vector<uint16_t> below; // magnitude patterns h (0 .. 0x7bff) whose upper midpoint (h, h+1) is a target
    if (R ().thorough ()) for (uint32_t h = 0; h < 0x7c00; ++h) below.push_back ((uint16_t) h);
    else
    {   // midpoints on both sides of every boundary pattern (same significand alphabet as arith-half-rhs: 33 boundary
        // significands x every finite exponent)
        std::vector<uint16_t> ms = {0, 0x155, 0x2aa};
        for (int k = 0; k < 10; ++k) { ms.push_back ((uint16_t) (1u << k)); ms.push_back ((uint16_t) ((2u << k) - 1)); ms.push_back ((uint16_t) (0x3ff & ~((1u << k) - 1))); }
        for (uint32_t e = 0; e < 31; ++e)
            for (uint16_t m : ms)
            {
                uint32_t h = (e << 10) | m;
                below.push_back ((uint16_t) h);
                if (h) below.push_back ((uint16_t) (h - 1));
            }
        std::sort (below.begin (), below.end ());
        below.erase (std::unique (below.begin (), below.end ()), below.end ());
    }
    std::vector<double> mids; // signed
    for (uint16_t h : below) { double t = (mag (h) + mag ((uint32_t) h + 1)) / 2; mids.push_back (t); mids.push_back (-t); }
    std::vector<uint16_t> lhs;
    for (uint32_t i = 0; i < 65536; ++i) if ((i & 0x7c00) != 0x7c00) lhs.push_back ((uint16_t) i);
    const uint64_t N = (uint64_t) mids.size () * lhs.size ();
    std::mutex     mu;
    ArithTally     total;
    std::atomic<long long> done (0), c_exact_tie (0), c_d_not_float (0), c_off_tie (0), c_rhs_not_half (0);
    bool complete = parallel_chunks (N, 1ull << 16, [&] (uint64_t lo, uint64_t hi, unsigned) {
        ArithTally t;
        long long  bad[2] = {0, 0}, l_tie = 0, l_nf = 0, l_off = 0, l_nh = 0;
        for (uint64_t i = lo; i < hi; ++i)
        {
            const uint16_t a  = lhs[(size_t) (i % lhs.size ())];
            const double   tm = mids[(size_t) (i / lhs.size ())];
            const float    fa = REFV[a];
            // the three float targets: the midpoint (a float: <= 12 significant bits) and its two float neighbours
            const uint32_t tb = href::fbits ((float) tm);
            const double   tg[3] = {tm, (double) href::bitsf (tb - 1), (double) href::bitsf (tb + 1)}; // tb is a non-zero normal float
            for (int op = 0; op < 2; ++op)
                for (int g = 0; g < 3; ++g)
                {
                    // exact for the midpoint itself (<= 42 significant bits); for its float neighbours exact unless a and the
                    // target are more than 53 bits apart, where d is the nearest double (this only selects candidates: the
                    // oracle below does not depend on how the rhs was chosen). d != 0: no target is a half value.
                    const double d  = op == 0 ? tg[g] - (double) fa : (double) fa - tg[g];
                    const float  fl = (float) d; // nearest float (default rounding mode)
                    const uint32_t flb = href::fbits (fl);
                    uint32_t cand[2];
                    int      nc = 0;
                    cand[nc++] = flb;
                    // d not a float: also the float on the other side of d (|d| >= 2^-49, so fl is a non-zero normal float and
                    // +-1 on its bit pattern is the adjacent float away from / towards zero)
                    if ((double) fl != d) { ++l_nf; const bool away = std::fabs ((double) fl) < std::fabs (d); cand[nc++] = away ? flb + 1 : flb - 1; }
                    for (int k = 0; k < nc; ++k)
                    {
                        const float    fb = href::bitsf (cand[k]);
                        const uint32_t rb = href::fbits (fop (op, fa, fb));
                        const uint16_t want = href::f2h_ref (rb), got = apply<float> (op, a, fb);
                        ++t.n;
                        if (is_half_tie (rb & 0x7fffffffu)) ++l_tie; else ++l_off;
                        if (cand[k] & 0x1fffu) ++l_nh; // bits below the 10-bit half significand: not a half value
                        if ((want & 0x7fff) == 0x7c00) ++t.ovf; else if ((want & 0x7c00) == 0 && (want & 0x3ff)) ++t.sub;
                        if (got != want && ++bad[op] <= FAIL_CAP)
                            R ().fail (std::string (OPW[op]) + ": half::operator" + OPN[op] + "(float).result-at-rounding-boundary", "lhs " + hx (a, 4) + " rhs float " + hx (cand[k], 8), hx (want, 4), hx (got, 4));
                    }
                }
        }
        for (int op = 0; op < 2; ++op) mismatch_total (std::string (OPW[op]) + ": half::operator" + OPN[op] + "(float).result-at-rounding-boundary", bad[op]);
        done += (long long) (hi - lo);
        c_exact_tie += l_tie; c_d_not_float += l_nf; c_off_tie += l_off; c_rhs_not_half += l_nh;
        std::lock_guard<std::mutex> g (mu);
        total += t;
    });
    R ().add ("states", done.load ());
    R ().add ("transitions", total.n);
    R ().add ("evaluations", total.n);
    R ().cls ("arith.float-rhs.result-boundary.float-sum-is-exact-tie", c_exact_tie);
    R ().cls ("arith.float-rhs.result-boundary.float-sum-beside-tie", c_off_tie);
    R ().cls ("arith.float-rhs.result-boundary.target-difference-not-a-float", c_d_not_float);
    R ().cls ("arith.float-rhs.result-boundary.rhs-not-representable-as-half", c_rhs_not_half);
    R ().cls ("arith.float-rhs.result-boundary.overflow-to-infinity", total.ovf);
    R ().cls ("arith.float-rhs.result-boundary.subnormal-result", total.sub);
    std::string bound = "all 63488 finite lhs x " + std::to_string (mids.size ()) + " signed midpoints between adjacent halves (" + (R ().thorough () ? "all" : "those next to every boundary pattern") +
                        ") x {+=,-=} x {midpoint, float below it, float above it} x 1-2 float rhs bracketing the exact difference";
    if (complete) R ().stage_done (bound);
    else R ().stage_partial (std::to_string (done.load ()) + " (lhs, midpoint) pairs of: " + bound);
}

// ------------------------------------------------------------------------------------------------
// text, sequential: every finite half written into ONE stream, separated by single spaces, then read back one after the
// other from one input stream. Each extraction must succeed, leave the stream usable for the next one and reproduce the
// pattern ("text output followed by text input reproduces every finite half"); a reader that over-consumes, or leaves
// failbit/eofbit behind after a value that is followed by more input, breaks the sequence.
static void stage_text_sequential ()
{
    long long n = 0;
    for (int prec : {-1, (int) NL::max_digits10})
    {
        std::ostringstream os;
        if (prec >= 0) os.precision (prec);
        std::vector<uint16_t> order;
        for (uint32_t i = 0; i < 65536; ++i)
            if ((i & 0x7c00) != 0x7c00) order.push_back ((uint16_t) i);
        for (size_t k = 0; k < order.size (); ++k) { if (k) os << ' '; os << hb (order[k]); }
        std::istringstream is (os.str ());
        const char* site_v = prec < 0 ? "text.sequential.default-stream.value" : "text.sequential.precision=max_digits10.value";
        const char* site_s = prec < 0 ? "text.sequential.default-stream.stream-state" : "text.sequential.precision=max_digits10.stream-state";
        for (size_t k = 0; k < order.size (); ++k)
        {
            half g = hb (0x7e55);
            is >> g;
            ++n;
            const bool last = k + 1 == order.size ();
            if (is.fail ()) { R ().fail (site_s, "token #" + std::to_string (k) + " (half " + hx (order[k], 4) + ")", "extraction succeeds", "failbit set"); break; }
            if (!last && is.eof ()) { R ().fail (site_s, "token #" + std::to_string (k) + " (half " + hx (order[k], 4) + ")", "more input follows: no eofbit", "eofbit set"); break; }
            if (g.bits () != order[k]) R ().fail (site_v, "token #" + std::to_string (k) + " (half " + hx (order[k], 4) + ")", hx (order[k], 4), hx (g.bits (), 4));
        }
        // nothing but the values was written: after the last one the stream is exhausted
        std::string rest;
        if (is >> rest) R ().fail (site_s, "after the last token", "end of input", "\"" + rest.substr (0, 32) + "\" left over");
    }
    R ().add ("states", n);
    R ().add ("transitions", n);
    R ().add ("evaluations", n);
    R ().cls ("text.sequential.tokens-read-back-from-one-stream", n);
    R ().stage_done ("all 63488 finite patterns written to one stream separated by single spaces and read back in sequence x {default stream state, precision = max_digits10}");
}

// ------------------------------------------------------------------------------------------------
// halfFunction<T>: harness/c03_halffunction.hpp (shared with the IMATH_HAVE_LARGE_STACK build, c03_largestack.cpp)
#include "c03_halffunction.hpp"
void c03_halffunction_largestack (); // c03_largestack.cpp

int main (int argc, char** argv)
{
    R ().property = "C03";
    R ().parse (argc, argv);
    for (uint32_t i = 0; i < 65536; ++i) REFV[i] = href::bitsf (href::h2f_ref ((uint16_t) i));
    R ().assume ("long double has a 64-bit significand (x86-64): every half value and grid midpoint is exact in the round(n) oracle");
    R ().assume ("float +,-,*,/ in the harness are single IEEE-754 binary32 operations (x86-64 SSE, no -ffast-math, no FMA contraction possible on a single operation)");
    R ().assume ("glibc strtold / libstdc++ num_get and num_put are correctly rounded (used to compare decimals in the digits10 / text checks)");
    if (R ().stage ("classification")) stage_classification ();
    if (R ().stage ("round")) stage_round ();
    if (R ().stage ("limits")) stage_limits ();
    if (R ().stage ("text")) stage_text ();
    if (R ().stage ("halfFunction")) hf::stage ();
    if (R ().stage ("halfFunction-large-stack-build")) c03_halffunction_largestack ();
    if (R ().stage ("text-sequential")) stage_text_sequential ();
    if (R ().stage ("arith-float-rhs")) stage_arith_float ();
    if (R ().stage ("arith-float-rhs-result-boundaries")) stage_arith_float_boundaries ();
    if (R ().stage ("arith-half-rhs")) stage_arith_half ();
    for (auto& kv : g_mm) R ().add ("mismatching_cases: " + kv.first, kv.second);
    if (!g_mm.empty ()) R ().note ("violation_counts", "arithmetic sites: R().fail is called at most 16 times per operator and chunk of 2^18 pairs; exact totals are in the counters 'mismatching_cases: <site>'");
    return R ().finish ();
}
