// C13 extreme-bounds stage, half
#include "c13_extreme.hpp"
namespace c13 { template bool run_extremes<half> (bool); }
