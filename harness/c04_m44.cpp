#include "c04.hpp"
namespace c04 {
void register_m44 (Jobs& jobs) { reg_matrix<Matrix44<float>, 4> (jobs); reg_matrix<Matrix44<double>, 4> (jobs); }
}
