// C06 — stage drivers (enumerations).  Oracles and per-case checks: c06.hpp.
#pragma once
#include "c06.hpp"

namespace c06 {

// Scale ranges: the exponents for which determinant and cofactors of every lattice matrix stay normal
// (no underflow/overflow in the cofactor paths, so the determinant is computed exactly):
//   2x2: |det| <= 18 * 2^(2k);  3x3 (and the 3x3 block of an affine 4x4): |det| <= 48 * 2^(3k), cofactors
//   <= 8 * 2^(2k);  4x4 uniform: Gauss-Jordan only, 2^(4k) kept normal as well.
template <class T> struct Scales;
template <> struct Scales<float>
{
    static int k2 () { return 60; }
    static int k2sub () { return 74; }   // 2^(2*-74) = 2^-148 >= denorm_min = 2^-149
    static const int* k3sub () { static const int v[2] = {-46, -49}; return v; } // 2^(3k) subnormal, cofactors 2^(2k) normal
    static int k3all () { return 40; }
    static const int* k3 () { static const int v[7] = {-40, -2, -1, 0, 1, 2, 40}; return v; }
    static const int* k4 () { static const int v[5] = {-30, -1, 0, 1, 30}; return v; }
    static const int* k4a () { static const int v[5] = {-40, -1, 0, 1, 40}; return v; }
};
template <> struct Scales<double>
{
    static int k2 () { return 500; }
    static int k2sub () { return 537; }  // 2^(2*-537) = 2^-1074 = denorm_min
    static const int* k3sub () { static const int v[2] = {-350, -358}; return v; }
    static int k3all () { return 330; }
    static const int* k3 () { static const int v[7] = {-330, -2, -1, 0, 1, 2, 330}; return v; }
    static const int* k4 () { static const int v[5] = {-250, -1, 0, 1, 250}; return v; }
    static const int* k4a () { static const int v[5] = {-330, -1, 0, 1, 330}; return v; }
};

template <int N> inline bool last_column_unit (const int* a)
{
    for (int i = 0; i < N - 1; ++i) if (a[i * N + N - 1] != 0) return false;
    return a[N * N - 1] == 1;
}

// all forms on A under uniform scalings ks[0..nk) and, if A has the unit last column, under the
// affine-preserving scalings (k,..,k,0) for kas[0..nka)
template <class T, int N> inline void sweep (const int* a, const int* ks, int nk, const int* kas, int nka, Stats& s)
{
    Oracle<N> O;
    oracle_base<N> (a, O);
    int ce[N];
    for (int q = 0; q < nk; ++q)
    {
        for (int i = 0; i < N; ++i) ce[i] = ks[q];
        oracle_scale<N> (O, ce);
        check_forms<T, N> (O, s);
    }
    if (N > 2 && last_column_unit<N> (a))
        for (int q = 0; q < nka; ++q)
        {
            if (kas[q] == 0) { bool had0 = false; for (int z = 0; z < nk; ++z) if (ks[z] == 0) had0 = true; if (had0) continue; }
            for (int i = 0; i < N - 1; ++i) ce[i] = kas[q];
            ce[N - 1] = 0;
            oracle_scale<N> (O, ce);
            check_forms<T, N> (O, s);
        }
}

template <class T> void run ()
{
    const std::string tl = TN<T>::l ();
    const bool        th = R ().thorough ();

    // ---------------------------------------------------------------- 2x2
    if (R ().stage ("inv22." + tl))
    {
        Stats s;
        const int K = Scales<T>::k2 ();
        for (uint64_t idx = 0; idx < ex::ipow (7, 4); ++idx)
        {
            int a[4];
            ex::decode (idx, 7, 4, a, -3);
            Oracle<2> O;
            oracle_base<2> (a, O);
            // negative side continues to Scales<T>::k2sub(): there the determinant d*2^(2k) is SUBNORMAL (still exactly
            // representable: 2k >= the exponent of denorm_min) and below 1/max, while every cofactor/determinant
            // quotient is an ordinary number — a reciprocal of the determinant would overflow, the division does not
            for (int k = -Scales<T>::k2sub (); k <= K; ++k) { int ce[2] = {k, k}; oracle_scale<2> (O, ce); check_forms<T, 2> (O, s); if (k < -K) ++s.det_subnormal; }
            // graded conditioning: one column scaled (cond grows like 2^|k|); the cofactors are the entries
            // themselves and the determinant stays exact, so each quotient is a single rounding
            for (int k = -20; k <= 20; ++k)
            {
                if (!k) continue;
                int c1[2] = {k, 0}, c2[2] = {0, k};
                oracle_scale<2> (O, c1); check_forms<T, 2> (O, s);
                oracle_scale<2> (O, c2); check_forms<T, 2> (O, s);
            }
        }
        s.flush (tl, "2x2");
        R ().stage_done ("all 2401 L(3) 2x2 matrices x every uniform scale 2^k, |k| <= " + std::to_string (K) + ", and single-column scales 2^k, 0 < |k| <= 20; inverse(), inverse(false), invert(), invert(false)");
    }

    // ---------------------------------------------------------------- 3x3
    if (R ().stage ("inv33." + tl))
    {
        // quick: k in {-K,-1,0,1,K}; thorough: k in {-K,-2,-1,0,1,2,K}
        const int* k7 = Scales<T>::k3 ();
        const int  k5[5] = {k7[0], -1, 0, 1, k7[6]};
        const int* ks = th ? k7 : k5;
        const int  nk = th ? 7 : 5;
        bool ok = vf::parallel_chunks (ex::ipow (5, 9), 1u << 12, [&] (uint64_t lo, uint64_t hi, unsigned) {
            Stats s;
            int   a[9];
            for (uint64_t i = lo; i < hi; ++i) { ex::decode (i, 5, 9, a, -2); sweep<T, 3> (a, ks, nk, ks, nk, s); }
            s.flush (tl, "3x3");
        });
        // subnormal determinants (see the 2x2 stage): all 19683 {0,+-1} 3x3 x uniform scales k3sub (det 2^(3k) d) and,
        // for the affine ones, block scale k2sub-4 (2x2 block det 2^(2k) d)
        ok = vf::parallel_chunks (ex::ipow (3, 9), 1u << 7, [&] (uint64_t lo, uint64_t hi, unsigned) {
            Stats s;
            int   a[9];
            const int kb[1] = {-(Scales<T>::k2sub () - 4)};
            for (uint64_t i = lo; i < hi; ++i)
            {
                ex::decode (i, 3, 9, a, -1);
                long long before = s.nonsingular;
                sweep<T, 3> (a, Scales<T>::k3sub (), 2, kb, 1, s);
                s.det_subnormal += s.nonsingular - before;
            }
            s.flush (tl, "3x3");
        }) && ok;
        std::string b = "all 19683 {0,+-1} 3x3 x scales with a SUBNORMAL determinant; all 1953125 3x3 matrices over {0,+-1,+-2} x uniform scales 2^k, k in {" + std::to_string (ks[0]) + (th ? ",-2,-1,0,1,2," : ",-1,0,1,") + std::to_string (k7[6]) +
                        "} (and block scales (k,k,0) for the affine ones); eight forms each";
        if (th)
        {
            const int    K = Scales<T>::k3all ();
            std::vector<int> all;
            for (int k = -K; k <= K; ++k) all.push_back (k);
            ok = vf::parallel_chunks (ex::ipow (3, 9), 1u << 7, [&] (uint64_t lo, uint64_t hi, unsigned) {
                Stats s;
                int   a[9];
                for (uint64_t i = lo; i < hi; ++i) { ex::decode (i, 3, 9, a, -1); sweep<T, 3> (a, all.data (), (int) all.size (), all.data (), (int) all.size (), s); }
                s.flush (tl, "3x3");
            }) && ok;
            b += "; all 19683 {0,+-1} 3x3 x every scale |k| <= " + std::to_string (K);
        }
        if (ok) R ().stage_done (b); else R ().stage_partial (b);
    }

    // ---------------------------------------------------------------- 4x4
    if (R ().stage ("inv44." + tl))
    {
        const int *ks = Scales<T>::k4 (), *kas = Scales<T>::k4a ();
        // all 0/1 matrices
        bool ok = vf::parallel_chunks (65536, 1u << 9, [&] (uint64_t lo, uint64_t hi, unsigned) {
            Stats s;
            int   a[16];
            for (uint64_t i = lo; i < hi; ++i) { ex::decode (i, 2, 16, a, 0); sweep<T, 4> (a, ks, 5, kas, 5, s); }
            s.flush (tl, "4x4");
        });
        // affine family: 3x3 block over {0,+-1} (every sparsity and sign pattern) x translation row {-1,0,1,2}^3
        ok = vf::parallel_chunks (ex::ipow (3, 9) * 64, 1u << 11, [&] (uint64_t lo, uint64_t hi, unsigned) {
            Stats s;
            for (uint64_t i = lo; i < hi; ++i)
            {
                int blk[9], tr[3], a[16] = {0};
                ex::decode (i % 19683, 3, 9, blk, -1);
                ex::decode (i / 19683, 4, 3, tr, -1);
                for (int r = 0; r < 3; ++r) for (int c = 0; c < 3; ++c) a[r * 4 + c] = blk[r * 3 + c];
                for (int c = 0; c < 3; ++c) a[12 + c] = tr[c];
                a[15] = 1;
                static const int none = 0;
                sweep<T, 4> (a, &none, 0, kas, 5, s);
            }
            s.flush (tl, "4x4");
        }) && ok;
        // affine 4x4 whose 3x3 block has a SUBNORMAL determinant (block {0,+-1}^9, translation (1,-1,2), block scales k3sub)
        ok = vf::parallel_chunks (ex::ipow (3, 9), 1u << 8, [&] (uint64_t lo, uint64_t hi, unsigned) {
            Stats s;
            for (uint64_t i = lo; i < hi; ++i)
            {
                int blk[9], a[16] = {0};
                ex::decode (i, 3, 9, blk, -1);
                for (int r = 0; r < 3; ++r) for (int c = 0; c < 3; ++c) a[r * 4 + c] = blk[r * 3 + c];
                a[12] = 1; a[13] = -1; a[14] = 2; a[15] = 1;
                static const int none = 0;
                long long before = s.nonsingular;
                sweep<T, 4> (a, &none, 0, Scales<T>::k3sub (), 2, s);
                s.det_subnormal += s.nonsingular - before;
            }
            s.flush (tl, "4x4");
        }) && ok;
        // affine, block over {0,1,2} with two translation rows
        ok = vf::parallel_chunks (ex::ipow (3, 9) * 2, 1u << 10, [&] (uint64_t lo, uint64_t hi, unsigned) {
            Stats s;
            static const int TR[2][3] = {{0, 0, 0}, {1, -1, 2}};
            for (uint64_t i = lo; i < hi; ++i)
            {
                int blk[9], a[16] = {0};
                ex::decode (i % 19683, 3, 9, blk, 0);
                for (int r = 0; r < 3; ++r) for (int c = 0; c < 3; ++c) a[r * 4 + c] = blk[r * 3 + c];
                for (int c = 0; c < 3; ++c) a[12 + c] = TR[i / 19683][c];
                a[15] = 1;
                static const int none = 0;
                sweep<T, 4> (a, &none, 0, kas + 1, 3, s);
            }
            s.flush (tl, "4x4");
        }) && ok;
        std::string b = "all 65536 0/1 4x4 x uniform scales {" + std::to_string (ks[0]) + ",-1,0,1," + std::to_string (ks[4]) + "}; affine 4x4 with 3x3 block in {0,+-1}^9 x translation {-1,0,1,2}^3 (1259712) x block scales {" +
                        std::to_string (kas[0]) + ",-1,0,1," + std::to_string (kas[4]) + "}; affine with block in {0,1,2}^9 x 2 translations x {-1,0,1}; eight forms each";
        if (th)
        {
            // Gauss-Jordan is covariant under a uniform power-of-two scaling (no under/overflow), so the
            // full {0,+-1} lattice is swept at scale 1; the extreme scales are exercised on the 0/1 lattice
            // above.  Matrices of this lattice with a unit last column also get the 5 affine block scales.
            static const int k1[1] = {0};
            ok = vf::parallel_chunks (ex::ipow (3, 16), 1u << 13, [&] (uint64_t lo, uint64_t hi, unsigned) {
                Stats s;
                int   a[16];
                for (uint64_t i = lo; i < hi; ++i) { ex::decode (i, 3, 16, a, -1); sweep<T, 4> (a, k1, 1, kas, 5, s); }
                s.flush (tl, "4x4");
            }) && ok;
            ok = vf::parallel_chunks (ex::ipow (4, 12), 1u << 13, [&] (uint64_t lo, uint64_t hi, unsigned) {
                Stats s;
                for (uint64_t i = lo; i < hi; ++i)
                {
                    int d[12], a[16] = {0};
                    ex::decode (i, 4, 12, d, -1);
                    for (int r = 0; r < 4; ++r) for (int c = 0; c < 3; ++c) a[r * 4 + c] = d[r * 3 + c];
                    a[15] = 1;
                    static const int none = 0;
                    sweep<T, 4> (a, &none, 0, kas + 1, 3, s);
                }
                s.flush (tl, "4x4");
            }) && ok;
            b += "; all 3^16 = 43046721 {0,+-1} 4x4 at scale 1 (5 block scales for those with a unit last column); all 4^12 = 16777216 affine 4x4 over {0,+-1,2} x block scales {-1,0,1}";
        }
        if (ok) R ().stage_done (b); else R ().stage_partial (b);
    }

    // ---------------------------------------------------------------- affine fast path vs general path
    if (R ().stage ("affine-jump." + tl))
    {
        // 3x3: 2x2 block over L(2), translation L(1)^2, block scale 2^k |k| <= 4
        {
            Stats s;
            for (uint64_t i = 0; i < ex::ipow (5, 4) * 9; ++i)
            {
                int blk[4], tr[2], a[9] = {0};
                ex::decode (i % 625, 5, 4, blk, -2);
                ex::decode (i / 625, 3, 2, tr, -1);
                a[0] = blk[0]; a[1] = blk[1]; a[3] = blk[2]; a[4] = blk[3]; a[6] = tr[0]; a[7] = tr[1]; a[8] = 1;
                Oracle<3> O;
                oracle_base<3> (a, O);
                for (int k = -4; k <= 4; ++k) { int ce[3] = {k, k, 0}; oracle_scale<3> (O, ce); check_perturbed<T, 3> (O, s); ++s.st; }
            }
            s.flush (tl, "3x3");
        }
        // 4x4: 3x3 block over {0,+-1}, three translation rows, block scale 2^k |k| <= 2
        bool ok = vf::parallel_chunks (ex::ipow (3, 9) * 3, 1u << 9, [&] (uint64_t lo, uint64_t hi, unsigned) {
            Stats s;
            static const int TR[3][3] = {{0, 0, 0}, {1, -1, 2}, {2, 1, -1}};
            for (uint64_t i = lo; i < hi; ++i)
            {
                int blk[9], a[16] = {0};
                ex::decode (i % 19683, 3, 9, blk, -1);
                for (int r = 0; r < 3; ++r) for (int c = 0; c < 3; ++c) a[r * 4 + c] = blk[r * 3 + c];
                for (int c = 0; c < 3; ++c) a[12 + c] = TR[i / 19683][c];
                a[15] = 1;
                Oracle<4> O;
                oracle_base<4> (a, O);
                for (int k = -2; k <= 2; ++k) { int ce[4] = {k, k, k, 0}; oracle_scale<4> (O, ce); check_perturbed<T, 4> (O, s); ++s.st; }
            }
            s.flush (tl, "4x4");
        });
        std::string b = "every non-singular affine 3x3 (block L(2), translation L(1)^2, block scale |k|<=4) and 4x4 (block {0,+-1}^9, 3 translations, |k|<=2): last column perturbed entry by entry by +-denorm_min, +-eps (zeros) and 1+eps, 1-eps/2 (the one); general-path result against the exact inverse and against the fast-path result";
        if (ok) R ().stage_done (b); else R ().stage_partial (b);
    }
}

} // namespace c06
