// C06 — stage drivers (enumerations).  Oracles and per-case checks: c06.hpp.
#pragma once
#include "c06.hpp"

namespace c06 {

// Scale ranges: the exponents for which determinant and cofactors of every lattice matrix stay normal
// (no underflow/overflow in the cofactor paths, so the determinant is computed exactly):
//   2x2: |det| <= 18 * 2^(2k);  3x3 (and the 3x3 block of an affine 4x4): |det| <= 48 * 2^(3k), cofactors
//   <= 8 * 2^(2k);  4x4 uniform: Gauss-Jordan only, 2^(4k) kept normal as well.
template <class T> struct Scales;
template <> struct Scales<float>
{
    static int k2 () { return 60; }
    static int k2sub () { return 74; }   // 2^(2*-74) = 2^-148 >= denorm_min = 2^-149
    static const int* k3sub () { static const int v[2] = {-46, -49}; return v; } // 2^(3k) subnormal, cofactors 2^(2k) normal
    static int k3all () { return 40; }
    static const int* k3 () { static const int v[7] = {-40, -2, -1, 0, 1, 2, 40}; return v; }
    static const int* k4 () { static const int v[5] = {-30, -1, 0, 1, 30}; return v; }
    static const int* k4a () { static const int v[5] = {-40, -1, 0, 1, 40}; return v; }
    // graded (per-row / per-column) exponents and the tiny-entry exponents: K1 keeps every intermediate of an elimination
    // exact (2*K1 <= digits), K2 > digits does not
    static int g1 () { return 12; }
    static int g2 () { return 30; }
    static int gmix () { return 18; }
};
template <> struct Scales<double>
{
    static int k2 () { return 500; }
    static int k2sub () { return 537; }  // 2^(2*-537) = 2^-1074 = denorm_min
    static const int* k3sub () { static const int v[2] = {-350, -358}; return v; }
    static int k3all () { return 330; }
    static const int* k3 () { static const int v[7] = {-330, -2, -1, 0, 1, 2, 330}; return v; }
    static const int* k4 () { static const int v[5] = {-250, -1, 0, 1, 250}; return v; }
    static const int* k4a () { static const int v[5] = {-330, -1, 0, 1, 330}; return v; }
    static int g1 () { return 26; }
    static int g2 () { return 60; }
    static int gmix () { return 40; }
};

template <int N> inline bool last_column_unit (const int* a)
{
    for (int i = 0; i < N - 1; ++i) if (a[i * N + N - 1] != 0) return false;
    return a[N * N - 1] == 1;
}

// all forms on A under uniform scalings ks[0..nk) and, if A has the unit last column, under the
// affine-preserving scalings (k,..,k,0) for kas[0..nka)
template <class T, int N> inline void sweep (const int* a, const int* ks, int nk, const int* kas, int nka, Stats& s)
{
    Oracle<N> O;
    oracle_base<N> (a, O);
    int ce[N];
    for (int q = 0; q < nk; ++q)
    {
        for (int i = 0; i < N; ++i) ce[i] = ks[q];
        oracle_scale<N> (O, ce);
        check_forms<T, N> (O, s);
    }
    if (N > 2 && last_column_unit<N> (a))
        for (int q = 0; q < nka; ++q)
        {
            if (kas[q] == 0) { bool had0 = false; for (int z = 0; z < nk; ++z) if (ks[z] == 0) had0 = true; if (had0) continue; }
            for (int i = 0; i < N - 1; ++i) ce[i] = kas[q];
            ce[N - 1] = 0;
            oracle_scale<N> (O, ce);
            check_forms<T, N> (O, s);
        }
}

template <class T> void run ()
{
    const std::string tl = TN<T>::l ();
    const bool        th = R ().thorough ();

    // ---------------------------------------------------------------- 2x2
    if (R ().stage ("inv22." + tl))
    {
        Stats s;
        const int K = Scales<T>::k2 ();
        for (uint64_t idx = 0; idx < ex::ipow (7, 4); ++idx)
        {
            int a[4];
            ex::decode (idx, 7, 4, a, -3);
            Oracle<2> O;
            oracle_base<2> (a, O);
            // negative side continues to Scales<T>::k2sub(): there the determinant d*2^(2k) is SUBNORMAL (still exactly
            // representable: 2k >= the exponent of denorm_min) and below 1/max, while every cofactor/determinant
            // quotient is an ordinary number — a reciprocal of the determinant would overflow, the division does not
            for (int k = -Scales<T>::k2sub (); k <= K; ++k) { int ce[2] = {k, k}; oracle_scale<2> (O, ce); check_forms<T, 2> (O, s); if (k < -K) ++s.det_subnormal; }
            // graded conditioning: one column scaled (cond grows like 2^|k|); the cofactors are the entries
            // themselves and the determinant stays exact, so each quotient is a single rounding
            for (int k = -20; k <= 20; ++k)
            {
                if (!k) continue;
                int c1[2] = {k, 0}, c2[2] = {0, k};
                oracle_scale<2> (O, c1); check_forms<T, 2> (O, s);
                oracle_scale<2> (O, c2); check_forms<T, 2> (O, s);
            }
        }
        s.flush (tl, "2x2");
        R ().stage_done ("all 2401 L(3) 2x2 matrices x every uniform scale 2^k, |k| <= " + std::to_string (K) + ", and single-column scales 2^k, 0 < |k| <= 20; inverse(), inverse(false), invert(), invert(false)");
    }

    // ---------------------------------------------------------------- 3x3
    if (R ().stage ("inv33." + tl))
    {
        // quick: k in {-K,-1,0,1,K}; thorough: k in {-K,-2,-1,0,1,2,K}
        const int* k7 = Scales<T>::k3 ();
        const int  k5[5] = {k7[0], -1, 0, 1, k7[6]};
        const int* ks = th ? k7 : k5;
        const int  nk = th ? 7 : 5;
        bool ok = vf::parallel_chunks (ex::ipow (5, 9), 1u << 12, [&] (uint64_t lo, uint64_t hi, unsigned) {
            Stats s;
            int   a[9];
            for (uint64_t i = lo; i < hi; ++i) { ex::decode (i, 5, 9, a, -2); sweep<T, 3> (a, ks, nk, ks, nk, s); }
            s.flush (tl, "3x3");
        });
        // subnormal determinants (see the 2x2 stage): all 19683 {0,+-1} 3x3 x uniform scales k3sub (det 2^(3k) d) and,
        // for the affine ones, block scale k2sub-4 (2x2 block det 2^(2k) d)
        ok = vf::parallel_chunks (ex::ipow (3, 9), 1u << 7, [&] (uint64_t lo, uint64_t hi, unsigned) {
            Stats s;
            int   a[9];
            const int kb[1] = {-(Scales<T>::k2sub () - 4)};
            for (uint64_t i = lo; i < hi; ++i)
            {
                ex::decode (i, 3, 9, a, -1);
                long long before = s.nonsingular;
                sweep<T, 3> (a, Scales<T>::k3sub (), 2, kb, 1, s);
                s.det_subnormal += s.nonsingular - before;
            }
            s.flush (tl, "3x3");
        }) && ok;
        std::string b = "all 19683 {0,+-1} 3x3 x scales with a SUBNORMAL determinant; all 1953125 3x3 matrices over {0,+-1,+-2} x uniform scales 2^k, k in {" + std::to_string (ks[0]) + (th ? ",-2,-1,0,1,2," : ",-1,0,1,") + std::to_string (k7[6]) +
                        "} (and block scales (k,k,0) for the affine ones); eight forms each";
        if (th)
        {
            const int    K = Scales<T>::k3all ();
            std::vector<int> all;
            for (int k = -K; k <= K; ++k) all.push_back (k);
            ok = vf::parallel_chunks (ex::ipow (3, 9), 1u << 7, [&] (uint64_t lo, uint64_t hi, unsigned) {
                Stats s;
                int   a[9];
                for (uint64_t i = lo; i < hi; ++i) { ex::decode (i, 3, 9, a, -1); sweep<T, 3> (a, all.data (), (int) all.size (), all.data (), (int) all.size (), s); }
                s.flush (tl, "3x3");
            }) && ok;
            b += "; all 19683 {0,+-1} 3x3 x every scale |k| <= " + std::to_string (K);
        }
        if (ok) R ().stage_done (b); else R ().stage_partial (b);
    }

    // ---------------------------------------------------------------- 4x4
    if (R ().stage ("inv44." + tl))
    {
        const int *ks = Scales<T>::k4 (), *kas = Scales<T>::k4a ();
        // all 0/1 matrices
        bool ok = vf::parallel_chunks (65536, 1u << 9, [&] (uint64_t lo, uint64_t hi, unsigned) {
            Stats s;
            int   a[16];
            for (uint64_t i = lo; i < hi; ++i) { ex::decode (i, 2, 16, a, 0); sweep<T, 4> (a, ks, 5, kas, 5, s); }
            s.flush (tl, "4x4");
        });
        // affine family: 3x3 block over {0,+-1} (every sparsity and sign pattern) x translation row {-1,0,1,2}^3
        ok = vf::parallel_chunks (ex::ipow (3, 9) * 64, 1u << 11, [&] (uint64_t lo, uint64_t hi, unsigned) {
            Stats s;
            for (uint64_t i = lo; i < hi; ++i)
            {
                int blk[9], tr[3], a[16] = {0};
                ex::decode (i % 19683, 3, 9, blk, -1);
                ex::decode (i / 19683, 4, 3, tr, -1);
                for (int r = 0; r < 3; ++r) for (int c = 0; c < 3; ++c) a[r * 4 + c] = blk[r * 3 + c];
                for (int c = 0; c < 3; ++c) a[12 + c] = tr[c];
                a[15] = 1;
                static const int none = 0;
                sweep<T, 4> (a, &none, 0, kas, 5, s);
            }
            s.flush (tl, "4x4");
        }) && ok;
        // affine 4x4 whose 3x3 block has a SUBNORMAL determinant (block {0,+-1}^9, translation (1,-1,2), block scales k3sub)
        ok = vf::parallel_chunks (ex::ipow (3, 9), 1u << 8, [&] (uint64_t lo, uint64_t hi, unsigned) {
            Stats s;
            for (uint64_t i = lo; i < hi; ++i)
            {
                int blk[9], a[16] = {0};
                ex::decode (i, 3, 9, blk, -1);
                for (int r = 0; r < 3; ++r) for (int c = 0; c < 3; ++c) a[r * 4 + c] = blk[r * 3 + c];
                a[12] = 1; a[13] = -1; a[14] = 2; a[15] = 1;
                static const int none = 0;
                long long before = s.nonsingular;
                sweep<T, 4> (a, &none, 0, Scales<T>::k3sub (), 2, s);
                s.det_subnormal += s.nonsingular - before;
            }
            s.flush (tl, "4x4");
        }) && ok;
        // affine, block over {0,1,2} with two translation rows
        ok = vf::parallel_chunks (ex::ipow (3, 9) * 2, 1u << 10, [&] (uint64_t lo, uint64_t hi, unsigned) {
            Stats s;
            static const int TR[2][3] = {{0, 0, 0}, {1, -1, 2}};
            for (uint64_t i = lo; i < hi; ++i)
            {
                int blk[9], a[16] = {0};
                ex::decode (i % 19683, 3, 9, blk, 0);
                for (int r = 0; r < 3; ++r) for (int c = 0; c < 3; ++c) a[r * 4 + c] = blk[r * 3 + c];
                for (int c = 0; c < 3; ++c) a[12 + c] = TR[i / 19683][c];
                a[15] = 1;
                static const int none = 0;
                sweep<T, 4> (a, &none, 0, kas + 1, 3, s);
            }
            s.flush (tl, "4x4");
        }) && ok;
        std::string b = "all 65536 0/1 4x4 x uniform scales {" + std::to_string (ks[0]) + ",-1,0,1," + std::to_string (ks[4]) + "}; affine 4x4 with 3x3 block in {0,+-1}^9 x translation {-1,0,1,2}^3 (1259712) x block scales {" +
                        std::to_string (kas[0]) + ",-1,0,1," + std::to_string (kas[4]) + "}; affine with block in {0,1,2}^9 x 2 translations x {-1,0,1}; eight forms each";
        if (th)
        {
            // Gauss-Jordan is covariant under a uniform power-of-two scaling (no under/overflow), so the
            // full {0,+-1} lattice is swept at scale 1; the extreme scales are exercised on the 0/1 lattice
            // above.  Matrices of this lattice with a unit last column also get the 5 affine block scales.
            static const int k1[1] = {0};
            ok = vf::parallel_chunks (ex::ipow (3, 16), 1u << 13, [&] (uint64_t lo, uint64_t hi, unsigned) {
                Stats s;
                int   a[16];
                for (uint64_t i = lo; i < hi; ++i) { ex::decode (i, 3, 16, a, -1); sweep<T, 4> (a, k1, 1, kas, 5, s); }
                s.flush (tl, "4x4");
            }) && ok;
            ok = vf::parallel_chunks (ex::ipow (4, 12), 1u << 13, [&] (uint64_t lo, uint64_t hi, unsigned) {
                Stats s;
                for (uint64_t i = lo; i < hi; ++i)
                {
                    int d[12], a[16] = {0};
                    ex::decode (i, 4, 12, d, -1);
                    for (int r = 0; r < 4; ++r) for (int c = 0; c < 3; ++c) a[r * 4 + c] = d[r * 3 + c];
                    a[15] = 1;
                    static const int none = 0;
                    sweep<T, 4> (a, &none, 0, kas + 1, 3, s);
                }
                s.flush (tl, "4x4");
            }) && ok;
            b += "; all 3^16 = 43046721 {0,+-1} 4x4 at scale 1 (5 block scales for those with a unit last column); all 4^12 = 16777216 affine 4x4 over {0,+-1,2} x block scales {-1,0,1}";
        }
        if (ok) R ().stage_done (b); else R ().stage_partial (b);
    }

    // ---------------------------------------------------------------- affine fast path vs general path
    if (R ().stage ("affine-jump." + tl))
    {
        // 3x3: 2x2 block over L(2), translation L(1)^2, block scale 2^k |k| <= 4
        {
            Stats s;
            for (uint64_t i = 0; i < ex::ipow (5, 4) * 9; ++i)
            {
                int blk[4], tr[2], a[9] = {0};
                ex::decode (i % 625, 5, 4, blk, -2);
                ex::decode (i / 625, 3, 2, tr, -1);
                a[0] = blk[0]; a[1] = blk[1]; a[3] = blk[2]; a[4] = blk[3]; a[6] = tr[0]; a[7] = tr[1]; a[8] = 1;
                Oracle<3> O;
                oracle_base<3> (a, O);
                for (int k = -4; k <= 4; ++k) { int ce[3] = {k, k, 0}; oracle_scale<3> (O, ce); check_perturbed<T, 3> (O, s); ++s.st; }
            }
            s.flush (tl, "3x3");
        }
        // 4x4: 3x3 block over {0,+-1}, three translation rows, block scale 2^k |k| <= 2
        bool ok = vf::parallel_chunks (ex::ipow (3, 9) * 3, 1u << 9, [&] (uint64_t lo, uint64_t hi, unsigned) {
            Stats s;
            static const int TR[3][3] = {{0, 0, 0}, {1, -1, 2}, {2, 1, -1}};
            for (uint64_t i = lo; i < hi; ++i)
            {
                int blk[9], a[16] = {0};
                ex::decode (i % 19683, 3, 9, blk, -1);
                for (int r = 0; r < 3; ++r) for (int c = 0; c < 3; ++c) a[r * 4 + c] = blk[r * 3 + c];
                for (int c = 0; c < 3; ++c) a[12 + c] = TR[i / 19683][c];
                a[15] = 1;
                Oracle<4> O;
                oracle_base<4> (a, O);
                for (int k = -2; k <= 2; ++k) { int ce[4] = {k, k, k, 0}; oracle_scale<4> (O, ce); check_perturbed<T, 4> (O, s); ++s.st; }
            }
            s.flush (tl, "4x4");
        });
        std::string b = "every non-singular affine 3x3 (block L(2), translation L(1)^2, block scale |k|<=4) and 4x4 (block {0,+-1}^9, 3 translations, |k|<=2): last column perturbed entry by entry by +-denorm_min, +-eps (zeros) and 1+eps, 1-eps/2 (the one); general-path result against the exact inverse and against the fast-path result";
        if (ok) R ().stage_done (b); else R ().stage_partial (b);
    }
    // ---------------------------------------------------------------- graded row / column scalings (audit2 S2, S3)
    // M = diag(2^r) A diag(2^c).  Uniform and affine-block column scalings (the stages above) never change which row
    // holds the largest entry of a column and never grade the columns of a non-affine matrix; these do.  The exact
    // inverse stays adj/det scaled entrywise; on singular A the determinant-based forms still compute an exact zero
    // (all terms of a determinant share one exponent) and the provable-zero-pivot classes are invariant (an
    // elimination with a given pivot order commutes exactly with power-of-two row and column scalings).
    if (R ().stage ("graded-scaling." + tl))
    {
        const int K1 = Scales<T>::g1 (), K2 = Scales<T>::g2 (), KM = Scales<T>::gmix ();
        const int e5[5] = {0, -K1, K1, -K2, K2}, e3[3] = {0, -K2, K2}, em[3] = {0, -KM, KM};
        const int* ev = th ? e5 : e3;
        const int  ne = th ? 5 : 3;
        // 3x3: all {0,+-1}^9 x row exponents ev^3 (columns 0), x column exponents ev^3 (rows 0); thorough: x em^3 x em^3 mixed
        const uint64_t n3 = ex::ipow (ne, 3);
        bool ok = vf::parallel_chunks (ex::ipow (3, 9), 1u << 6, [&] (uint64_t lo, uint64_t hi, unsigned) {
            Stats s;
            int   a[9];
            const int zero[3] = {0, 0, 0};
            for (uint64_t i = lo; i < hi; ++i)
            {
                ex::decode (i, 3, 9, a, -1);
                Oracle<3> O;
                oracle_base<3> (a, O);
                for (uint64_t q = 1; q < n3; ++q)
                {
                    int d[3], e[3];
                    ex::decode (q, ne, 3, d, 0);
                    for (int z = 0; z < 3; ++z) e[z] = ev[d[z]];
                    oracle_scale2<3> (O, e, zero); check_forms<T, 3> (O, s);
                    if (e[0] == e[1] && e[1] == e[2]) continue; // uniform column scalings: stage inv33
                    oracle_scale2<3> (O, zero, e); check_forms<T, 3> (O, s);
                }
                if (th)
                    for (uint64_t q = 0; q < 27 * 27; ++q)
                    {
                        int d[6], r[3], c[3];
                        ex::decode (q, 3, 6, d, 0);
                        bool rz = true, cz = true;
                        for (int z = 0; z < 3; ++z) { r[z] = em[d[z]]; c[z] = em[d[3 + z]]; if (r[z]) rz = false; if (c[z]) cz = false; }
                        if (rz || cz) continue;
                        oracle_scale2<3> (O, r, c); check_forms<T, 3> (O, s);
                    }
            }
            s.flush (tl, "3x3");
        });
        // 4x4: all 0/1 x row exponents; quick {0,K2}^4 and one row 2^-K2, thorough {0,+-K2}^4 and one-signed K1; column exponents: one column +-K2
        // (thorough: one-signed {0,+-K2}^4)
        ok = vf::parallel_chunks (65536, 1u << 7, [&] (uint64_t lo, uint64_t hi, unsigned) {
            Stats s;
            int   a[16];
            const int zero[4] = {0, 0, 0, 0};
            for (uint64_t i = lo; i < hi; ++i)
            {
                ex::decode (i, 2, 16, a, 0);
                Oracle<4> O;
                oracle_base<4> (a, O);
                if (th)
                    for (uint64_t q = 1; q < 81; ++q)
                    {   // every sign mix of the larger exponent
                        int d[4], e[4];
                        ex::decode (q, 3, 4, d, 0);
                        bool one_signed = true;
                        for (int z = 0; z < 4; ++z) { e[z] = e3[d[z]]; }
                        for (int z = 0; z < 4; ++z) for (int y = 0; y < 4; ++y) if (e[z] * e[y] < 0) one_signed = false;
                        if (one_signed) continue; // below
                        oracle_scale2<4> (O, e, zero); check_forms<T, 4> (O, s);
                    }
                for (int sg = -1; sg <= 1; sg += 2)
                    for (int q = 1; q < 16; ++q)
                    {
                        int e[4], e1[4];
                        for (int z = 0; z < 4; ++z) { e[z] = ((q >> z) & 1) ? sg * K2 : 0; e1[z] = ((q >> z) & 1) ? sg * K1 : 0; }
                        if (th || sg > 0 || (q & (q - 1)) == 0) { oracle_scale2<4> (O, e, zero); check_forms<T, 4> (O, s); }
                        if (th) { oracle_scale2<4> (O, e1, zero); check_forms<T, 4> (O, s); }
                        if (q == 15) continue; // uniform column scaling: stage inv44
                        if (th || (q & (q - 1)) == 0) { oracle_scale2<4> (O, zero, e); check_forms<T, 4> (O, s); }
                    }
            }
            s.flush (tl, "4x4");
        }) && ok;
        // 4x4 affine: block {0,+-1}^9, translation (1,-1,2); block rows graded {0,+-K2}^3 (row 3 unscaled keeps the unit corner),
        // block columns graded {0,+-K2}^3
        ok = vf::parallel_chunks (ex::ipow (3, 9), 1u << 6, [&] (uint64_t lo, uint64_t hi, unsigned) {
            Stats s;
            const int zero[4] = {0, 0, 0, 0};
            for (uint64_t i = lo; i < hi; ++i)
            {
                int blk[9], a[16] = {0};
                ex::decode (i, 3, 9, blk, -1);
                for (int r = 0; r < 3; ++r) for (int c = 0; c < 3; ++c) a[r * 4 + c] = blk[r * 3 + c];
                a[12] = 1; a[13] = -1; a[14] = 2; a[15] = 1;
                Oracle<4> O;
                oracle_base<4> (a, O);
                for (uint64_t q = 1; q < 27; ++q)
                {
                    int d[3], e[4] = {0, 0, 0, 0};
                    ex::decode (q, 3, 3, d, 0);
                    for (int z = 0; z < 3; ++z) e[z] = e3[d[z]];
                    oracle_scale2<4> (O, e, zero); check_forms<T, 4> (O, s);
                    if (e[0] == e[1] && e[1] == e[2]) continue;
                    oracle_scale2<4> (O, zero, e); check_forms<T, 4> (O, s);
                }
            }
            s.flush (tl, "4x4");
        }) && ok;
        std::string b = "all 19683 {0,+-1} 3x3 x row exponents {0,+-" + std::string (th ? std::to_string (K1) + ",+-" : "") + std::to_string (K2) + "}^3 and x column exponents of the same set" +
                        (th ? " and x mixed row x column exponents {0,+-" + std::to_string (KM) + "}^3 x {0,+-" + std::to_string (KM) + "}^3" : "") +
                        "; all 65536 0/1 4x4 x " + (th ? "row exponents {0,+-" + std::to_string (K2) + "}^4 and one-signed {0,+-" + std::to_string (K1) + "}^4, column exponents one-signed {0,+-" + std::to_string (K2) + "}^4"
                                                       : "row exponents {0," + std::to_string (K2) + "}^4 and one row scaled by 2^-" + std::to_string (K2) + ", one column scaled by 2^+-" + std::to_string (K2)) +
                        "; affine 4x4 (block {0,+-1}^9, translation (1,-1,2)) x block-row and block-column exponents {0,+-" + std::to_string (K2) + "}^3; eight forms each";
        if (ok) R ().stage_done (b); else R ().stage_partial (b);
    }

    // ---------------------------------------------------------------- tiny entry (pivot magnitude; nearly singular)
    if (R ().stage ("tiny-entry." + tl))
    {
        const int K1 = Scales<T>::g1 (), K2 = Scales<T>::g2 (), KU = std::numeric_limits<T>::digits - 2;
        // 3x3: every {0,+-1}^9 matrix, every zero entry replaced by +-2^-K1, +-2^-K2, every non-zero entry moved by +-2^-KU (two ulps of 1)
        bool ok = vf::parallel_chunks (ex::ipow (3, 9), 1u << 6, [&] (uint64_t lo, uint64_t hi, unsigned) {
            Stats s;
            int   a[9];
            for (uint64_t i = lo; i < hi; ++i)
            {
                ex::decode (i, 3, 9, a, -1);
                i128 A[9], adj[9], det = 0;
                for (int z = 0; z < 9; ++z) A[z] = a[z];
                ex::adj_exact (A, 3, adj);
                for (int j = 0; j < 3; ++j) det += A[j] * adj[j * 3];
                for (int z = 0; z < 9; ++z)
                    for (int sg = -1; sg <= 1; sg += 2)
                    {
                        if (a[z]) { check_tiny<T, 3> (a, adj, det, z / 3, z % 3, sg, KU, s); continue; }
                        check_tiny<T, 3> (a, adj, det, z / 3, z % 3, sg, K1, s); check_tiny<T, 3> (a, adj, det, z / 3, z % 3, sg, K2, s);
                    }
            }
            s.flush (tl, "3x3");
        });
        // 2x2 over L(2): the determinant-based form only
        {
            Stats s;
            for (uint64_t i = 0; i < 625; ++i)
            {
                int a[4];
                ex::decode (i, 5, 4, a, -2);
                i128 A[4], adj[4], det = 0;
                for (int z = 0; z < 4; ++z) A[z] = a[z];
                ex::adj_exact (A, 2, adj);
                for (int j = 0; j < 2; ++j) det += A[j] * adj[j * 2];
                for (int z = 0; z < 4; ++z)
                    for (int sg = -1; sg <= 1; sg += 2)
                    {
                        if (a[z]) { check_tiny<T, 2> (a, adj, det, z / 2, z % 2, sg, KU, s); continue; }
                        check_tiny<T, 2> (a, adj, det, z / 2, z % 2, sg, K1, s); check_tiny<T, 2> (a, adj, det, z / 2, z % 2, sg, K2, s);
                    }
            }
            s.flush (tl, "2x2");
        }
        // 4x4: every 0/1 matrix, every zero entry replaced by +-2^-K2 (thorough: and +-2^-K1; and the affine family with block {0,+-1}^9)
        ok = vf::parallel_chunks (65536, 1u << 7, [&] (uint64_t lo, uint64_t hi, unsigned) {
            Stats s;
            int   a[16];
            for (uint64_t i = lo; i < hi; ++i)
            {
                ex::decode (i, 2, 16, a, 0);
                i128 A[16], adj[16], det = 0;
                for (int z = 0; z < 16; ++z) A[z] = a[z];
                ex::adj_exact (A, 4, adj);
                for (int j = 0; j < 4; ++j) det += A[j] * adj[j * 4];
                for (int z = 0; z < 16; ++z)
                    for (int sg = -1; sg <= 1; sg += 2)
                    {
                        if (a[z]) { if (th) check_tiny<T, 4> (a, adj, det, z / 4, z % 4, sg, KU, s); continue; }
                        check_tiny<T, 4> (a, adj, det, z / 4, z % 4, sg, K2, s); if (th || sg > 0) check_tiny<T, 4> (a, adj, det, z / 4, z % 4, sg, K1, s);
                    }
            }
            s.flush (tl, "4x4");
        }) && ok;
        ok = vf::parallel_chunks (ex::ipow (3, 9), 1u << 6, [&] (uint64_t lo, uint64_t hi, unsigned) {
            Stats s;
            for (uint64_t i = lo; i < hi; ++i)
            {
                int blk[9], a[16] = {0};
                ex::decode (i, 3, 9, blk, -1);
                for (int r = 0; r < 3; ++r) for (int c = 0; c < 3; ++c) a[r * 4 + c] = blk[r * 3 + c];
                a[12] = 1; a[13] = 0; a[14] = -1; a[15] = 1;
                i128 A[16], adj[16], det = 0;
                for (int z = 0; z < 16; ++z) A[z] = a[z];
                ex::adj_exact (A, 4, adj);
                for (int j = 0; j < 4; ++j) det += A[j] * adj[j * 4];
                for (int z = 0; z < 16; ++z)
                {
                    if (a[z]) continue;
                    for (int sg = -1; sg <= 1; sg += 2) { check_tiny<T, 4> (a, adj, det, z / 4, z % 4, sg, K2, s); if (th) check_tiny<T, 4> (a, adj, det, z / 4, z % 4, sg, K1, s); }
                }
            }
            s.flush (tl, "4x4");
        }) && ok;
        std::string b = "every zero entry of every {0,+-1,+-2} 2x2, {0,+-1} 3x3 and 0/1 4x4 replaced by +-2^-" + std::to_string (K1) + ", +-2^-" + std::to_string (K2) + (th ? "" : " (4x4: -2^-" + std::to_string (K1) + " in the thorough tier only)") + ", every non-zero entry of the 2x2 and 3x3" + (th ? " and 4x4" : "") +
                        " moved by +-2^-" + std::to_string (KU) + "; every zero entry of every affine 4x4 (block {0,+-1}^9, translation (1,0,-1)) replaced by +-2^-" + std::to_string (K2) + (th ? ", +-2^-" + std::to_string (K1) : "") +
                        "; eight forms against the exact rational inverse";
        if (ok) R ().stage_done (b); else R ().stage_partial (b);
    }

    // ---------------------------------------------------------------- non-zero determinant, overflowing quotients (audit2 S1)
    if (R ().stage ("overflow-guard." + tl))
    {
        // exponent b of the scaling: the exact quotients are (adj/det) * 2^b with |adj/det| in [1/48, 8]; the library's
        // threshold is 2^G (G = emax-1), "must be identity" starts at 2^(G+2)
        const int G = Lim<T>::guard_exp ();
        std::vector<int> bs;
        if (th) for (int b = G - 6; b <= G + 8; ++b) bs.push_back (b);
        else { const int q[6] = {G - 6, G - 1, G, G + 2, G + 3, G + 8}; bs.assign (q, q + 6); }
        // families on an n x n block (n = N, or N-1 for the affine family): one column scaled by 2^-b, one row scaled by 2^-b,
        // and row j0 by 2^-(b/2) together with column i0 by 2^-(b-b/2) (isolates the single quotient (i0,j0))
        auto families = [&] (int n, int N, int fam, int b, int* re, int* ce) {
            for (int z = 0; z < N; ++z) re[z] = ce[z] = 0;
            if (fam < n) ce[fam] = -b;
            else if (fam < 2 * n) re[fam - n] = -b;
            else { int f = fam - 2 * n; re[f / n] = -(b / 2); ce[f % n] = -(b - b / 2); }
        };
        // 2x2: all L(3)
        {
            Stats s;
            for (uint64_t i = 0; i < ex::ipow (7, 4); ++i)
            {
                int a[4], re[2], ce[2];
                ex::decode (i, 7, 4, a, -3);
                Oracle<2> O;
                oracle_base<2> (a, O);
                if (O.singular) continue;
                for (int fam = 0; fam < 8; ++fam)
                    for (int b : bs) { families (2, 2, fam, b, re, ce); oracle_scale2<2> (O, re, ce); check_overflow<T, 2> (O, s); }
            }
            s.flush (tl, "2x2");
        }
        // 3x3: all {0,+-1}^9 (the general path, and the affine path for those with a unit last column and an untouched last row/column);
        // affine 3x3: block L(2), translation {0,+-1}^2
        bool ok = vf::parallel_chunks (ex::ipow (3, 9), 1u << 6, [&] (uint64_t lo, uint64_t hi, unsigned) {
            Stats s;
            int   a[9], re[3], ce[3];
            for (uint64_t i = lo; i < hi; ++i)
            {
                ex::decode (i, 3, 9, a, -1);
                Oracle<3> O;
                oracle_base<3> (a, O);
                if (O.singular) continue;
                for (int fam = 0; fam < 15; ++fam)
                    for (int b : bs) { families (3, 3, fam, b, re, ce); oracle_scale2<3> (O, re, ce); check_overflow<T, 3> (O, s); }
            }
            s.flush (tl, "3x3");
        });
        {
            Stats s;
            for (uint64_t i = 0; i < 625 * 9; ++i)
            {
                int blk[4], tr[2], a[9] = {0}, re[3], ce[3];
                ex::decode (i % 625, 5, 4, blk, -2);
                ex::decode (i / 625, 3, 2, tr, -1);
                a[0] = blk[0]; a[1] = blk[1]; a[3] = blk[2]; a[4] = blk[3]; a[6] = tr[0]; a[7] = tr[1]; a[8] = 1;
                Oracle<3> O;
                oracle_base<3> (a, O);
                if (O.singular) continue;
                for (int fam = 0; fam < 8; ++fam)
                    for (int b : bs) { families (2, 3, fam, b, re, ce); oracle_scale2<3> (O, re, ce); check_overflow<T, 3> (O, s); }
            }
            s.flush (tl, "3x3");
        }
        // 4x4 affine: block {0,+-1}^9, translation (1,-1,1) (thorough: and (0,0,0)); |translation| <= 1 keeps the exact
        // translation row below 3 x the block quotients
        ok = vf::parallel_chunks (ex::ipow (3, 9) * (th ? 2 : 1), 1u << 6, [&] (uint64_t lo, uint64_t hi, unsigned) {
            Stats s;
            for (uint64_t i = lo; i < hi; ++i)
            {
                int blk[9], a[16] = {0}, re[4], ce[4];
                ex::decode (i % 19683, 3, 9, blk, -1);
                for (int r = 0; r < 3; ++r) for (int c = 0; c < 3; ++c) a[r * 4 + c] = blk[r * 3 + c];
                if (i < 19683) { a[12] = 1; a[13] = -1; a[14] = 1; }
                a[15] = 1;
                Oracle<4> O;
                oracle_base<4> (a, O);
                if (O.singular) continue;
                for (int fam = 0; fam < 15; ++fam)
                    for (int b : bs) { families (3, 4, fam, b, re, ce); oracle_scale2<4> (O, re, ce); check_overflow<T, 4> (O, s); }
            }
            s.flush (tl, "4x4");
        }) && ok;
        std::string b = "every non-singular L(3) 2x2, {0,+-1} 3x3, affine 3x3 (block L(2), translation {0,+-1}^2) and affine 4x4 (block {0,+-1}^9, translation (1,-1,1)" + std::string (th ? " and 0" : "") +
                        ") x {one column, one row, one row and one column} of the (block) scaled by 2^-b, b in " + (th ? "[" + std::to_string (G - 6) + "," + std::to_string (G + 8) + "]" : "{G-6,G-1,G,G+2,G+3,G+8}, G=" + std::to_string (G)) +
                        ": determinant-based forms return the identity when an exact quotient reaches 2^" + std::to_string (G + 2) + ", a finite accurate inverse when all are below max/4";
        if (ok) R ().stage_done (b); else R ().stage_partial (b);
    }
}

} // namespace c06
