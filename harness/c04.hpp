// C04 — aggregates are component-wise: operators in every spelling, equality predicates,
// accessors/layout, converting and interop constructors, stream output.
//
// Shared machinery of the C04 harness. The configuration product
//     (class template) x (element type) x (operator) x (spelling)
// is generated from the X-macro tables below; every (template, element type) pair the headers
// provide a typedef for is instantiated in one of the c04_*.cpp TUs and run.
//
// Oracle: the scalar operation of the *same C++ element type* applied to the corresponding
// components (for `half` that is float arithmetic rounded once to half, for short / unsigned
// char it is int arithmetic narrowed modulo 2^n), compared bitwise (NaN == NaN of the same sign).
// No tolerance anywhere in this property.
//
// Input alphabets are produced by out-of-line functions in c04_main.cpp so that no operand is a
// compile-time constant in the TU that applies the operator (no constant folding of inf-inf etc.
// on one side only).
#pragma once
#include "../engine/exact.hpp"
#include "../engine/report.hpp"

#include <ImathColor.h>
#include <ImathMatrix.h>
#include <ImathQuat.h>
#include <ImathShear.h>
#include <ImathVec.h>
#include <half.h>

#include <csetjmp>
#include <csignal>
#include <functional>
#include <iomanip>
#include <limits>
#include <sstream>
#include <type_traits>

namespace c04 {

using namespace IMATH_NAMESPACE;
using vf::R;

// ------------------------------------------------------------------------------------------
// jobs: every TU registers closures tagged with the stage they belong to; main runs them
// 16-way in parallel, stage by stage.
// ------------------------------------------------------------------------------------------
struct Job
{
    const char*            stage;
    std::function<void ()> fn;
};
typedef std::vector<Job> Jobs;

// A broken operator can divide an integer component by the wrong (zero) divisor: SIGFPE. The integer
// division cases run under this guard (handler installed by main, siglongjmp back) so that the trap is
// reported as a violation of the operator instead of killing the harness.
extern thread_local sigjmp_buf* g_trap;

static const char* const ST_ARITH  = "arith";
static const char* const ST_EQ     = "equality";
static const char* const ST_LAYOUT = "layout-convert-interop";
static const char* const ST_STREAM = "stream";

// ------------------------------------------------------------------------------------------
// element types
// ------------------------------------------------------------------------------------------
#define C04_ALL_ELEMS(X) X (short) X (int) X (int64_t) X (half) X (float) X (double) X (uchar)
typedef unsigned char uchar;

template <class T> struct ElName;
#define C04_NAME(T)                                                                                \
    template <> struct ElName<T>                                                                   \
    {                                                                                              \
        static const char* s () { return #T; }                                                     \
    };
C04_ALL_ELEMS (C04_NAME)
#undef C04_NAME

template <class T> struct is_flt : std::is_floating_point<T> {};
template <> struct is_flt<half> : std::true_type {};

template <class T> inline std::string show (T v) { return vf::fmt (v); }
inline std::string show (half h)
{
    char b[48];
    snprintf (b, sizeof b, "half:0x%04x(%g)", (unsigned) h.bits (), (double) (float) h);
    return b;
}
template <class T> inline std::string show_tuple (const T* v, int n)
{
    std::string s = "[";
    for (int i = 0; i < n; ++i) s += (i ? " " : "") + show (v[i]);
    return s + "]";
}

// bitwise identity; NaN matches NaN of the same sign (payloads may legitimately differ when the
// compiler commutes a commutative operation with two NaN operands)
template <class T> inline bool el_same (T a, T b) { return ex::same (a, b); }
inline bool el_same (half a, half b)
{
    uint16_t x = a.bits (), y = b.bits ();
    bool     na = (x & 0x7fff) > 0x7c00, nb = (y & 0x7fff) > 0x7c00;
    if (na || nb) return na && nb && !((x ^ y) & 0x8000);
    return x == y;
}

// input-class predicates (evaluated on operands only)
template <class T, bool F = is_flt<T>::value> struct Pred
{   // integral
    static bool nan (T) { return false; }
    static bool inf (T) { return false; }
    static bool negzero (T) { return false; }
    static bool denorm (T) { return false; }
    static bool extreme (T v) { return v == std::numeric_limits<T>::max () || v == std::numeric_limits<T>::min (); }
    static bool zero (T v) { return v == T (0); }
};
template <class T> struct Pred<T, true>
{
    static bool   nan (T v) { return v != v; }
    static bool   inf (T v) { return !nan (v) && std::isinf ((double) v); }
    static bool   negzero (T v) { return (double) v == 0.0 && std::signbit ((double) v); }
    static bool   denorm (T v)
    {
        double a = std::fabs ((double) v);
        return a > 0 && a < (double) std::numeric_limits<T>::min ();
    }
    static bool extreme (T v) { return std::fabs ((double) v) == (double) std::numeric_limits<T>::max (); }
    static bool zero (T v) { return (double) v == 0.0; }
};

// ---- alphabets (defined, and explicitly instantiated, in c04_main.cpp) ------------------------
// B(T): +-0, +-denorm_min, +-min, +-1, 1-ulp, 1+ulp, +-max, +-inf, NaN  /  0, +-1, +-2, min, min+1, max-1, max
template <class T> const std::vector<T>& alphaB ();
// S(T): reduced special set: +0, -0, 1, +inf, NaN  /  0, 1, -1 (or 2), min, max
template <class T> const std::vector<T>& alphaS ();
// generic tuples (distinct primes / negated primes / dyadic fractions or large-over-small integers)
enum { NGENERIC = 3 };
template <class T> void generic_tuple (int g, int n, T* a, T* b);
template <class T> T    generic_scalar (int g, int n);

// ------------------------------------------------------------------------------------------
// scalar oracles: the C++ scalar operation of type T, plus the domain on which it is defined
// (no signed overflow, no integer division by zero, no INT_MIN / -1)
// ------------------------------------------------------------------------------------------
template <class T, bool Wide = std::is_integral<T>::value && std::is_signed<T>::value && sizeof (T) >= sizeof (int)> struct IntDom
{
    static bool add (T, T) { return true; }
    static bool sub (T, T) { return true; }
    static bool mul (T, T) { return true; }
    static bool neg (T) { return true; }
    static bool div (T, T b) { return !std::is_integral<T>::value || b != T (0); }
};
template <class T> struct IntDom<T, true>
{
    static bool add (T a, T b) { T r; return !__builtin_add_overflow (a, b, &r); }
    static bool sub (T a, T b) { T r; return !__builtin_sub_overflow (a, b, &r); }
    static bool mul (T a, T b) { T r; return !__builtin_mul_overflow (a, b, &r); }
    static bool neg (T a) { return a != std::numeric_limits<T>::min (); }
    static bool div (T a, T b) { return b != 0 && !(a == std::numeric_limits<T>::min () && b == T (-1)); }
};
// does the int-promoted result fall outside T (short / unsigned char wrap)?
template <class T, bool Small = std::is_integral<T>::value && (sizeof (T) < sizeof (int))> struct Wrap
{
    static bool chk (int, T) { return false; }
};
template <class T> struct Wrap<T, true>
{
    static bool chk (int wide, T narrowed) { return wide != (int) narrowed; }
};
template <class T, bool Small = std::is_integral<T>::value && (sizeof (T) < sizeof (int))> struct WideOp
{
    static bool add (T, T) { return false; }
    static bool sub (T, T) { return false; }
    static bool mul (T, T) { return false; }
    static bool div (T, T) { return false; }
    static bool neg (T) { return false; }
};
template <class T> struct WideOp<T, true>
{
    static bool add (T a, T b) { return Wrap<T>::chk ((int) a + (int) b, T (a + b)); }
    static bool sub (T a, T b) { return Wrap<T>::chk ((int) a - (int) b, T (a - b)); }
    static bool mul (T a, T b) { return Wrap<T>::chk ((int) a * (int) b, T (a * b)); }
    static bool div (T a, T b) { return Wrap<T>::chk ((int) a / (int) b, T (a / b)); }
    static bool neg (T a) { return Wrap<T>::chk (-(int) a, T (-a)); }
};

template <class T> struct Op2
{
    bool (*ok) (T, T);
    T (*eval) (T, T);
    bool (*wraps) (T, T);
    bool is_div;
};
template <class T> struct Op1
{
    bool (*ok) (T);
    T (*eval) (T);
    bool (*wraps) (T);
};
template <class T> struct Orc
{
    static T add (T a, T b) { return T (a + b); }
    static T sub (T a, T b) { return T (a - b); }
    static T mul (T a, T b) { return T (a * b); }
    static T div (T a, T b) { return T (a / b); }
    static T neg (T a) { return T (-a); }
    static T id (T a) { return a; }
    static bool ok1 (T) { return true; }
    static bool nowrap1 (T) { return false; }
    static Op2<T> o_add () { return {&IntDom<T>::add, &add, &WideOp<T>::add, false}; }
    static Op2<T> o_sub () { return {&IntDom<T>::sub, &sub, &WideOp<T>::sub, false}; }
    static Op2<T> o_mul () { return {&IntDom<T>::mul, &mul, &WideOp<T>::mul, false}; }
    static Op2<T> o_div () { return {&IntDom<T>::div, &div, &WideOp<T>::div, true}; }
    static Op1<T> o_neg () { return {&IntDom<T>::neg, &neg, &WideOp<T>::neg}; }
    static Op1<T> o_id () { return {&ok1, &id, &nowrap1}; }
};

// ------------------------------------------------------------------------------------------
// aggregate traits: slot count, element type, *named-member* access (independent of the
// operator[] / constructors under test), N-ary constructor, family capabilities.
// ------------------------------------------------------------------------------------------
enum Family { F_VEC, F_QUAT, F_MATRIX };
template <class A> struct Agg;

template <class T> struct Agg<Vec2<T>>
{
    typedef T E; enum { N = 2, FAM = F_VEC, ROWS = 0 };
    static const char* name () { return "Vec2"; }
    static const char* slot (int i) { static const char* s[] = {"x", "y"}; return s[i]; }
    static T* addr (Vec2<T>& a, int i) { return i == 0 ? &a.x : &a.y; }
    static Vec2<T> ctor (const T* v) { return Vec2<T> (v[0], v[1]); }
};
template <class T> struct Agg<Vec3<T>>
{
    typedef T E; enum { N = 3, FAM = F_VEC, ROWS = 0 };
    static const char* name () { return "Vec3"; }
    static const char* slot (int i) { static const char* s[] = {"x", "y", "z"}; return s[i]; }
    static T* addr (Vec3<T>& a, int i) { return i == 0 ? &a.x : i == 1 ? &a.y : &a.z; }
    static Vec3<T> ctor (const T* v) { return Vec3<T> (v[0], v[1], v[2]); }
};
template <class T> struct Agg<Vec4<T>>
{
    typedef T E; enum { N = 4, FAM = F_VEC, ROWS = 0 };
    static const char* name () { return "Vec4"; }
    static const char* slot (int i) { static const char* s[] = {"x", "y", "z", "w"}; return s[i]; }
    static T* addr (Vec4<T>& a, int i) { return i == 0 ? &a.x : i == 1 ? &a.y : i == 2 ? &a.z : &a.w; }
    static Vec4<T> ctor (const T* v) { return Vec4<T> (v[0], v[1], v[2], v[3]); }
};
template <class T> struct Agg<Color3<T>>
{
    typedef T E; enum { N = 3, FAM = F_VEC, ROWS = 0 };
    static const char* name () { return "Color3"; }
    static const char* slot (int i) { static const char* s[] = {"x", "y", "z"}; return s[i]; }
    static T* addr (Color3<T>& a, int i) { return i == 0 ? &a.x : i == 1 ? &a.y : &a.z; }
    static Color3<T> ctor (const T* v) { return Color3<T> (v[0], v[1], v[2]); }
};
template <class T> struct Agg<Color4<T>>
{
    typedef T E; enum { N = 4, FAM = F_VEC, ROWS = 0 };
    static const char* name () { return "Color4"; }
    static const char* slot (int i) { static const char* s[] = {"r", "g", "b", "a"}; return s[i]; }
    static T* addr (Color4<T>& a, int i) { return i == 0 ? &a.r : i == 1 ? &a.g : i == 2 ? &a.b : &a.a; }
    static Color4<T> ctor (const T* v) { return Color4<T> (v[0], v[1], v[2], v[3]); }
};
template <class T> struct Agg<Shear6<T>>
{
    typedef T E; enum { N = 6, FAM = F_VEC, ROWS = 0 };
    static const char* name () { return "Shear6"; }
    static const char* slot (int i) { static const char* s[] = {"xy", "xz", "yz", "yx", "zx", "zy"}; return s[i]; }
    static T* addr (Shear6<T>& a, int i)
    {
        switch (i) { case 0: return &a.xy; case 1: return &a.xz; case 2: return &a.yz; case 3: return &a.yx; case 4: return &a.zx; default: return &a.zy; }
    }
    static Shear6<T> ctor (const T* v) { return Shear6<T> (v[0], v[1], v[2], v[3], v[4], v[5]); }
};
template <class T> struct Agg<Quat<T>>
{
    typedef T E; enum { N = 4, FAM = F_QUAT, ROWS = 0 };
    static const char* name () { return "Quat"; }
    static const char* slot (int i) { static const char* s[] = {"r", "v.x", "v.y", "v.z"}; return s[i]; }
    static T* addr (Quat<T>& a, int i) { return i == 0 ? &a.r : i == 1 ? &a.v.x : i == 2 ? &a.v.y : &a.v.z; }
    static Quat<T> ctor (const T* v) { return Quat<T> (v[0], v[1], v[2], v[3]); }
};
#define C04_MAT_SLOTS_2 "x[0][0]", "x[0][1]", "x[1][0]", "x[1][1]"
#define C04_MAT_SLOTS_3 "x[0][0]", "x[0][1]", "x[0][2]", "x[1][0]", "x[1][1]", "x[1][2]", "x[2][0]", "x[2][1]", "x[2][2]"
#define C04_MAT_SLOTS_4                                                                            \
    "x[0][0]", "x[0][1]", "x[0][2]", "x[0][3]", "x[1][0]", "x[1][1]", "x[1][2]", "x[1][3]", "x[2][0]", "x[2][1]", "x[2][2]", \
        "x[2][3]", "x[3][0]", "x[3][1]", "x[3][2]", "x[3][3]"
template <class T> struct Agg<Matrix22<T>>
{
    typedef T E; enum { N = 4, FAM = F_MATRIX, ROWS = 2 };
    static const char* name () { return "Matrix22"; }
    static const char* slot (int i) { static const char* s[] = {C04_MAT_SLOTS_2}; return s[i]; }
    static T* addr (Matrix22<T>& a, int i) { return &a.x[i / 2][i % 2]; }
    static Matrix22<T> ctor (const T* v) { return Matrix22<T> (v[0], v[1], v[2], v[3]); }
};
template <class T> struct Agg<Matrix33<T>>
{
    typedef T E; enum { N = 9, FAM = F_MATRIX, ROWS = 3 };
    static const char* name () { return "Matrix33"; }
    static const char* slot (int i) { static const char* s[] = {C04_MAT_SLOTS_3}; return s[i]; }
    static T* addr (Matrix33<T>& a, int i) { return &a.x[i / 3][i % 3]; }
    static Matrix33<T> ctor (const T* v) { return Matrix33<T> (v[0], v[1], v[2], v[3], v[4], v[5], v[6], v[7], v[8]); }
};
template <class T> struct Agg<Matrix44<T>>
{
    typedef T E; enum { N = 16, FAM = F_MATRIX, ROWS = 4 };
    static const char* name () { return "Matrix44"; }
    static const char* slot (int i) { static const char* s[] = {C04_MAT_SLOTS_4}; return s[i]; }
    static T* addr (Matrix44<T>& a, int i) { return &a.x[i / 4][i % 4]; }
    static Matrix44<T> ctor (const T* v)
    {
        return Matrix44<T> (v[0], v[1], v[2], v[3], v[4], v[5], v[6], v[7], v[8], v[9], v[10], v[11], v[12], v[13], v[14], v[15]);
    }
};

template <class A> inline A make (const typename Agg<A>::E* v)
{
    A a;
    for (int i = 0; i < Agg<A>::N; ++i) *Agg<A>::addr (a, i) = v[i];
    return a;
}
template <class A> inline typename Agg<A>::E get (const A& a, int i) { return *Agg<A>::addr (const_cast<A&> (a), i); }
template <class A> inline void unpack (const A& a, typename Agg<A>::E* out)
{
    for (int i = 0; i < Agg<A>::N; ++i) out[i] = get (a, i);
}
template <class A> inline std::string tname () { return std::string ("T=") + ElName<typename Agg<A>::E>::s (); }

// ------------------------------------------------------------------------------------------
// tallies and outcome classes
// ------------------------------------------------------------------------------------------
enum Cls
{
    K_GENERIC, K_SINGLE, K_PAIR, K_ALLSLOTS, K_NAN, K_INF, K_NEGZERO, K_DENORM, K_EXTREME, K_WRAP, K_FDIV0,
    K_EQ_ULP, K_EQ_SIGNEDZERO, K_EQ_NAN, K_EQ_HETERO, K_APX_AT, K_APX_ABOVE, K_APX_BELOW, K_APX_TWO,
    K_LAY_ADDR, K_LAY_RW, K_CONV_NARROW, K_CONV_TRUNC, K_CONV_WIDEN, K_CONV_SPECIAL,
    K_IOP_NAMED, K_IOP_SUBSCRIPT, K_IOP_CARRAY, K_IOP_DSUB,
    K_STR_DEFAULT, K_STR_FIXED, K_STR_PREC3, K_STR_SCI,
    K_STR_SHOWPOS, K_STR_LEFT, K_STR_RIGHT, K_STR_UPPER, K_STR_HEXFLOAT, K_STR_HEXINT, K_STR_OCTINT, K_STR_SHOWBASE,
    K_STR_NEGZERO, K_STR_INF, K_STR_NAN, K_STR_DENORM,
    K_APX_FRACTIONAL, K_APX_NEGTOL, K_APX_NAN, K_APX_INF,
    K_EQ_HETERO_UNREP,
    K_IOP_BOTH, K_IOP_SUBREF,
    K__COUNT
};
inline const char* cls_name (int k)
{
    static const char* n[] = {
        "arith.generic", "arith.single-slot-boundary-pair", "arith.slot-pair-special", "arith.all-slots-special",
        "arith.nan-operand", "arith.inf-operand", "arith.negative-zero-operand", "arith.denormal-operand",
        "arith.extreme-operand", "arith.narrow-int-wraps", "arith.float-division-by-zero",
        "eq.one-slot-off-by-1ulp", "eq.signed-zero-slot", "eq.nan-slot", "eq.mixed-element-types",
        "approx.slot-at-threshold", "approx.slot-just-above", "approx.slot-just-below", "approx.two-slots-in-and-out",
        "layout.address-identities", "layout.write-one-path-read-another",
        "convert.narrowing", "convert.float-to-int-truncation", "convert.widening", "convert.special-value",
        "interop.named-members", "interop.subscript-type", "interop.c-array", "interop.double-subscript",
        "stream.default-state", "stream.fixed", "stream.precision3", "stream.scientific",
        "stream.showpos", "stream.left-adjust", "stream.right-adjust", "stream.uppercase", "stream.hexfloat", "stream.integer-hex", "stream.integer-oct", "stream.integer-showbase",
        "stream.negative-zero-component", "stream.infinite-component", "stream.nan-component", "stream.denormal-component",
        "approx.fractional-generic-tuple", "approx.negative-tolerance", "approx.nan-slot", "approx.infinite-slot",
        "eq.mixed-element-types.value-not-representable-in-the-other-type",
        "interop.named-members-and-reversed-subscript", "interop.reference-returning-subscript"};
    return n[k];
}
struct Tally
{
    long long states = 0, transitions = 0, ub_excluded = 0, instances = 0, cases_skipped_unrepresentable = 0;
    long long c[K__COUNT];
    Tally () { for (auto& x : c) x = 0; }
    ~Tally ()
    {
        if (states) R ().add ("states", states);
        if (transitions) { R ().add ("transitions", transitions); R ().add ("evaluations", transitions); }
        if (ub_excluded) R ().add ("integer_cases_excluded_as_undefined_in_C++", ub_excluded);
        if (instances) R ().add ("operator_instances", instances);
        if (cases_skipped_unrepresentable) R ().add ("approx_cases_skipped_unrepresentable_in_integer_type", cases_skipped_unrepresentable);
        for (int k = 0; k < K__COUNT; ++k)
            if (c[k]) R ().cls (cls_name (k), c[k]);
    }
};

// ------------------------------------------------------------------------------------------
// arithmetic: enumeration + comparison. One instantiation per aggregate type; the operators
// themselves are passed as function pointers (capture-less lambdas from the tables below).
// ------------------------------------------------------------------------------------------
enum Phase { PH_GENERIC, PH_SINGLE, PH_PAIR, PH_ALL };

template <class A> struct Arith
{
    typedef typename Agg<A>::E T;
    enum { N = Agg<A>::N };
    typedef A (*LibVV) (A&, const A&, const void*&);
    typedef A (*LibVS) (A&, T, const void*&);
    typedef A (*LibUN) (A&, const void*&);

    Tally& t;
    bool   thorough;
    explicit Arith (Tally& tt) : t (tt), thorough (R ().thorough ()) {}

    static std::string nm () { return Agg<A>::name (); }

    void classify (const T* a, const T* b, const T* s, int phase)
    {
        bool nan = false, inf = false, nz = false, dn = false, xt = false;
        for (int i = 0; i < N; ++i)
        {
            nan |= Pred<T>::nan (a[i]); inf |= Pred<T>::inf (a[i]); nz |= Pred<T>::negzero (a[i]); dn |= Pred<T>::denorm (a[i]); xt |= Pred<T>::extreme (a[i]);
            if (b) { nan |= Pred<T>::nan (b[i]); inf |= Pred<T>::inf (b[i]); nz |= Pred<T>::negzero (b[i]); dn |= Pred<T>::denorm (b[i]); xt |= Pred<T>::extreme (b[i]); }
        }
        if (s) { nan |= Pred<T>::nan (*s); inf |= Pred<T>::inf (*s); nz |= Pred<T>::negzero (*s); dn |= Pred<T>::denorm (*s); xt |= Pred<T>::extreme (*s); }
        t.c[phase == PH_GENERIC ? K_GENERIC : phase == PH_SINGLE ? K_SINGLE : phase == PH_PAIR ? K_PAIR : K_ALLSLOTS]++;
        t.c[K_NAN] += nan; t.c[K_INF] += inf; t.c[K_NEGZERO] += nz; t.c[K_DENORM] += dn; t.c[K_EXTREME] += xt;
    }

    void compare (const std::string& site, const A& got, const T* want, const T* a, const T* b, const T* s)
    {
        for (int k = 0; k < N; ++k)
            if (!el_same (get (got, k), want[k]))
            {
                T g[N];
                unpack (got, g);
                std::string in = tname<A> () + " a=" + show_tuple (a, N);
                if (b) in += " b=" + show_tuple (b, N);
                if (s) in += " s=" + show (*s);
                R ().fail (site, in, std::string ("slot ") + Agg<A>::slot (k) + " = " + show (want[k]) + "; all " + show_tuple (want, N), show_tuple (g, N));
                return;
            }
    }

    // ---- aggregate (op) aggregate ----
    template <class F> void enum_vv (F&& f)
    {
        T a[N], b[N];
        for (int g = 0; g < NGENERIC; ++g) { generic_tuple<T> (g, N, a, b); f (a, b, PH_GENERIC); }
        const std::vector<T>& B = alphaB<T> ();
        const std::vector<T>& S = thorough ? alphaB<T> () : alphaS<T> ();
        const std::vector<T>& S0 = alphaS<T> ();
        for (int k = 0; k < N; ++k)
        {
            generic_tuple<T> (0, N, a, b);
            for (T x : B) for (T y : B) { a[k] = x; b[k] = y; f (a, b, PH_SINGLE); }
        }
        for (int k = 0; k < N; ++k)
            for (int l = k + 1; l < N; ++l)
            {
                generic_tuple<T> (0, N, a, b);
                for (T x1 : S) for (T y1 : S) for (T x2 : S) for (T y2 : S) { a[k] = x1; b[k] = y1; a[l] = x2; b[l] = y2; f (a, b, PH_PAIR); }
            }
        if (thorough && N <= 4)
        {   // every slot of both operands from the reduced special set simultaneously
            uint64_t tot = ex::ipow (S0.size (), 2 * N);
            for (uint64_t idx = 0; idx < tot; ++idx)
            {
                uint64_t r = idx;
                for (int i = 0; i < N; ++i) { a[i] = S0[r % S0.size ()]; r /= S0.size (); b[i] = S0[r % S0.size ()]; r /= S0.size (); }
                f (a, b, PH_ALL);
            }
        }
    }
    void count_vv_states () { enum_vv ([&] (const T*, const T*, int) { ++t.states; }); }

    void vv (const std::string& site, LibVV lib, Op2<T> o, bool compound)
    {
        ++t.instances;
        enum_vv ([&] (const T* a, const T* b, int phase) {
            T want[N];
            bool wr = false, d0 = false;
            for (int i = 0; i < N; ++i)
            {
                if (!o.ok (a[i], b[i])) { ++t.ub_excluded; return; }
                want[i] = o.eval (a[i], b[i]);
                wr |= o.wraps (a[i], b[i]);
                d0 |= o.is_div && Pred<T>::zero (b[i]);
            }
            A           x = make<A> (a), y = make<A> (b);
            const void* ret = nullptr;
            A           got;
            if (std::is_integral<T>::value && o.is_div)
            {
                sigjmp_buf jb;
                volatile bool trapped = true;
                g_trap = &jb;
                if (sigsetjmp (jb, 0) == 0) { got = lib (x, y, ret); trapped = false; }
                g_trap = nullptr;
                if (trapped)
                {
                    R ().fail (site + ".integer-division-trap", tname<A> () + " a=" + show_tuple (a, N) + " b=" + show_tuple (b, N),
                               "no trap: every component's own divisor is non-zero", "SIGFPE");
                    return;
                }
            }
            else got = lib (x, y, ret);
            ++t.transitions;
            classify (a, b, nullptr, phase);
            t.c[K_WRAP] += wr; t.c[K_FDIV0] += d0;
            compare (site, got, want, a, b, nullptr);
            if (compound && ret != (const void*) &x)
                R ().fail (site + ".returns-this", tname<A> () + " a=" + show_tuple (a, N), "reference to the left operand", "some other object");
            for (int i = 0; i < N; ++i)
                if (!el_same (get (y, i), b[i])) { R ().fail (site + ".modifies-right-operand", tname<A> () + " b=" + show_tuple (b, N)); break; }
        });
    }

    // ---- aggregate (op) scalar ----
    template <class F> void enum_vs (F&& f)
    {
        T a[N], b[N];
        for (int g = 0; g < NGENERIC; ++g) { generic_tuple<T> (g, N, a, b); f (a, generic_scalar<T> (g, N), PH_GENERIC); }
        const std::vector<T>& B = alphaB<T> ();
        const std::vector<T>& S = thorough ? alphaB<T> () : alphaS<T> ();
        for (int k = 0; k < N; ++k)
        {
            generic_tuple<T> (0, N, a, b);
            for (T x : B) for (T s : B) { a[k] = x; f (a, s, PH_SINGLE); }
        }
        for (int k = 0; k < N; ++k)
            for (int l = k + 1; l < N; ++l)
            {
                generic_tuple<T> (0, N, a, b);
                for (T x1 : S) for (T x2 : S) for (T s : S) { a[k] = x1; a[l] = x2; f (a, s, PH_PAIR); }
            }
        // a generic aggregate against every boundary scalar
        for (int g = 0; g < NGENERIC; ++g)
            for (T s : B) { generic_tuple<T> (g, N, a, b); f (a, s, PH_SINGLE); }
    }
    void count_vs_states () { enum_vs ([&] (const T*, T, int) { ++t.states; }); }

    // scalar_left: oracle is eval(s, a_i) instead of eval(a_i, s)
    void vs (const std::string& site, LibVS lib, Op2<T> o, bool compound, bool scalar_left = false)
    {
        ++t.instances;
        enum_vs ([&] (const T* a, T s, int phase) {
            T want[N];
            bool wr = false, d0 = false;
            for (int i = 0; i < N; ++i)
            {
                T l = scalar_left ? s : a[i], r = scalar_left ? a[i] : s;
                if (!o.ok (l, r)) { ++t.ub_excluded; return; }
                want[i] = o.eval (l, r);
                wr |= o.wraps (l, r);
                d0 |= o.is_div && Pred<T>::zero (r);
            }
            A           x = make<A> (a);
            const void* ret = nullptr;
            A           got;
            if (std::is_integral<T>::value && o.is_div)
            {
                sigjmp_buf jb;
                volatile bool trapped = true;
                g_trap = &jb;
                if (sigsetjmp (jb, 0) == 0) { got = lib (x, s, ret); trapped = false; }
                g_trap = nullptr;
                if (trapped)
                {
                    R ().fail (site + ".integer-division-trap", tname<A> () + " a=" + show_tuple (a, N) + " s=" + show (s), "no trap: the scalar divisor is non-zero", "SIGFPE");
                    return;
                }
            }
            else got = lib (x, s, ret);
            ++t.transitions;
            classify (a, nullptr, &s, phase);
            t.c[K_WRAP] += wr; t.c[K_FDIV0] += d0;
            compare (site, got, want, a, nullptr, &s);
            if (compound && ret != (const void*) &x)
                R ().fail (site + ".returns-this", tname<A> () + " a=" + show_tuple (a, N), "reference to the left operand", "some other object");
        });
    }

    // ---- unary ----
    template <class F> void enum_un (F&& f)
    {
        T a[N], b[N];
        for (int g = 0; g < NGENERIC; ++g) { generic_tuple<T> (g, N, a, b); f (a, PH_GENERIC); if (g != 1) f (b, PH_GENERIC); } // g=1: b repeats g=0's a
        const std::vector<T>& B = alphaB<T> ();
        const std::vector<T>& S = thorough ? alphaB<T> () : alphaS<T> ();
        for (int k = 0; k < N; ++k)
        {
            generic_tuple<T> (0, N, a, b);
            for (T x : B) { a[k] = x; f (a, PH_SINGLE); }
        }
        for (int k = 0; k < N; ++k)
            for (int l = k + 1; l < N; ++l)
            {
                generic_tuple<T> (0, N, a, b);
                for (T x1 : S) for (T x2 : S) { a[k] = x1; a[l] = x2; f (a, PH_PAIR); }
            }
    }
    void count_un_states () { enum_un ([&] (const T*, int) { ++t.states; }); }

    // per-slot oracle selection: slot_op[k] (lets Quat's conjugate keep slot 0)
    void un (const std::string& site, LibUN lib, Op1<T> o_first, Op1<T> o_rest, bool compound)
    {
        ++t.instances;
        enum_un ([&] (const T* a, int phase) {
            T want[N];
            bool wr = false;
            for (int i = 0; i < N; ++i)
            {
                const Op1<T>& o = i == 0 ? o_first : o_rest;
                if (!o.ok (a[i])) { ++t.ub_excluded; return; }
                want[i] = o.eval (a[i]);
                wr |= o.wraps (a[i]);
            }
            A           x = make<A> (a);
            const void* ret = nullptr;
            A           got = lib (x, ret);
            ++t.transitions;
            classify (a, nullptr, nullptr, phase);
            t.c[K_WRAP] += wr;
            compare (site, got, want, a, nullptr, nullptr);
            if (compound && ret != (const void*) &x)
                R ().fail (site + ".returns-this", tname<A> () + " a=" + show_tuple (a, N), "reference to *this", "some other object");
        });
    }
};

// ---- the operator tables -------------------------------------------------------------------
// X(oracle name, binary token, compound token)
#define C04_OPS_ADDSUB(X) X (add, +, +=) X (sub, -, -=)
#define C04_OPS_MULDIV(X) X (mul, *, *=) X (div, /, /=)

#define C04_VV_BOTH(nm, bop, cop)                                                                  \
    r.vv (N + "::operator" #bop "(" + N + ")",                                                     \
          [] (A& a, const A& b, const void*&) -> A { return A (a bop b); }, Orc<T>::o_##nm (), false); \
    r.vv (N + "::operator" #cop "(" + N + ")",                                                     \
          [] (A& a, const A& b, const void*& ret) -> A { ret = &(a cop b); return a; }, Orc<T>::o_##nm (), true);
#define C04_VS_BOTH(nm, bop, cop)                                                                  \
    r.vs (N + "::operator" #bop "(T)",                                                             \
          [] (A& a, T s, const void*&) -> A { return A (a bop s); }, Orc<T>::o_##nm (), false);    \
    r.vs (N + "::operator" #cop "(T)",                                                             \
          [] (A& a, T s, const void*& ret) -> A { ret = &(a cop s); return a; }, Orc<T>::o_##nm (), true);
#define C04_VS_COMPOUND(nm, bop, cop)                                                              \
    r.vs (N + "::operator" #cop "(T)",                                                             \
          [] (A& a, T s, const void*& ret) -> A { ret = &(a cop s); return a; }, Orc<T>::o_##nm (), true);

// `part` splits the work of one aggregate type over three jobs: 0 = aggregate (op) aggregate,
// 1 = aggregate (op) scalar, 2 = unary.
// Vec2/3/4, Color3/4, Shear6: + - * / by aggregate; * / by scalar; scalar * aggregate; -a; negate()
template <class A> void arith_vec_like (Tally& t, int part)
{
    typedef typename Agg<A>::E T;
    Arith<A>    r (t);
    std::string N = Agg<A>::name ();
    if (part == 0)
    {
        r.count_vv_states ();
        C04_OPS_ADDSUB (C04_VV_BOTH)
        C04_OPS_MULDIV (C04_VV_BOTH)
    }
    else if (part == 1)
    {
        r.count_vs_states ();
        C04_OPS_MULDIV (C04_VS_BOTH)
        r.vs ("operator*(T," + N + ")", [] (A& a, T s, const void*&) -> A { return A (s * a); }, Orc<T>::o_mul (), false, true);
    }
    else
    {
        r.count_un_states ();
        r.un (N + "::operator-()", [] (A& a, const void*&) -> A { return A (-a); }, Orc<T>::o_neg (), Orc<T>::o_neg (), false);
        r.un (N + "::negate()", [] (A& a, const void*& ret) -> A { ret = &a.negate (); return a; }, Orc<T>::o_neg (), Orc<T>::o_neg (), true);
    }
}
// Quat: + - by quaternion (free functions and compound members); * / by scalar; scalar * q; -q; ~q
template <class A> void arith_quat (Tally& t, int part)
{
    typedef typename Agg<A>::E T;
    Arith<A>    r (t);
    std::string N = Agg<A>::name ();
    if (part == 0)
    {
        r.count_vv_states ();
        C04_OPS_ADDSUB (C04_VV_BOTH)
    }
    else if (part == 1)
    {
        r.count_vs_states ();
        C04_OPS_MULDIV (C04_VS_BOTH)
        r.vs ("operator*(T," + N + ")", [] (A& a, T s, const void*&) -> A { return A (s * a); }, Orc<T>::o_mul (), false, true);
    }
    else
    {
        r.count_un_states ();
        r.un ("operator-(" + N + ")", [] (A& a, const void*&) -> A { return A (-a); }, Orc<T>::o_neg (), Orc<T>::o_neg (), false);
        r.un ("operator~(" + N + ")", [] (A& a, const void*&) -> A { return A (~a); }, Orc<T>::o_id (), Orc<T>::o_neg (), false);
    }
}
// Matrix22/33/44: + - by matrix; + - by scalar (compound only); * / by scalar; scalar * m; -m; negate()
template <class A> void arith_matrix (Tally& t, int part)
{
    typedef typename Agg<A>::E T;
    Arith<A>    r (t);
    std::string N = Agg<A>::name ();
    if (part == 0)
    {
        r.count_vv_states ();
        C04_OPS_ADDSUB (C04_VV_BOTH)
    }
    else if (part == 1)
    {
        r.count_vs_states ();
        C04_OPS_ADDSUB (C04_VS_COMPOUND)
        C04_OPS_MULDIV (C04_VS_BOTH)
        r.vs ("operator*(T," + N + ")", [] (A& a, T s, const void*&) -> A { return A (s * a); }, Orc<T>::o_mul (), false, true);
    }
    else
    {
        r.count_un_states ();
        r.un (N + "::operator-()", [] (A& a, const void*&) -> A { return A (-a); }, Orc<T>::o_neg (), Orc<T>::o_neg (), false);
        r.un (N + "::negate()", [] (A& a, const void*& ret) -> A { ret = &a.negate (); return a; }, Orc<T>::o_neg (), Orc<T>::o_neg (), true);
    }
}

// ------------------------------------------------------------------------------------------
// ==, != : depend on every component (one-slot perturbation)
// ------------------------------------------------------------------------------------------
template <class T, bool F = is_flt<T>::value> struct Step
{   // integral
    static bool up (T v, T& out) { if (v == std::numeric_limits<T>::max ()) return false; out = T (v + 1); return true; }
    static bool down (T v, T& out) { if (v == std::numeric_limits<T>::min ()) return false; out = T (v - 1); return true; }
};
template <> struct Step<float, true>
{
    static bool up (float v, float& o) { o = std::nextafter (v, std::numeric_limits<float>::infinity ()); return true; }
    static bool down (float v, float& o) { o = std::nextafter (v, -std::numeric_limits<float>::infinity ()); return true; }
};
template <> struct Step<double, true>
{
    static bool up (double v, double& o) { o = std::nextafter (v, std::numeric_limits<double>::infinity ()); return true; }
    static bool down (double v, double& o) { o = std::nextafter (v, -std::numeric_limits<double>::infinity ()); return true; }
};
template <> struct Step<half, true>
{   // finite non-zero halves only (the generic tuples)
    static bool up (half v, half& o) { uint16_t b = v.bits (); o.setBits ((b & 0x8000) ? b - 1 : b + 1); return true; }
    static bool down (half v, half& o) { uint16_t b = v.bits (); o.setBits ((b & 0x8000) ? b + 1 : b - 1); return true; }
};

template <class A> struct EqTest
{
    typedef typename Agg<A>::E T;
    enum { N = Agg<A>::N };
    Tally& t;
    explicit EqTest (Tally& tt) : t (tt) {}

    void one (const T* a, const T* b, int cls)
    {
        bool all = true;
        for (int i = 0; i < N; ++i) all = all && (a[i] == b[i]);
        A    x = make<A> (a), y = make<A> (b);
        bool eq = (x == y), ne = (x != y);
        t.transitions += 2; ++t.states;
        if (cls >= 0) t.c[cls]++;
        std::string nm = Agg<A>::name ();
        if (eq != all) R ().fail (nm + "::operator==", tname<A> () + " a=" + show_tuple (a, N) + " b=" + show_tuple (b, N), vf::fmt (all), vf::fmt (eq));
        if (ne != !all) R ().fail (nm + "::operator!=", tname<A> () + " a=" + show_tuple (a, N) + " b=" + show_tuple (b, N), vf::fmt (!all), vf::fmt (ne));
    }
    // one slot x every ordered pair of boundary values (signed zeros are equal, NaN is unequal to itself)
    void special_slots (const T* base)
    {
        T a[N], b[N];
        const std::vector<T>& B = alphaB<T> ();
        for (int k = 0; k < N; ++k)
            for (T x : B)
                for (T y : B)
                {
                    for (int i = 0; i < N; ++i) a[i] = b[i] = base[i];
                    a[k] = x; b[k] = y;
                    int cls = (Pred<T>::nan (x) || Pred<T>::nan (y)) ? K_EQ_NAN : (Pred<T>::zero (x) && Pred<T>::zero (y) && Pred<T>::negzero (x) != Pred<T>::negzero (y)) ? K_EQ_SIGNEDZERO : -1;
                    one (a, b, cls);
                }
    }
    void run ()
    {
        t.instances += 2;
        T ga[N], gb[N], a[N], b[N];
        for (int g = 0; g < NGENERIC; ++g)
        {
            generic_tuple<T> (g, N, ga, gb);
            for (int pass = 0; pass < 2; ++pass)
            {
                if (g == 1 && pass == 1) continue; // repeats g=0's a-tuple
                const T* base = pass ? gb : ga;
                for (int i = 0; i < N; ++i) a[i] = b[i] = base[i];
                one (a, b, -1); // identical: must be equal
                for (int k = 0; k < N; ++k)
                {   // exactly one slot off by one unit in the last place, either side, either direction
                    for (int dir = 0; dir < 2; ++dir)
                        for (int side = 0; side < 2; ++side)
                        {
                            for (int i = 0; i < N; ++i) a[i] = b[i] = base[i];
                            T p;
                            bool ok = dir ? Step<T>::up (base[k], p) : Step<T>::down (base[k], p);
                            if (!ok) continue;
                            (side ? a : b)[k] = p;
                            one (a, b, K_EQ_ULP);
                        }
                    // slot k takes a value from another slot's partner tuple (wholly different value)
                    for (int i = 0; i < N; ++i) a[i] = b[i] = base[i];
                    b[k] = (pass ? ga : gb)[k];
                    one (a, b, -1);
                }
                // two slots off simultaneously
                for (int k = 0; k < N; ++k)
                    for (int l = k + 1; l < N; ++l)
                    {
                        for (int i = 0; i < N; ++i) a[i] = b[i] = base[i];
                        T p, q;
                        if (Step<T>::up (base[k], p) && Step<T>::down (base[l], q)) { b[k] = p; b[l] = q; one (a, b, -1); }
                    }
            }
        }
        generic_tuple<T> (0, N, ga, gb);
        special_slots (ga);
    }
};

// A value of type S next to `a` (of type T) that is NOT representable in T, so that an implementation which converts
// one operand to the other's element type before comparing gives a different answer than the C++ comparison a == b of
// the two scalar types:  floating S vs integral T: a + 1/2;  wider floating S vs narrower floating T: the S-neighbour of
// a;  wider integral S vs narrower integral T: a + 2^bits(T).  Not applicable otherwise (every T value is an S value and
// vice versa, or the C++ comparison itself converts S to T).
template <class T, class S, bool Sflt = is_flt<S>::value, bool Tflt = is_flt<T>::value> struct Unrep
{   // both integral
    static bool get (T a, S& out)
    {
        if (sizeof (S) <= sizeof (T)) return false;
        out = S (S (a) + (S (1) << (8 * sizeof (T))));
        return true;
    }
};
template <class T, class S> struct Unrep<T, S, true, false>
{   // floating S, integral T
    static bool get (T a, S& out) { out = S ((float) a + 0.5f); return true; }
};
template <class T, class S> struct Unrep<T, S, false, true>
{   // integral S, floating T: the comparison converts S to T
    static bool get (T, S&) { return false; }
};
inline float  up1 (float v) { return std::nextafter (v, 2 * v); }
inline double up1 (double v) { return std::nextafter (v, 2 * v); }
template <class T, class S> struct Unrep<T, S, true, true>
{
    static bool get (T a, S& out) { return get2 (a, out, std::integral_constant<bool, (sizeof (S) > sizeof (T))> ()); }
    static bool get2 (T a, S& out, std::true_type) { out = up1 (S (a)); return true; }
    static bool get2 (T, S&, std::false_type) { return false; }
};

// mixed element types: A<T> == A<S>
template <class A, class A2> void eq_hetero (Tally& t)
{
    typedef typename Agg<A>::E  T;
    typedef typename Agg<A2>::E S;
    enum { N = Agg<A>::N };
    t.instances += 2;
    T ga[N], gb[N];
    S sa[N], sb[N];
    // small positive primes: exactly representable in every element type (half, unsigned char included)
    generic_tuple<T> (0, N, ga, gb);
    generic_tuple<S> (0, N, sa, sb);
    std::string nm = Agg<A>::name ();
    auto one = [&] (const T* a, const S* b) {
        bool all = true;
        for (int i = 0; i < N; ++i) all = all && (a[i] == b[i]);
        A  x = make<A> (a);
        A2 y = make<A2> (b);
        bool eq = (x == y), ne = (x != y);
        t.transitions += 2; ++t.states; t.c[K_EQ_HETERO]++;
        std::string in = tname<A> () + " S=" + ElName<S>::s () + " a=" + show_tuple (a, N) + " b=" + show_tuple (b, N);
        if (eq != all) R ().fail (nm + "::operator==<S>", in, vf::fmt (all), vf::fmt (eq));
        if (ne != !all) R ().fail (nm + "::operator!=<S>", in, vf::fmt (!all), vf::fmt (ne));
    };
    one (ga, sa);
    one (gb, sb);
    for (int k = 0; k < N; ++k)
    {
        S b[N];
        for (int i = 0; i < N; ++i) b[i] = sa[i];
        b[k] = S (sa[k] + S (1)); one (ga, b);
        b[k] = sb[k]; one (ga, b);
        T a[N];
        for (int i = 0; i < N; ++i) a[i] = ga[i];
        a[k] = T (ga[k] + T (1)); one (a, sa);
    }
    // exactly one component differs by a value the other element type cannot represent (either operand order is an
    // instantiation of its own: the (S, T) pair is registered as well)
    for (int k = 0; k < N; ++k)
    {
        S b[N];
        for (int i = 0; i < N; ++i) b[i] = sa[i];
        T a[N];
        for (int i = 0; i < N; ++i) a[i] = T (sa[i]); // the same small primes in T
        S u;
        if (!Unrep<T, S>::get (a[k], u)) break;
        b[k] = u;
        if (a[k] == b[k]) { R ().fail ("oracle.precondition.hetero-unrepresentable-differs", tname<A> () + " S=" + ElName<S>::s () + " a_k=" + show (a[k]) + " b_k=" + show (b[k])); break; }
        t.c[K_EQ_HETERO_UNREP]++;
        bool all = true;
        for (int i = 0; i < N; ++i) all = all && (a[i] == b[i]);
        A  x = make<A> (a);
        A2 y = make<A2> (b);
        bool eq = (x == y), ne = (x != y);
        t.transitions += 2; ++t.states;
        std::string in = tname<A> () + " S=" + ElName<S>::s () + " a=" + show_tuple (a, N) + " b=" + show_tuple (b, N);
        if (eq != all) R ().fail (nm + "::operator==<S>.value-not-representable-in-T", in, vf::fmt (all), vf::fmt (eq));
        if (ne != !all) R ().fail (nm + "::operator!=<S>.value-not-representable-in-T", in, vf::fmt (!all), vf::fmt (ne));
    }
}

// ------------------------------------------------------------------------------------------
// equalWithAbsError / equalWithRelError: every slot decides, threshold exact.
// Inputs are chosen so that a_i, b_i, a_i - b_i, e and e*|a_i| are all exactly representable in T
// (checked at run time, site "oracle.precondition"): the library's T arithmetic is then exact and
// the documented definition  |a_i - b_i| <= e  resp.  <= e*|a_i|  is decided without rounding.
// ------------------------------------------------------------------------------------------
template <class T, bool F = is_flt<T>::value> struct Apx
{   // integral
    static long double ulp (long double) { return 1; }
    static T e_abs () { return T (2); }
    static T e_rel () { return T (1); }
    static bool fits (long double v, T& out)
    {
        if (v < (long double) std::numeric_limits<T>::min () || v > (long double) std::numeric_limits<T>::max ()) return false;
        out = T ((long long) v);
        return true;
    }
};
inline bool fits_fp (long double v, float& out) { out = (float) v; return (long double) out == v; }
inline bool fits_fp (long double v, double& out) { out = (double) v; return (long double) out == v; }
inline bool fits_fp (long double v, half& out) { out = half ((float) v); return (long double) (float) out == v; }
template <class T> struct Apx<T, true>
{
    static long double ulp (long double mag) { return ex::ulp_at<T> (mag); }
    static T e_abs () { return T (0.5f); }
    static T e_rel () { return T (0.25f); }
    static bool fits (long double v, T& out) { return fits_fp (v, out); }
};

template <class A> struct ApxTest
{
    typedef typename Agg<A>::E T;
    enum { N = Agg<A>::N };
    Tally& t;
    explicit ApxTest (Tally& tt) : t (tt) {}

    static long double ld (T v) { return (long double) v; }

    void one (const T* a, const T* b, T e, bool rel, int cls)
    {
        bool want = true;
        for (int i = 0; i < N; ++i)
        {
            long double d = fabsl (ld (a[i]) - ld (b[i]));
            long double lim = rel ? ld (e) * fabsl (ld (a[i])) : ld (e);
            want = want && (d <= lim);
        }
        A    x = make<A> (a), y = make<A> (b);
        bool got = rel ? x.equalWithRelError (y, e) : x.equalWithAbsError (y, e);
        ++t.transitions; ++t.states;
        if (cls >= 0) t.c[cls]++;
        if (got != want)
            R ().fail (std::string (Agg<A>::name ()) + (rel ? "::equalWithRelError" : "::equalWithAbsError"),
                       tname<A> () + " a=" + show_tuple (a, N) + " b=" + show_tuple (b, N) + " e=" + show (e), vf::fmt (want), vf::fmt (got));
    }
    // b_k = a_k + sign*d, exactly; returns false if not representable (integers: out of range)
    bool offset (T ak, long double d, int sign, T& out)
    {
        long double v = ld (ak) + sign * d;
        if (!Apx<T>::fits (v, out))
        {
            if (is_flt<T>::value)
                R ().fail ("oracle.precondition.approx-operand-exact", tname<A> () + " a_k=" + show (ak) + " d=" + vf::fmt (d), "representable", "not representable");
            else
                ++t.cases_skipped_unrepresentable;
            return false;
        }
        if (is_flt<T>::value)
        {   // the library's own subtraction must be exact on this pair
            T diff = T (out > ak ? out - ak : ak - out);
            if (ld (diff) != fabsl (ld (out) - ld (ak)))
            {
                R ().fail ("oracle.precondition.approx-difference-exact", tname<A> () + " a_k=" + show (ak) + " b_k=" + show (out));
                return false;
            }
        }
        return true;
    }
    void run ()
    {
        t.instances += 2;
        T ga[N], gb[N], a[N], b[N];
        for (int rel = 0; rel < 2; ++rel)
            for (int g = 0; g < NGENERIC; ++g)    // positive primes; negated primes (or, unsigned: wrapped); dyadic fractions p/8 (integers: large values)
                for (int ez = 0; ez < 2; ++ez)    // tolerance e, and e = 0
                {
                    generic_tuple<T> (g, N, ga, gb);
                    if (g == 2 && is_flt<T>::value) t.c[K_APX_FRACTIONAL]++;
                    T e = ez ? T (0) : (rel ? Apx<T>::e_rel () : Apx<T>::e_abs ());
                    for (int i = 0; i < N; ++i) a[i] = b[i] = ga[i];
                    one (a, b, e, rel, -1);
                    for (int k = 0; k < N; ++k)
                    {
                        long double thr = rel ? ld (e) * fabsl (ld (ga[k])) : ld (e);
                        long double u   = Apx<T>::ulp (fabsl (ld (ga[k])) + 2 * thr + 1);
                        if (rel && is_flt<T>::value)
                        {   // e*|a_k| must be exact in T arithmetic as the library evaluates it (float for half)
                            long double prod = (long double) (e * (ga[k] > 0 ? ga[k] : -ga[k]));
                            if (prod != thr) R ().fail ("oracle.precondition.approx-threshold-exact", tname<A> () + " a_k=" + show (ga[k]) + " e=" + show (e));
                        }
                        const long double ds[4]  = {thr - u, thr, thr + u, 0};
                        const int         dcl[4] = {K_APX_BELOW, K_APX_AT, K_APX_ABOVE, -1};
                        for (int di = 0; di < 4; ++di)
                            for (int sg = -1; sg <= 1; sg += 2)
                            {
                                if (ds[di] < 0) continue;
                                for (int i = 0; i < N; ++i) a[i] = b[i] = ga[i];
                                T p;
                                if (!offset (ga[k], ds[di], sg, p)) continue;
                                b[k] = p;
                                one (a, b, e, rel, dcl[di]);
                            }
                        // slot k inside the tolerance, slot l just outside
                        for (int l = 0; l < N; ++l)
                        {
                            if (l == k) continue;
                            long double thl = rel ? ld (e) * fabsl (ld (ga[l])) : ld (e);
                            long double ul  = Apx<T>::ulp (fabsl (ld (ga[l])) + 2 * thl + 1);
                            for (int i = 0; i < N; ++i) a[i] = b[i] = ga[i];
                            T p, q;
                            if (!offset (ga[k], thr, 1, p) || !offset (ga[l], thl + ul, 1, q)) continue;
                            b[k] = p; b[l] = q;
                            one (a, b, e, rel, K_APX_TWO);
                        }
                    }
                }
        run_special ();
    }
    // Inputs on which the documented definition  |a_i - b_i| <= e  resp.  <= e * |a_i|  is decided by IEEE special-value
    // rules instead of by rounding: a negative tolerance (never satisfied, not even by identical operands, except
    // 0 <= -0 for a zero component under the relative form - none here), and a NaN or an infinity in exactly one slot
    // of one or both operands (inf - inf and 0 * inf are NaN, and NaN <= x is false). Site suffix ".special-operands".
    void one_special (const T* a, const T* b, T e, bool rel, int cls)
    {
        bool want = true;
        for (int i = 0; i < N; ++i)
        {
            long double d = fabsl (ld (a[i]) - ld (b[i]));
            long double lim = rel ? ld (e) * fabsl (ld (a[i])) : ld (e);
            want = want && (d <= lim);
        }
        A    x = make<A> (a), y = make<A> (b);
        bool got = rel ? x.equalWithRelError (y, e) : x.equalWithAbsError (y, e);
        ++t.transitions; ++t.states; t.c[cls]++;
        if (got != want)
            R ().fail (std::string (Agg<A>::name ()) + (rel ? "::equalWithRelError" : "::equalWithAbsError") + ".special-operands",
                       tname<A> () + " a=" + show_tuple (a, N) + " b=" + show_tuple (b, N) + " e=" + show (e), vf::fmt (want), vf::fmt (got));
    }
    void run_special ()
    {
        T ga[N], gb[N], a[N], b[N];
        for (int rel = 0; rel < 2; ++rel)
        {
            const T e = rel ? Apx<T>::e_rel () : Apx<T>::e_abs ();
            if (std::numeric_limits<T>::is_signed || is_flt<T>::value)
                for (int g = 0; g < NGENERIC; ++g)
                {
                    generic_tuple<T> (g, N, ga, gb);
                    const T ne = T (-e);
                    for (int i = 0; i < N; ++i) a[i] = b[i] = ga[i];
                    one_special (a, b, ne, rel, K_APX_NEGTOL); // identical operands
                    for (int k = 0; k < N; ++k)
                    {   // one slot off by exactly |e| resp. |e|*|a_k| (inside the tolerance of the same magnitude)
                        for (int i = 0; i < N; ++i) a[i] = b[i] = ga[i];
                        T p;
                        long double thr = rel ? ld (e) * fabsl (ld (ga[k])) : ld (e);
                        if (!Apx<T>::fits (ld (ga[k]) + thr, p)) continue;
                        b[k] = p;
                        one_special (a, b, ne, rel, K_APX_NEGTOL);
                    }
                }
            if (is_flt<T>::value)
            {
                std::vector<T> sp;
                for (T x : alphaB<T> ()) if (Pred<T>::nan (x) || Pred<T>::inf (x)) sp.push_back (x);
                generic_tuple<T> (0, N, ga, gb);
                for (int ez = 0; ez < 2; ++ez)
                    for (int k = 0; k < N; ++k)
                        for (T x : sp)
                            for (int where = 0; where < 4; ++where)
                            {   // special in a_k; in b_k; in both; in a_k with the negated special in b_k
                                for (int i = 0; i < N; ++i) a[i] = b[i] = ga[i];
                                if (where != 1) a[k] = x;
                                if (where == 1 || where == 2) b[k] = x;
                                if (where == 3) b[k] = T (-x);
                                one_special (a, b, ez ? T (0) : e, rel, Pred<T>::nan (x) ? K_APX_NAN : K_APX_INF);
                            }
            }
        }
    }
};

// ------------------------------------------------------------------------------------------
// layout / accessors. `Acc<A>` adapts the differing accessor sets.
// ------------------------------------------------------------------------------------------
// tuples whose slots rotate through the whole boundary alphabet (bit patterns must survive copies)
template <class T, int N, class F> void layout_tuples (F&& f)
{
    T a[N], b[N];
    for (int g = 0; g < NGENERIC; ++g) { generic_tuple<T> (g, N, a, b); f (a); if (g != 1) f (b); }
    const std::vector<T>& B = alphaB<T> ();
    for (size_t r = 0; r < B.size (); ++r)
    {
        for (int i = 0; i < N; ++i) a[i] = B[(r + 3 * i) % B.size ()];
        f (a);
    }
}
template <class A> void expect_tuple (const std::string& site, const A& got, const typename Agg<A>::E* want, const std::string& in)
{
    typedef typename Agg<A>::E T;
    enum { N = Agg<A>::N };
    for (int k = 0; k < N; ++k)
        if (!el_same (get (got, k), want[k]))
        {
            T g[N];
            unpack (got, g);
            R ().fail (site, tname<A> () + " " + in, std::string ("slot ") + Agg<A>::slot (k) + " = " + show (want[k]) + "; all " + show_tuple (want, N), show_tuple (g, N));
            return;
        }
}

// flat subscript types: v[i] is an lvalue of the i-th element (Vec*, Color*, Shear6) ...
template <class A> struct FlatIndex
{
    typedef typename Agg<A>::E T;
    static T*       ptr (A& a, int i) { return &a[i]; }
    static const T* cptr (const A& a, int i) { return &a[i]; }
    static T        cval (const A& a, int i) { return a[i]; }
    enum { CONST_IS_REF = 1 };
};
// ... Quat: non-const q[i] is an lvalue, const q[i] is a value
template <class T> struct FlatIndex<Quat<T>>
{
    static T*       ptr (Quat<T>& a, int i) { return &a[i]; }
    static const T* cptr (const Quat<T>&, int) { return nullptr; }
    static T        cval (const Quat<T>& a, int i) { return a[i]; }
    enum { CONST_IS_REF = 0 };
};
// ... matrices: m[i] is the pointer to row i
template <class A, int ROWS> struct MatIndex
{
    typedef typename Agg<A>::E T;
    static T*       ptr (A& a, int i) { return a[i / ROWS] + (i % ROWS); }
    static const T* cptr (const A& a, int i) { return a[i / ROWS] + (i % ROWS); }
    static T        cval (const A& a, int i) { return a[i / ROWS][i % ROWS]; }
    enum { CONST_IS_REF = 1 };
};
template <class A> struct Index : FlatIndex<A> {};
template <class T> struct Index<Matrix22<T>> : MatIndex<Matrix22<T>, 2> {};
template <class T> struct Index<Matrix33<T>> : MatIndex<Matrix33<T>, 3> {};
template <class T> struct Index<Matrix44<T>> : MatIndex<Matrix44<T>, 4> {};

template <class A> void layout_core (Tally& t)
{
    typedef typename Agg<A>::E T;
    enum { N = Agg<A>::N };
    std::string nm = Agg<A>::name ();
    if (sizeof (A) != N * sizeof (T))
        R ().fail (nm + ".layout.sizeof", tname<A> (), std::to_string (N * sizeof (T)), std::to_string (sizeof (A)));
    {   // address identities: named member i, operator[] i, base + i
        A        a = A ();
        const A& ca = a;
        T*       base = reinterpret_cast<T*> (&a);
        for (int i = 0; i < N; ++i)
        {
            ++t.transitions; t.c[K_LAY_ADDR]++;
            if (Agg<A>::addr (a, i) != base + i)
                R ().fail (nm + ".layout.member-order", tname<A> () + " member " + Agg<A>::slot (i), "offset " + std::to_string (i) + " elements", "offset " + std::to_string (Agg<A>::addr (a, i) - base));
            if (Index<A>::ptr (a, i) != base + i)
                R ().fail (nm + "::operator[]", tname<A> () + " index " + std::to_string (i), "element " + std::to_string (i) + " of the block", "element " + std::to_string (Index<A>::ptr (a, i) - base));
            if (Index<A>::CONST_IS_REF && Index<A>::cptr (ca, i) != base + i)
                R ().fail (nm + "::operator[] const", tname<A> () + " index " + std::to_string (i), "element " + std::to_string (i) + " of the block", "element " + std::to_string (Index<A>::cptr (ca, i) - base));
        }
    }
    layout_tuples<T, N> ([&] (const T* v) {
        ++t.states;
        std::string in = "v=" + show_tuple (v, N);
        A           a = make<A> (v);
        const A&    ca = a;
        // read through operator[] (const, non-const), raw block
        for (int i = 0; i < N; ++i)
        {
            t.transitions += 3; t.c[K_LAY_RW]++;
            if (!el_same (*Index<A>::ptr (a, i), v[i])) R ().fail (nm + "::operator[]", tname<A> () + " " + in + " i=" + std::to_string (i), show (v[i]), show (*Index<A>::ptr (a, i)));
            if (!el_same (Index<A>::cval (ca, i), v[i])) R ().fail (nm + "::operator[] const", tname<A> () + " " + in + " i=" + std::to_string (i), show (v[i]), show (Index<A>::cval (ca, i)));
            if (!el_same (reinterpret_cast<const T*> (&a)[i], v[i])) R ().fail (nm + ".layout.member-order", tname<A> () + " " + in + " i=" + std::to_string (i), show (v[i]), show (reinterpret_cast<const T*> (&a)[i]));
        }
        // write through operator[], read named members: exactly slot i changes
        for (int i = 0; i < N; ++i)
        {
            A w = make<A> (v);
            T nv = v[(i + 1) % N];
            *Index<A>::ptr (w, i) = nv;
            T want[N];
            for (int j = 0; j < N; ++j) want[j] = v[j];
            want[i] = nv;
            ++t.transitions;
            expect_tuple (nm + "::operator[]", w, want, in + " write i=" + std::to_string (i));
        }
        // N-ary constructor, copy constructor, copy assignment
        t.transitions += 3;
        expect_tuple (nm + "::" + nm + "(T...)", Agg<A>::ctor (v), v, in);
        A c (a);
        expect_tuple (nm + "::" + nm + "(const " + nm + "&)", c, v, in);
        A d = A ();
        const A& ret = (d = a);
        expect_tuple (nm + "::operator=(" + nm + ")", d, v, in);
        if (&ret != &d) R ().fail (nm + "::operator=(" + nm + ").returns-this", tname<A> ());
    });
}

// getValue() raw pointers (Vec*, Color4, Shear6, Matrix*; Color3 inherits Vec3's)
template <class A> void layout_getvalue (Tally& t)
{
    typedef typename Agg<A>::E T;
    enum { N = Agg<A>::N };
    std::string nm = Agg<A>::name ();
    layout_tuples<T, N> ([&] (const T* v) {
        A        a = make<A> (v);
        const A& ca = a;
        t.transitions += 2; t.c[K_LAY_ADDR]++;
        if (a.getValue () != reinterpret_cast<T*> (&a)) R ().fail (nm + "::getValue()", tname<A> (), "address of the first element", "other");
        if (ca.getValue () != reinterpret_cast<const T*> (&a)) R ().fail (nm + "::getValue() const", tname<A> (), "address of the first element", "other");
        for (int i = 0; i < N; ++i)
        {
            if (!el_same (ca.getValue ()[i], v[i])) R ().fail (nm + "::getValue() const", tname<A> () + " v=" + show_tuple (v, N) + " i=" + std::to_string (i), show (v[i]), show (ca.getValue ()[i]));
            A w = make<A> (v);
            T nv = v[(i + 1) % N];
            w.getValue ()[i] = nv;
            T want[N];
            for (int j = 0; j < N; ++j) want[j] = v[j];
            want[i] = nv;
            ++t.transitions; t.c[K_LAY_RW]++;
            expect_tuple (nm + "::getValue()", w, want, "v=" + show_tuple (v, N) + " write i=" + std::to_string (i));
        }
    });
}
// broadcast constructor A(T)
template <class A> void layout_broadcast (Tally& t)
{
    typedef typename Agg<A>::E T;
    enum { N = Agg<A>::N };
    std::string nm = Agg<A>::name ();
    for (T s : alphaB<T> ())
    {
        T want[N];
        for (int i = 0; i < N; ++i) want[i] = s;
        ++t.transitions; ++t.states;
        A a (s);
        expect_tuple (nm + "::" + nm + "(T)", a, want, "s=" + show (s));
    }
}
// matrices: Matrix(const T[N][N]), operator=(T)
template <class A, int ROWS> void layout_matrix_extra (Tally& t)
{
    typedef typename Agg<A>::E T;
    enum { N = Agg<A>::N };
    std::string nm = Agg<A>::name ();
    layout_tuples<T, N> ([&] (const T* v) {
        T arr[ROWS][ROWS];
        for (int i = 0; i < N; ++i) arr[i / ROWS][i % ROWS] = v[i];
        ++t.transitions;
        A a (arr);
        expect_tuple (nm + "::" + nm + "(const T[][])", a, v, "v=" + show_tuple (v, N));
    });
    for (T s : alphaB<T> ())
    {
        T want[N], g[N], h[N];
        for (int i = 0; i < N; ++i) want[i] = s;
        generic_tuple<T> (0, N, g, h);
        A a = make<A> (g);
        const A& ret = (a = s);
        ++t.transitions;
        expect_tuple (nm + "::operator=(T)", a, want, "s=" + show (s));
        if (&ret != &a) R ().fail (nm + "::operator=(T).returns-this", tname<A> ());
    }
}

// ------------------------------------------------------------------------------------------
// converting constructors / setValue / getValue between element types: component-wise cast.
// A source value v is used for a (S -> T) conversion only if T(v) is defined by C++.
// ------------------------------------------------------------------------------------------
template <class S> const std::vector<S>& conv_sources (); // generic + fractional + large + boundary values (c04_main.cpp)

template <class S, class T> inline bool conv_ok (S v)
{
    if (std::is_integral<T>::value && is_flt<S>::value)
    {   // floating -> integer is defined only if the truncated value is representable
        long double x = (long double) v;
        if (!(x == x) || std::isinf ((double) x)) return false;
        long double tr = truncl (x);
        return tr >= (long double) std::numeric_limits<T>::min () && tr <= (long double) std::numeric_limits<T>::max ();
    }
    return true; // int -> int (modular, implementation-defined), int -> float, float -> float (IEC 60559)
}
template <class S, class T> inline int conv_class (S v)
{
    if (is_flt<S>::value && (Pred<S>::nan (v) || Pred<S>::inf (v) || Pred<S>::negzero (v))) return K_CONV_SPECIAL;
    if (std::is_integral<T>::value && is_flt<S>::value) return ((long double) v != truncl ((long double) v)) ? K_CONV_TRUNC : -1;
    if ((long double) T (v) != (long double) v) return K_CONV_NARROW;
    return K_CONV_WIDEN;
}

// enumerate source tuples for an (S -> T) conversion: generic; every slot x every admissible source value
template <class S, class T, int N, class F> void conv_tuples (Tally& t, F&& f)
{
    S a[N], b[N];
    generic_tuple<S> (0, N, a, b);
    bool gen_ok = true;
    for (int i = 0; i < N; ++i) gen_ok = gen_ok && conv_ok<S, T> (a[i]);
    if (gen_ok) f (a);
    for (int k = 0; k < N; ++k)
        for (S v : conv_sources<S> ())
        {
            if (!conv_ok<S, T> (v)) continue;
            generic_tuple<S> (0, N, a, b);
            a[k] = v;
            int c = conv_class<S, T> (v);
            if (c >= 0) t.c[c]++;
            f (a);
        }
}

// Vec2/3/4, Color4, Shear6: A<T>(A<S>), setValue(A<S>), getValue(A<S>&), setValue(S...), getValue(S&...)
template <class A> struct ScalarSetGet; // setValue(S,S,..) / getValue(S&,S&,..) adaptors
template <class T> struct ScalarSetGet<Vec2<T>>
{
    template <class S> static void set (Vec2<T>& a, const S* v) { a.setValue (v[0], v[1]); }
    template <class S> static void get (const Vec2<T>& a, S* v) { a.getValue (v[0], v[1]); }
};
template <class T> struct ScalarSetGet<Vec3<T>>
{
    template <class S> static void set (Vec3<T>& a, const S* v) { a.setValue (v[0], v[1], v[2]); }
    template <class S> static void get (const Vec3<T>& a, S* v) { a.getValue (v[0], v[1], v[2]); }
};
template <class T> struct ScalarSetGet<Vec4<T>>
{
    template <class S> static void set (Vec4<T>& a, const S* v) { a.setValue (v[0], v[1], v[2], v[3]); }
    template <class S> static void get (const Vec4<T>& a, S* v) { a.getValue (v[0], v[1], v[2], v[3]); }
};
template <class T> struct ScalarSetGet<Color4<T>>
{
    template <class S> static void set (Color4<T>& a, const S* v) { a.setValue (v[0], v[1], v[2], v[3]); }
    template <class S> static void get (const Color4<T>& a, S* v) { a.getValue (v[0], v[1], v[2], v[3]); }
};
template <class T> struct ScalarSetGet<Shear6<T>>
{
    template <class S> static void set (Shear6<T>& a, const S* v) { a.setValue (v[0], v[1], v[2], v[3], v[4], v[5]); }
    template <class S> static void get (const Shear6<T>& a, S* v) { a.getValue (v[0], v[1], v[2], v[3], v[4], v[5]); }
};

// AT = A<T>, AS = A<S>; FULL: the type also has setValue/getValue in aggregate and scalar-list form
template <class AT, class AS> void convert_ctor (Tally& t)
{
    typedef typename Agg<AT>::E T;
    typedef typename Agg<AS>::E S;
    enum { N = Agg<AT>::N };
    std::string nm = Agg<AT>::name ();
    ++t.instances;
    conv_tuples<S, T, N> (t, [&] (const S* v) {
        T want[N];
        for (int i = 0; i < N; ++i) want[i] = T (v[i]);
        AS src = make<AS> (v);
        ++t.transitions; ++t.states;
        AT a (src);
        expect_tuple (nm + "::" + nm + "(const " + nm + "<S>&)", a, want, std::string ("S=") + ElName<S>::s () + " src=" + show_tuple (v, N));
    });
}
template <class AT, class AS> void convert_setget (Tally& t)
{
    typedef typename Agg<AT>::E T;
    typedef typename Agg<AS>::E S;
    enum { N = Agg<AT>::N };
    std::string nm = Agg<AT>::name ();
    t.instances += 4;
    T g0[N], g1[N];
    generic_tuple<T> (1, N, g0, g1);
    conv_tuples<S, T, N> (t, [&] (const S* v) {
        T want[N];
        for (int i = 0; i < N; ++i) want[i] = T (v[i]);
        std::string in = std::string ("S=") + ElName<S>::s () + " src=" + show_tuple (v, N);
        AS src = make<AS> (v);
        t.transitions += 4; ++t.states;
        AT a = make<AT> (g0);
        a.setValue (src);
        expect_tuple (nm + "::setValue(const " + nm + "<S>&)", a, want, in);
        AT b = make<AT> (g0);
        ScalarSetGet<AT>::set (b, v);
        expect_tuple (nm + "::setValue(S...)", b, want, in);
        // the reverse direction of the same pair: AS::getValue(AT&) casts S -> T
        AT c = make<AT> (g0);
        src.getValue (c);
        expect_tuple (nm + "::getValue(" + nm + "<S>&)", c, want, std::string ("from ") + in);
        T out[N];
        for (int i = 0; i < N; ++i) out[i] = g0[i];
        ScalarSetGet<AS>::get (src, out);
        AT d = make<AT> (out);
        expect_tuple (nm + "::getValue(S&...)", d, want, std::string ("from ") + in);
    });
}
// matrices: explicit Matrix<T>(Matrix<S>), setValue, setTheMatrix, getValue(Matrix<S>&)
template <class AT, class AS> void convert_matrix (Tally& t)
{
    typedef typename Agg<AT>::E T;
    typedef typename Agg<AS>::E S;
    enum { N = Agg<AT>::N };
    std::string nm = Agg<AT>::name ();
    t.instances += 4;
    T g0[N], g1[N];
    generic_tuple<T> (1, N, g0, g1);
    conv_tuples<S, T, N> (t, [&] (const S* v) {
        T want[N];
        for (int i = 0; i < N; ++i) want[i] = T (v[i]);
        std::string in = std::string ("S=") + ElName<S>::s () + " src=" + show_tuple (v, N);
        AS src = make<AS> (v);
        t.transitions += 4; ++t.states;
        AT a (src);
        expect_tuple (nm + "::" + nm + "(const " + nm + "<S>&)", a, want, in);
        AT b = make<AT> (g0);
        AT& rb = b.setValue (src);
        expect_tuple (nm + "::setValue(const " + nm + "<S>&)", b, want, in);
        if (&rb != &b) R ().fail (nm + "::setValue.returns-this", tname<AT> ());
        AT c = make<AT> (g0);
        c.setTheMatrix (src);
        expect_tuple (nm + "::setTheMatrix(const " + nm + "<S>&)", c, want, in);
        AT d = make<AT> (g0);
        src.getValue (d);
        expect_tuple (nm + "::getValue(" + nm + "<S>&)", d, want, std::string ("from ") + in);
    });
}

// ------------------------------------------------------------------------------------------
// interop with foreign types defined here (never seen by the library)
// ------------------------------------------------------------------------------------------
template <class T> struct FXY { T x, y; };
template <class T> struct FXYZ { T x, y, z; };
template <class T> struct FXYZW { T x, y, z, w; };
template <class T, int N> struct FSub
{
    T e[N];
    T operator[] (int i) const { return e[i]; }
};
template <class T, int N> struct FMat
{
    T        e[N][N];
    const T* operator[] (int i) const { return e[i]; }
};
template <class A> struct Named;
template <class T> struct Named<Vec2<T>> { typedef FXY<T> type; static type mk (const T* v) { type f; f.x = v[0]; f.y = v[1]; return f; } };
template <class T> struct Named<Vec3<T>> { typedef FXYZ<T> type; static type mk (const T* v) { type f; f.x = v[0]; f.y = v[1]; f.z = v[2]; return f; } };
template <class T> struct Named<Vec4<T>> { typedef FXYZW<T> type; static type mk (const T* v) { type f; f.x = v[0]; f.y = v[1]; f.z = v[2]; f.w = v[3]; return f; } };

template <class A> void interop_vec (Tally& t)
{
    typedef typename Agg<A>::E T;
    enum { N = Agg<A>::N };
    std::string nm = Agg<A>::name ();
    t.instances += 6;
    T g0[N], g1[N];
    generic_tuple<T> (1, N, g0, g1);
    layout_tuples<T, N> ([&] (const T* v) {
        std::string in = "src=" + show_tuple (v, N);
        ++t.states; t.transitions += 6;
        typename Named<A>::type f = Named<A>::mk (v);
        A a1 (f);
        expect_tuple (nm + ".interop.construct(named-members)", a1, v, in);
        A a2 = make<A> (g0);
        a2 = f;
        expect_tuple (nm + ".interop.assign(named-members)", a2, v, in);
        t.c[K_IOP_NAMED] += 2;
        FSub<T, N> s;
        for (int i = 0; i < N; ++i) s.e[i] = v[i];
        A a3 (s);
        expect_tuple (nm + ".interop.construct(subscript)", a3, v, in);
        A a4 = make<A> (g0);
        a4 = s;
        expect_tuple (nm + ".interop.assign(subscript)", a4, v, in);
        t.c[K_IOP_SUBSCRIPT] += 2;
        T arr[N];
        for (int i = 0; i < N; ++i) arr[i] = v[i];
        A a5 (arr);
        expect_tuple (nm + ".interop.construct(c-array)", a5, v, in);
        A a6 = make<A> (g0);
        a6 = arr;
        expect_tuple (nm + ".interop.assign(c-array)", a6, v, in);
        t.c[K_IOP_CARRAY] += 2;
    });
}
// Foreign types that qualify in two ways at once, or through a reference-returning subscript:
//  * FBoth: named members x, y(, z(, w)) of type T AND an operator[] that enumerates them in REVERSE order. The
//    statement's "one contiguous block of exactly N elements in declaration order" is the member order, and the
//    headers give the named-member form precedence (has_subscript && !has_xy..): the result must follow the members
//    (and the construction must not be ambiguous);
//  * FSubRef: operator[] returns const T& (the trait decays the subscript's type).
template <class T, int N> struct FBoth;
template <class T> struct FBoth<T, 2> { T x, y; T operator[] (int i) const { return i == 0 ? y : x; } };
template <class T> struct FBoth<T, 3> { T x, y, z; T operator[] (int i) const { return i == 0 ? z : i == 1 ? y : x; } };
template <class T> struct FBoth<T, 4> { T x, y, z, w; T operator[] (int i) const { return i == 0 ? w : i == 1 ? z : i == 2 ? y : x; } };
template <class T, int N> struct FSubRef
{
    T        e[N];
    const T& operator[] (int i) const { return e[i]; }
};
template <class A> void interop_vec_extra (Tally& t)
{
    typedef typename Agg<A>::E T;
    enum { N = Agg<A>::N };
    std::string nm = Agg<A>::name ();
    t.instances += 4;
    T g0[N], g1[N];
    generic_tuple<T> (1, N, g0, g1);
    layout_tuples<T, N> ([&] (const T* v) {
        std::string in = "src=" + show_tuple (v, N);
        ++t.states; t.transitions += 4;
        FBoth<T, N> f;
        T*          fm = reinterpret_cast<T*> (&f); // members in declaration order (standard layout, same type)
        for (int i = 0; i < N; ++i) fm[i] = v[i];
        A a1 (f);
        expect_tuple (nm + ".interop.construct(named-members+reversed-subscript)", a1, v, in);
        A a2 = make<A> (g0);
        a2 = f;
        expect_tuple (nm + ".interop.assign(named-members+reversed-subscript)", a2, v, in);
        t.c[K_IOP_BOTH] += 2;
        FSubRef<T, N> s;
        for (int i = 0; i < N; ++i) s.e[i] = v[i];
        A a3 (s);
        expect_tuple (nm + ".interop.construct(reference-returning-subscript)", a3, v, in);
        A a4 = make<A> (g0);
        a4 = s;
        expect_tuple (nm + ".interop.assign(reference-returning-subscript)", a4, v, in);
        t.c[K_IOP_SUBREF] += 2;
    });
}
template <class A, int ROWS> void interop_matrix (Tally& t)
{
    typedef typename Agg<A>::E T;
    enum { N = Agg<A>::N };
    std::string nm = Agg<A>::name ();
    t.instances += 3;
    T g0[N], g1[N];
    generic_tuple<T> (1, N, g0, g1);
    layout_tuples<T, N> ([&] (const T* v) {
        std::string in = "src=" + show_tuple (v, N);
        ++t.states; t.transitions += 3;
        FMat<T, ROWS> f;
        T             arr[ROWS][ROWS];
        for (int i = 0; i < N; ++i) f.e[i / ROWS][i % ROWS] = arr[i / ROWS][i % ROWS] = v[i];
        A a1 (f);
        expect_tuple (nm + ".interop.construct(double-subscript)", a1, v, in);
        A a2 = make<A> (g0);
        a2 = f;
        expect_tuple (nm + ".interop.assign(double-subscript)", a2, v, in);
        A a3 = make<A> (g0);
        a3 = arr;
        expect_tuple (nm + ".interop.assign(c-array)", a3, v, in);
        t.c[K_IOP_DSUB] += 2; t.c[K_IOP_CARRAY] += 1;
    });
}

// ------------------------------------------------------------------------------------------
// stream output
// ------------------------------------------------------------------------------------------
struct StreamState
{
    const char* name;
    int         cls;
    void (*apply) (std::ostream&);
};
inline const std::vector<StreamState>& stream_states ()
{
    static const std::vector<StreamState> s = {
        {"default", K_STR_DEFAULT, [] (std::ostream&) {}},
        {"fixed", K_STR_FIXED, [] (std::ostream& o) { o << std::fixed; }},
        {"precision(3)", K_STR_PREC3, [] (std::ostream& o) { o.precision (3); }},
        {"fixed precision(3)", K_STR_FIXED, [] (std::ostream& o) { o << std::fixed; o.precision (3); }},
        {"scientific precision(10)", K_STR_SCI, [] (std::ostream& o) { o << std::scientific; o.precision (10); }},
    };
    return s;
}
inline std::vector<std::string> split_ws (const std::string& s)
{
    std::vector<std::string> out;
    std::istringstream       is (s);
    std::string              w;
    while (is >> w) out.push_back (w);
    return out;
}
inline std::string qstr (const std::string& s)
{
    std::string o = "\"";
    for (char c : s) { if (c == '\n') o += "\\n"; else o += c; }
    return o + "\"";
}

// Magnitude variants of a generic tuple for the stream tests: mag 0 = as is; mag 1 = large values of alternating
// sign (wider than any field width an inserter might assume: >= 10^5 for floating types, near the type's extremes
// for integers); mag 2 = tiny values (floating types only; returns false for integers). What is printed is compared
// with the same value printed alone, so the values need not be exact.
template <class T> inline bool stream_magnitude (int mag, int n, T* v)
{
    if (mag == 0) return true;
    if (std::numeric_limits<T>::is_integer)
    {
        if (mag != 1) return false;
        for (int k = 0; k < n; ++k)
        {
            T big = (T) (std::numeric_limits<T>::max () / 2 - v[k]);
            v[k]  = (std::numeric_limits<T>::is_signed && (k & 1)) ? (T) (-big) : big;
        }
        return true;
    }
    const double f = mag == 1 ? (sizeof (T) == 2 ? 100.0 : 1.0e5) : (mag == 2 ? 1.0e-7 : 1.0e12);
    if (mag == 3 && sizeof (T) == 2) return false;
    if (mag > 3) return false;
    for (int k = 0; k < n; ++k)
    {
        double x = (double) v[k] * f + (mag == 1 ? 0.5 : 0.0);
        v[k]     = (T) ((k & 1) ? -x : x);
    }
    return true;
}

// Judge one printed aggregate against its components printed alone (non-template: shared by every instantiation).
// `sfx` confines the site to the input class: "" for the five original stream states on generic tuples,
// ".extended-state" for the flag product below, ".special-value" when a component is -0 / inf / NaN / denormal.
inline void stream_judge (const std::string& nm, const std::string& sfx, const std::string& in, const std::string& text,
                          const std::vector<std::string>& comp, int N, int ROWS, const char* (*slot) (int))
{
    // 1. one pair of parentheses around everything (matrices end with a newline after ')')
    std::string body = text;
    while (!body.empty () && (body.back () == '\n' || body.back () == ' ')) body.pop_back ();
    if (body.size () < 2 || body.front () != '(' || body.back () != ')' || body.find ('(', 1) != std::string::npos ||
        body.find (')') != body.size () - 1)
    {
        R ().fail (nm + "::operator<<.parentheses" + sfx, in, "( ... )", qstr (text));
        return;
    }
    std::string inner = body.substr (1, body.size () - 2);
    // 2. tokenise: exactly one token per component, each equal to the component's own text
    std::vector<std::string> tok = split_ws (inner);
    std::string want_line;
    for (int k = 0; k < N; ++k) want_line += (k ? " " : "") + comp[k];
    if ((int) tok.size () != N)
    {
        std::string site = nm + "::operator<<.tokens";
        // recognisable sub-class: two adjacent components printed with no separator
        if ((int) tok.size () == N - 1)
            for (int k = 0; k + 1 < N; ++k)
            {
                bool fused = tok[k] == comp[k] + comp[k + 1];
                for (int j = 0; fused && j < k; ++j) fused = tok[j] == comp[j];
                for (int j = k + 2; fused && j < N; ++j) fused = tok[j - 1] == comp[j];
                if (fused) { site += std::string (".fused-") + slot (k) + "-" + slot (k + 1); break; }
            }
        R ().fail (site + sfx, in, std::to_string (N) + " tokens: " + qstr (want_line), std::to_string (tok.size ()) + " tokens: " + qstr (text));
        return;
    }
    for (int k = 0; k < N; ++k)
        if (tok[k] != comp[k])
        {
            R ().fail (nm + "::operator<<.tokens" + sfx, in + " token " + std::to_string (k), qstr (comp[k]), qstr (tok[k]) + " in " + qstr (text));
            return;
        }
    // 3. line structure
    if (!ROWS)
    {
        if (text != "(" + want_line + ")")
            R ().fail (nm + "::operator<<.format" + sfx, in, qstr ("(" + want_line + ")"), qstr (text));
    }
    else
    {
        std::vector<std::string> lines;
        std::string cur;
        for (char c : inner) { if (c == '\n') { lines.push_back (cur); cur.clear (); } else cur += c; }
        lines.push_back (cur);
        bool ok = (int) lines.size () == ROWS;
        for (int r = 0; ok && r < ROWS; ++r) ok = (int) split_ws (lines[r]).size () == ROWS;
        if (!ok) R ().fail (nm + "::operator<<.format" + sfx, in, std::to_string (ROWS) + " lines of " + std::to_string (ROWS) + " tokens", qstr (text));
    }
}

// The extended stream-state product. The statement describes the output under formatting states that keep the fill
// character a space and the adjustment left or right (a non-space fill or std::internal interacts with the matrix
// inserters' deliberate setw-based column alignment, and a caller's setw(k) is consumed by the opening parenthesis:
// both are outside the statement and not enumerated).
//   floating element types: floatfield/precision {default, fixed, precision(3), fixed precision(3), scientific
//                           precision(10), hexfloat} x adjustfield {unset, left, right} x showpos x uppercase  (72)
//   integer element types:  basefield {dec, hex, oct} x showbase x adjustfield {unset, left, right} x showpos x uppercase (72)
struct ExtState
{
    int  ff, adj, base;
    bool showpos, upper, showbase;
    void apply (std::ostream& o) const
    {
        switch (ff)
        {
            case 1: o << std::fixed; break;
            case 2: o.precision (3); break;
            case 3: o << std::fixed; o.precision (3); break;
            case 4: o << std::scientific; o.precision (10); break;
            case 5: o.setf (std::ios_base::fixed | std::ios_base::scientific, std::ios_base::floatfield); break; // hexfloat
            default: break;
        }
        if (adj == 1) o << std::left; else if (adj == 2) o << std::right;
        if (base == 1) o << std::hex; else if (base == 2) o << std::oct;
        if (showpos) o << std::showpos;
        if (upper) o << std::uppercase;
        if (showbase) o << std::showbase;
    }
    std::string name () const
    {
        static const char* F[] = {"", "fixed ", "precision(3) ", "fixed precision(3) ", "scientific precision(10) ", "hexfloat "};
        static const char* A[] = {"", "left ", "right "};
        static const char* B[] = {"", "hex ", "oct "};
        std::string n = std::string (F[ff]) + A[adj] + B[base] + (showpos ? "showpos " : "") + (upper ? "uppercase " : "") + (showbase ? "showbase " : "");
        if (n.empty ()) return "default";
        n.pop_back ();
        return n;
    }
    bool original () const { return ff < 5 && !adj && !base && !showpos && !upper && !showbase; } // one of stream_states()
    void classify (Tally& t) const
    {
        t.c[K_STR_SHOWPOS] += showpos; t.c[K_STR_LEFT] += adj == 1; t.c[K_STR_RIGHT] += adj == 2; t.c[K_STR_UPPER] += upper;
        t.c[K_STR_HEXFLOAT] += ff == 5; t.c[K_STR_HEXINT] += base == 1; t.c[K_STR_OCTINT] += base == 2; t.c[K_STR_SHOWBASE] += showbase;
    }
};
inline std::vector<ExtState> ext_states (bool integer_elements)
{
    std::vector<ExtState> out;
    for (int x = 0; x < 6; ++x)
        for (int adj = 0; adj < 3; ++adj)
            for (int sp = 0; sp < 2; ++sp)
                for (int up = 0; up < 2; ++up)
                {
                    ExtState e;
                    e.adj = adj; e.showpos = sp; e.upper = up;
                    if (integer_elements) { e.ff = 0; e.base = x % 3; e.showbase = x >= 3; }
                    else { e.ff = x; e.base = 0; e.showbase = false; }
                    out.push_back (e);
                }
    return out;
}

// print `a` and each of its components alone under the state installed by `apply`, and judge
template <class A, class Apply> void stream_one (Tally& t, const typename Agg<A>::E* v, Apply&& apply, const std::string& state_name, const std::string& sfx)
{
    typedef typename Agg<A>::E T;
    enum { N = Agg<A>::N, ROWS = Agg<A>::ROWS };
    A                  a = make<A> (v);
    std::ostringstream os;
    apply (os);
    os << a;
    ++t.states; ++t.transitions;
    // each component printed alone, under the caller's stream state (matrices: plus the
    // showpoint / scientific-unless-fixed flags their operator<< installs for the elements)
    std::vector<std::string> comp;
    for (int k = 0; k < N; ++k)
    {
        std::ostringstream cs;
        apply (cs);
        if (ROWS)
        {
            if (!(cs.flags () & std::ios_base::fixed)) cs.setf (std::ios_base::scientific);
            cs.setf (std::ios_base::showpoint);
        }
        cs << v[k];
        comp.push_back (cs.str ());
    }
    stream_judge (Agg<A>::name (), sfx, tname<A> () + " state=" + state_name + " v=" + show_tuple (v, N), os.str (), comp, N, ROWS, &Agg<A>::slot);
}

template <class A> void stream_test (Tally& t)
{
    typedef typename Agg<A>::E T;
    enum { N = Agg<A>::N, ROWS = Agg<A>::ROWS };
    ++t.instances;
    T ga[N], gb[N];
    // (a) the five original states x every generic tuple x every magnitude
    for (const StreamState& st : stream_states ())
        for (int g = 0; g < NGENERIC; ++g)
            for (int pass = 0; pass < 2; ++pass)
            for (int mag = 0; mag < 4; ++mag)
            {
                if (g == 1 && pass == 1) continue; // repeats g=0's a-tuple
                generic_tuple<T> (g, N, ga, gb);
                T vm[N];
                for (int k = 0; k < N; ++k) vm[k] = pass ? gb[k] : ga[k];
                if (!stream_magnitude<T> (mag, N, vm)) continue;
                t.c[st.cls]++;
                stream_one<A> (t, vm, st.apply, st.name, "");
            }
    // special components (floating element types): each slot x {-0, +-inf, NaN, +-denorm_min}, the other slots generic
    std::vector<T> special;
    for (T x : alphaB<T> ())
        if (Pred<T>::negzero (x) || Pred<T>::inf (x) || Pred<T>::nan (x) || Pred<T>::denorm (x)) special.push_back (x);
    auto specials = [&] (const std::function<void (std::ostream&)>& apply, const std::string& name) {
        for (int k = 0; k < N; ++k)
            for (T x : special)
            {
                generic_tuple<T> (0, N, ga, gb);
                ga[k] = x;
                t.c[K_STR_NEGZERO] += Pred<T>::negzero (x); t.c[K_STR_INF] += Pred<T>::inf (x); t.c[K_STR_NAN] += Pred<T>::nan (x); t.c[K_STR_DENORM] += Pred<T>::denorm (x);
                stream_one<A> (t, ga, apply, name, ".special-value");
            }
    };
    for (const StreamState& st : stream_states ()) specials (st.apply, st.name);
    // (b) the extended flag product x {positive primes, negated primes} x {as is, large, tiny}; and the special components
    for (const ExtState& e : ext_states (std::numeric_limits<T>::is_integer))
    {
        if (e.original ()) continue;
        auto apply = [&e] (std::ostream& o) { e.apply (o); };
        const std::string name = e.name ();
        for (int g = 0; g < 2; ++g)
            for (int mag = 0; mag < 3; ++mag)
            {
                generic_tuple<T> (g, N, ga, gb);
                if (!stream_magnitude<T> (mag, N, ga)) continue;
                e.classify (t);
                stream_one<A> (t, ga, apply, name, ".extended-state");
            }
        specials (apply, name);
    }
}

// ------------------------------------------------------------------------------------------
// registration entry points, one per TU
// ------------------------------------------------------------------------------------------
void register_vec2i (Jobs&); void register_vec2f (Jobs&);
void register_vec3i (Jobs&); void register_vec3f (Jobs&);
void register_vec4i (Jobs&); void register_vec4f (Jobs&);
void register_color3 (Jobs&); void register_color4 (Jobs&);
void register_shearquat (Jobs&);
void register_m22m33 (Jobs&); void register_m44 (Jobs&);
void register_conv_vec2 (Jobs&); void register_conv_vec3 (Jobs&); void register_conv_vec4 (Jobs&);
void register_conv_misc (Jobs&);
void register_stream (Jobs&);

#define C04_JOB(stage, ...) jobs.push_back ({stage, [] () { Tally t; __VA_ARGS__; }})

// family registration helpers (what each class template provides)
template <class A> void reg_vec (Jobs& jobs) // Vec2/3/4
{
    C04_JOB (ST_ARITH, arith_vec_like<A> (t, 0));
    C04_JOB (ST_ARITH, arith_vec_like<A> (t, 1));
    C04_JOB (ST_ARITH, arith_vec_like<A> (t, 2));
    C04_JOB (ST_EQ, EqTest<A> (t).run (); ApxTest<A> (t).run ());
    C04_JOB (ST_LAYOUT, layout_core<A> (t); layout_getvalue<A> (t); layout_broadcast<A> (t); interop_vec<A> (t); interop_vec_extra<A> (t));
}
template <class A> void reg_color3 (Jobs& jobs) // inherits ==, equalWith*, [], getValue from Vec3
{
    C04_JOB (ST_ARITH, arith_vec_like<A> (t, 0));
    C04_JOB (ST_ARITH, arith_vec_like<A> (t, 1));
    C04_JOB (ST_ARITH, arith_vec_like<A> (t, 2));
    C04_JOB (ST_EQ, EqTest<A> (t).run (); ApxTest<A> (t).run ());
    C04_JOB (ST_LAYOUT, layout_core<A> (t); layout_getvalue<A> (t); layout_broadcast<A> (t));
}
template <class A> void reg_color4 (Jobs& jobs) // no equalWith*
{
    C04_JOB (ST_ARITH, arith_vec_like<A> (t, 0));
    C04_JOB (ST_ARITH, arith_vec_like<A> (t, 1));
    C04_JOB (ST_ARITH, arith_vec_like<A> (t, 2));
    C04_JOB (ST_EQ, EqTest<A> (t).run ());
    C04_JOB (ST_LAYOUT, layout_core<A> (t); layout_getvalue<A> (t); layout_broadcast<A> (t));
}
template <class A> void reg_shear6 (Jobs& jobs)
{
    C04_JOB (ST_ARITH, arith_vec_like<A> (t, 0));
    C04_JOB (ST_ARITH, arith_vec_like<A> (t, 1));
    C04_JOB (ST_ARITH, arith_vec_like<A> (t, 2));
    C04_JOB (ST_EQ, EqTest<A> (t).run (); ApxTest<A> (t).run ());
    C04_JOB (ST_LAYOUT, layout_core<A> (t); layout_getvalue<A> (t));
}
template <class A> void reg_quat (Jobs& jobs)
{
    C04_JOB (ST_ARITH, arith_quat<A> (t, 0));
    C04_JOB (ST_ARITH, arith_quat<A> (t, 1));
    C04_JOB (ST_ARITH, arith_quat<A> (t, 2));
    C04_JOB (ST_EQ, EqTest<A> (t).run ());
    C04_JOB (ST_LAYOUT, layout_core<A> (t));
}
template <class A, int ROWS> void reg_matrix (Jobs& jobs)
{
    C04_JOB (ST_ARITH, arith_matrix<A> (t, 0));
    C04_JOB (ST_ARITH, arith_matrix<A> (t, 1));
    C04_JOB (ST_ARITH, arith_matrix<A> (t, 2));
    C04_JOB (ST_EQ, EqTest<A> (t).run (); ApxTest<A> (t).run ());
    C04_JOB (ST_LAYOUT, layout_core<A> (t); layout_getvalue<A> (t); layout_broadcast<A> (t); layout_matrix_extra<A, ROWS> (t); interop_matrix<A, ROWS> (t));
}

} // namespace c04
