// C13 — set-level stage: a Box / Interval is exactly {p : min <= p <= max}. Oracle: the box as a bitset of
// the lattice points {-1..4}^D it contains, built from the definition. Everything else (membership,
// box-box intersection, symmetry, isEmpty, hasVolume) is read off the bitsets; size/center/majorAxis are
// functions of min,max evaluated in exact integer arithmetic.
#pragma once
#include "c13_common.hpp"

namespace c13 {

template <class V> struct Lat
{
    typedef Shape<V>           S;
    typedef typename S::T      T;
    typedef typename S::Box    B;
    enum { D = S::D };
    static uint64_t NB () { return ex::ipow (16, D); } // (min,max) in {0..3}^2 per axis, inverted included
    static uint64_t NP () { return ex::ipow (6, D); }  // points {-1..4}^D
    static int      W () { return (int) ((NP () + 63) / 64); }
    static void boxcoords (uint64_t idx, int* mn, int* mx)
    {
        for (int i = 0; i < D; ++i) { int d = (int) (idx % 16); idx /= 16; mn[i] = d % 4; mx[i] = d / 4; }
    }
    static void ptcoords (uint64_t idx, int* c) { ex::decode (idx, 6, D, c, -1); }
};

// Signature of the known defect (used ONLY to name the site of a failure, never as the oracle): the answer
// one gets by comparing the (min,max) intervals axis by axis without noticing that an operand is inverted.
template <class V> inline bool intervalwise (const typename Shape<V>::Box& a, const typename Shape<V>::Box& b)
{
    typedef Shape<V> S;
    for (int i = 0; i < S::D; ++i)
        if (!(S::at (b.min, i) <= S::at (a.max, i) && S::at (b.max, i) >= S::at (a.min, i))) return false;
    return true;
}

template <class V> inline std::string pairstr (const typename Shape<V>::Box& a, const typename Shape<V>::Box& b)
{
    return "a=" + bstr<V> (a) + " b=" + bstr<V> (b);
}

template <class V, class G, class BV, class GV>
typename std::enable_if<is_scalar_elem<V>::value>::type majoraxis_part (const BV&, const GV&, const std::vector<uint8_t>&, long long&) {}

template <class V, class G, class BV, class GV>
typename std::enable_if<!is_scalar_elem<V>::value>::type
majoraxis_part (const BV& box, const GV& gbox, const std::vector<uint8_t>& empty, long long& trans)
{
    typedef Lat<V> L; typedef Shape<V> S;
    const bool twin = !std::is_same<V, G>::value;
    const int  D = S::D;
    long long  ties = 0;
    for (uint64_t b = 0; b < L::NB (); ++b)
    {
        int mn[4], mx[4]; L::boxcoords (b, mn, mx);
        int best = 0, nbest = 0;
        for (int i = 0; i < D; ++i) { int s = empty[b] ? 0 : mx[i] - mn[i]; if (s > best) best = s; }
        for (int i = 0; i < D; ++i) { int s = empty[b] ? 0 : mx[i] - mn[i]; if (s == best) ++nbest; }
        unsigned a = box[b].majorAxis ();
        int      sa = a < (unsigned) D ? (empty[b] ? 0 : mx[a] - mn[a]) : -1;
        if (sa != best)
            vf::R ().fail (std::string (S::kind ()) + "::majorAxis", bstr<V> (box[b]), "an axis of size " + std::to_string (best), "axis " + std::to_string (a));
        if (twin && gbox[b].majorAxis () != a)
            vf::R ().fail ("generic-vs-specialisation.majorAxis", bstr<V> (box[b]), std::to_string (a), std::to_string (gbox[b].majorAxis ()));
        if (nbest > 1) ++ties;
        trans += twin ? 2 : 1;
    }
    vf::R ().cls ("majorAxis.tie", ties);
}

// V: the shape under test; G: the generic-template twin stepped in lock-step (G == V: none)
template <class V, class G> bool sets_one (bool thorough)
{
    typedef Lat<V>          L;
    typedef Shape<V>        S;
    typedef typename S::T   T;
    typedef typename S::Box B;
    typedef typename Shape<G>::Box GB;
    const bool      twin = !std::is_same<V, G>::value;
    const int       D = S::D, W = L::W ();
    const uint64_t  NB = L::NB (), NP = L::NP ();
    const std::string K = S::kind ();
    auto& R = vf::R ();

    // ---- the oracle: bitset of contained lattice points, from the definition ---------------------
    std::vector<uint64_t> bits (NB * W, 0);
    std::vector<B>        box (NB);
    std::vector<GB>       gbox (twin ? NB : 0);
    std::vector<uint8_t>  empty (NB);
    std::vector<V>        pts (NP);
    std::vector<G>        gpts (twin ? NP : 0);
    for (uint64_t p = 0; p < NP; ++p)
    {
        int c[4]; L::ptcoords (p, c);
        pts[p] = mkpt<V> (c);
        if (twin) gpts[p] = mkpt<G> (c);
    }
    long long n_inv = 0, n_flat = 0, n_point = 0, n_vol = 0;
    for (uint64_t b = 0; b < NB; ++b)
    {
        int mn[4], mx[4]; L::boxcoords (b, mn, mx);
        box[b] = mkbox<V> (mn, mx);
        if (twin) gbox[b] = mkbox<G> (mn, mx);
        bool any = false;
        for (uint64_t p = 0; p < NP; ++p)
        {
            int c[4]; L::ptcoords (p, c);
            bool in = true;
            for (int i = 0; i < D; ++i) in = in && mn[i] <= c[i] && c[i] <= mx[i];
            if (in) { bits[b * W + p / 64] |= 1ull << (p % 64); any = true; }
        }
        empty[b] = !any;
    }

    // ---- per-box queries and point membership ------------------------------------------------------
    long long trans = 0;
    for (uint64_t b = 0; b < NB; ++b)
    {
        int mn[4], mx[4]; L::boxcoords (b, mn, mx);
        const B&    bx = box[b];
        std::string in = bstr<V> (bx);
        // membership, every lattice point
        for (uint64_t p = 0; p < NP; ++p)
        {
            bool want = (bits[b * W + p / 64] >> (p % 64)) & 1;
            bool got  = bx.intersects (pts[p]);
            if (got != want) R.fail (K + "::intersects(point)", in + " p=" + vstr<V> (pts[p]), vf::fmt (want), vf::fmt (got));
            if (twin && gbox[b].intersects (gpts[p]) != got)
                R.fail ("generic-vs-specialisation.intersects(point)", in + " p=" + vstr<V> (pts[p]), vf::fmt (got), vf::fmt (!got));
        }
        trans += (long long) NP * (twin ? 2 : 1);
        // isEmpty <=> contains no lattice point (integer bounds: no real point either)
        bool e = empty[b];
        if (bx.isEmpty () != e) R.fail (K + "::isEmpty", in, vf::fmt (e), vf::fmt (bx.isEmpty ()));
        // hasVolume <=> D-dimensional volume > 0 <=> the set contains some p together with p + (1,..,1)
        bool vol = false;
        for (uint64_t p = 0; p < NP && !vol; ++p)
            if ((bits[b * W + p / 64] >> (p % 64)) & 1)
            {
                int c[4]; L::ptcoords (p, c);
                bool ok = true;
                for (int i = 0; i < D; ++i) ok = ok && c[i] + 1 <= mx[i];
                vol = ok;
            }
        if (bx.hasVolume () != vol) R.fail (K + "::hasVolume", in, vf::fmt (vol), vf::fmt (bx.hasVolume ()));
        if (bx.isInfinite ()) R.fail (K + "::isInfinite", in, "false", "true");
        // size: 0 for the empty set, max-min otherwise
        auto sz = bx.size ();
        int  want_sz[4], best = 0;
        for (int i = 0; i < D; ++i) { want_sz[i] = e ? 0 : mx[i] - mn[i]; if (want_sz[i] > best) best = want_sz[i]; }
        for (int i = 0; i < D; ++i)
            if (S::at (sz, i) != (T) want_sz[i]) { R.fail (K + "::size", in, "axis " + std::to_string (i) + " = " + std::to_string (want_sz[i]), vstr<V> (sz)); break; }
        // center (documented as undefined for an empty box): (max+min)/2, integer division truncating
        if (!e)
        {
            auto c = bx.center ();
            for (int i = 0; i < D; ++i)
            {
                T want = std::is_integral<T>::value ? (T) ((mx[i] + mn[i]) / 2) : (T) ((mx[i] + mn[i]) / 2.0);
                if (S::at (c, i) != want) { R.fail (K + "::center", in, "axis " + std::to_string (i) + " = " + cs (want), vstr<V> (c)); break; }
            }
            trans += 1;
        }
        trans += 4;
        if (twin)
        {
            const GB& g = gbox[b];
            if (g.isEmpty () != bx.isEmpty ()) R.fail ("generic-vs-specialisation.isEmpty", in, vf::fmt (bx.isEmpty ()), vf::fmt (g.isEmpty ()));
            if (g.hasVolume () != bx.hasVolume ()) R.fail ("generic-vs-specialisation.hasVolume", in, vf::fmt (bx.hasVolume ()), vf::fmt (g.hasVolume ()));
            if (g.isInfinite () != bx.isInfinite ()) R.fail ("generic-vs-specialisation.isInfinite", in, vf::fmt (bx.isInfinite ()), vf::fmt (g.isInfinite ()));
            auto gs = g.size (); auto gc = g.center ();
            auto sc = bx.center ();
            for (int i = 0; i < D; ++i)
            {
                if (!ex::same (Shape<G>::at (gs, i), S::at (sz, i))) { R.fail ("generic-vs-specialisation.size", in, vstr<V> (sz), vstr<G> (gs)); break; }
                if (!ex::same (Shape<G>::at (gc, i), S::at (sc, i))) { R.fail ("generic-vs-specialisation.center", in, vstr<V> (sc), vstr<G> (gc)); break; }
            }
            trans += 5;
        }
        if (e) ++n_inv; else if (vol) ++n_vol; else if (best == 0) ++n_point; else ++n_flat;
    }
    R.cls ("box.inverted", n_inv); R.cls ("box.flat", n_flat); R.cls ("box.single-point", n_point); R.cls ("box.with-volume", n_vol);
    R.add ("states", (long long) (NB + NP));
    R.add ("evaluations", (long long) (NB * NP));
    if (is_half<T>::value) R.cls ("half.sets.membership-queries", (long long) (NB * NP));

    // ---- box-box intersection, all ordered pairs --------------------------------------------------
    std::vector<uint32_t> sel;
    for (uint64_t b = 0; b < NB; ++b)
    {
        int mn[4], mx[4]; L::boxcoords (b, mn, mx);
        bool keep = true;
        if (D == 4 && !thorough) // quick tier, 4-D: coordinates {0,1,2} (43 M ordered pairs instead of 4.3 G)
            for (int i = 0; i < D; ++i) keep = keep && mn[i] <= 2 && mx[i] <= 2;
        if (keep) sel.push_back ((uint32_t) b);
    }
    // oracle speed-up only: range of non-zero words of each bitset (empty range for an empty set)
    std::vector<int> wlo (NB, W), whi (NB, -1);
    for (uint64_t b = 0; b < NB; ++b)
        for (int w = 0; w < W; ++w) if (bits[b * W + w]) { if (w < wlo[b]) wlo[b] = w; whi[b] = w; }
    std::atomic<long long> c_inv (0), c_touch (0), c_overlap (0), c_disj (0), c_pairs (0), c_trans (0);
    const uint64_t NS = sel.size ();
    bool complete = vf::parallel_chunks (NS, NS > 4096 ? 16 : 8, [&] (uint64_t lo, uint64_t hi, unsigned) {
        long long l_inv = 0, l_touch = 0, l_overlap = 0, l_disj = 0;
        for (uint64_t ia = lo; ia < hi; ++ia)
        {
            const uint32_t  a  = sel[ia];
            const uint64_t* wa = &bits[(uint64_t) a * W];
            int amn[4], amx[4]; L::boxcoords (a, amn, amx);
            for (uint64_t ib = 0; ib < NS; ++ib)
            {
                const uint32_t  b  = sel[ib];
                const uint64_t* wb = &bits[(uint64_t) b * W];
                bool common = false;
                for (int w = std::max (wlo[a], wlo[b]), we = std::min (whi[a], whi[b]); w <= we && !common; ++w) common = (wa[w] & wb[w]) != 0;
                const bool want = common; // share a lattice point <=> share a real point (integer bounds)
                const bool got  = box[a].intersects (box[b]);
                const bool rev  = box[b].intersects (box[a]);
                const bool inv  = empty[a] || empty[b];
                if (got != want)
                {
                    // narrow site for the known defect: an inverted (hence empty) operand is treated by its
                    // interval-wise overlap. Anything else - also on inverted operands - goes to the general site.
                    int bmn[4], bmx[4]; L::boxcoords (b, bmn, bmx);
                    bool ivw = true;
                    for (int i = 0; i < D; ++i) ivw = ivw && bmn[i] <= amx[i] && bmx[i] >= amn[i];
                    const char* sfx = (inv && got == ivw) ? "::intersects(Box).inverted-operand" : "::intersects(Box)";
                    fail_lazy (K + sfx, [&] { return pairstr<V> (box[a], box[b]) + " [a.intersects(b)]"; }, [&] { return vf::fmt (want); }, [&] { return vf::fmt (got); });
                }
                if (got != rev)
                    vf::R ().fail (K + "::intersects(Box).symmetry", pairstr<V> (box[a], box[b]), "a.intersects(b) == b.intersects(a)",
                                   vf::fmt (got) + " vs " + vf::fmt (rev));
                if (twin && gbox[a].intersects (gbox[b]) != got)
                    vf::R ().fail ("generic-vs-specialisation.intersects(Box)", pairstr<V> (box[a], box[b]), vf::fmt (got), vf::fmt (!got));
                if (inv) ++l_inv;
                else if (!want) ++l_disj;
                else
                {   // touching = the common set has no volume
                    int cnt[4] = {0, 0, 0, 0}; bool flatc = false;
                    int bmn[4], bmx[4]; L::boxcoords (b, bmn, bmx);
                    for (int i = 0; i < D; ++i) { cnt[i] = std::min (amx[i], bmx[i]) - std::max (amn[i], bmn[i]); if (cnt[i] == 0) flatc = true; }
                    if (flatc) ++l_touch; else ++l_overlap;
                }
            }
        }
        c_inv += l_inv; c_touch += l_touch; c_overlap += l_overlap; c_disj += l_disj;
        c_pairs += (long long) (hi - lo) * (long long) NS;
        c_trans += (long long) (hi - lo) * (long long) NS * (twin ? 3 : 2);
    });
    R.cls ("pair.inverted-operand", c_inv); R.cls ("pair.boundary-contact-only", c_touch);
    R.cls ("pair.overlap", c_overlap); R.cls ("pair.disjoint.generic", c_disj);
    R.add ("evaluations", c_pairs.load ());
    R.add ("box_pairs", c_pairs.load ());
    if (is_half<T>::value) R.cls ("half.sets.box-pairs", c_pairs.load ());
    trans += c_trans.load ();

    // ---- canonical empty / infinite ---------------------------------------------------------------
    {
        std::vector<T> E = {ElemLimits<T>::lowest (), (T) -1, (T) 0, (T) 1, ElemLimits<T>::max ()};
        if (!std::is_integral<T>::value) { E.push_back (std::numeric_limits<T>::denorm_min ()); E.push_back ((T) -std::numeric_limits<T>::denorm_min ()); }
        const int one[4] = {1, 1, 1, 1}, two[4] = {2, 2, 2, 2};
        B dflt; B me (mkpt<V> (one), mkpt<V> (two)); me.makeEmpty ();
        B inf (mkpt<V> (one)); inf.makeInfinite ();
        struct Named { const B* b; const char* n; bool isinf; } cs3[3] = {{&dflt, "default-constructed", false}, {&me, "makeEmpty()", false}, {&inf, "makeInfinite()", true}};
        for (auto& c : cs3)
        {
            const B& bx = *c.b; std::string in = S::name () + " " + c.n;
            if (bx.isEmpty () == c.isinf) R.fail (K + "::isEmpty.canonical", in, vf::fmt (!c.isinf), vf::fmt (bx.isEmpty ()));
            if (bx.isInfinite () != c.isinf) R.fail (K + "::isInfinite.canonical", in, vf::fmt (c.isinf), vf::fmt (bx.isInfinite ()));
            if (bx.hasVolume () != c.isinf) R.fail (K + "::hasVolume.canonical", in, vf::fmt (c.isinf), vf::fmt (bx.hasVolume ()));
            if (!c.isinf)
            {
                auto sz = bx.size ();
                for (int i = 0; i < D; ++i) if (S::at (sz, i) != (T) 0) { R.fail (K + "::size.canonical", in, "0", vstr<V> (sz)); break; }
                if (!canonical_empty<V> (bx)) R.fail (K + "::makeEmpty.representation", in, "min=MAX max=LOWEST", bstr<V> (bx));
            }
            // membership: lattice points and the extreme alphabet E^D
            for (uint64_t p = 0; p < NP; ++p)
                if (bx.intersects (pts[p]) != c.isinf) R.fail (K + "::intersects(point).canonical", in + " p=" + vstr<V> (pts[p]), vf::fmt (c.isinf), vf::fmt (!c.isinf));
            uint64_t NE = ex::ipow (E.size (), D);
            for (uint64_t q = 0; q < NE; ++q)
            {
                int d[4]; ex::decode (q, (unsigned) E.size (), D, d);
                V p; for (int i = 0; i < D; ++i) S::at (p, i) = E[d[i]];
                if (bx.intersects (p) != c.isinf) R.fail (K + "::intersects(point).canonical", in + " p=" + vstr<V> (p), vf::fmt (c.isinf), vf::fmt (!c.isinf));
            }
            trans += (long long) (NP + NE) + 4;
            // against every lattice box, both directions: the empty set meets nothing, the infinite box meets every non-empty box
            for (uint64_t b = 0; b < NB; ++b)
            {
                bool want = c.isinf && !empty[b];
                bool g1 = bx.intersects (box[b]), g2 = box[b].intersects (bx);
                const bool  inv = empty[b] || !c.isinf;
                const char* s1 = (inv && g1 == intervalwise<V> (bx, box[b])) ? "::intersects(Box).inverted-operand" : "::intersects(Box)";
                const char* s2 = (inv && g2 == intervalwise<V> (box[b], bx)) ? "::intersects(Box).inverted-operand" : "::intersects(Box)";
                if (g1 != want) fail_lazy (K + s1, [&] { return "a=" + in + " b=" + bstr<V> (box[b]) + " [a.intersects(b)]"; }, [&] { return vf::fmt (want); }, [&] { return vf::fmt (g1); });
                if (g2 != want) fail_lazy (K + s2, [&] { return "a=" + bstr<V> (box[b]) + " b=" + in + " [a.intersects(b)]"; }, [&] { return vf::fmt (want); }, [&] { return vf::fmt (g2); });
            }
            trans += 2 * (long long) NB;
            // canonical x canonical
            for (auto& c2 : cs3)
            {
                bool want = c.isinf && c2.isinf, got = bx.intersects (*c2.b);
                const char* sfx = (got == intervalwise<V> (bx, *c2.b)) ? "::intersects(Box).inverted-operand" : "::intersects(Box)";
                if (got != want) R.fail (K + sfx, "a=" + in + " b=" + S::name () + " " + c2.n + " [a.intersects(b)]", vf::fmt (want), vf::fmt (got));
            }
        }
        R.cls ("box.canonical-empty", 2); R.cls ("box.canonical-infinite", 1);
        R.add ("states", 3);
    }

    // ---- majorAxis (boxes only): any axis of greatest size; specialisation == generic ---------
    majoraxis_part<V, G> (box, gbox, empty, trans);
    R.add ("transitions", trans);
    return complete;
}

template <class T> bool run_sets (bool thorough)
{
    bool ok = true;
    ok &= sets_one<T, T> (thorough);
    ok &= sets_one<Vec2<T>, G2<T>> (thorough);
    ok &= sets_one<Vec3<T>, G3<T>> (thorough);
    // (the generic template in 2-D/3-D is covered by the lock-step comparison above: generic == specialisation
    //  on every case, specialisation == oracle; on its own it is checked against the oracle in 4-D below)
    ok &= sets_one<Vec4<T>, Vec4<T>> (thorough);
    return ok;
}

} // namespace c13
