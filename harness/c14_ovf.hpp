// C14 — stage "overflow-fallback": ELONGATED (non-cubic) boxes in the overflow regimes, for the second oracle of c14.hpp
// (the library's documented fallback design: an axis whose slab quotient would exceed TMAX is handled as parallel by
// findEntryAndExitPoints; intersects saturates the parameter to TMAX). Seed C14-u2: a copy-paste slip in the fallback branch
// of ONE of the six unrolled blocks (b.max.y for b.max.z) is invisible on cubes and on boxes whose faces coincide across axes.
//
// Alphabet (powers of two and small integers: the long double oracle of c14.hpp is exact; no parameter underflows):
//   per-axis (min,max) in units s : (0,2) (0,8) (4,8) (-8,-2)   [thorough + (2,2) flat, (-2,4)]  -> every box with different
//                                   min AND different max on its axes occurs, so a face taken from the wrong axis or the wrong
//                                   end changes some decision;
//   origin components in units s  : -9 -1 0 1 3 6 9            [thorough + -5, 4]   (below / between / on / above the faces of
//                                   every interval, in particular between the max faces and between the min faces of two axes);
//   direction components          : 0, +-denorm_min, +-min, +-2^-30, +-1  (both signs -> both unrolled blocks of every axis);
//   scale s                       : 1 and 2^(emax-28) (float 2^100, double 2^996): with s = 1 the denormal-small components
//                                   overflow, with the large scale the ordinary component 2^-30 does as well
//                                   (the "dir.z = -1e-30, pos.z = 5e9" form).
// Every case goes through one_case: the exact slab oracle under the usual sites (the overflow regimes under the recorded
// ".some-t-overflows" / ".every-t-overflows" sites) and, in regimes 2 and 3, the documented-fallback model under
// "<entry point>.overflow-regime.vs-documented-fallback". Classes: per axis x sign of the direction component x origin
// outside / inside the slab, counted on the input by the model's exact predicate (12 classes = the six blocks' fallback
// branches, each with both outcomes).
#pragma once
#include "c14.hpp"

namespace c14 {

template <class T> bool run_ovf (bool thorough)
{
    typedef std::numeric_limits<T> L;
    std::vector<std::pair<int, int>> AX = {{0, 2}, {0, 8}, {4, 8}, {-8, -2}};
    if (thorough) { AX.push_back ({2, 2}); AX.push_back ({-2, 4}); }
    std::vector<int> OC = {-9, -1, 0, 1, 3, 6, 9};
    if (thorough) { OC.push_back (-5); OC.push_back (4); }
    std::vector<long double> D = {0};
    for (long double v : {(long double) L::denorm_min (), (long double) L::min (), ldexpl (1, -30), 1.0L}) { D.push_back (v); D.push_back (-v); }
    const long double S[2] = {1, ldexpl (1, L::max_exponent - 28)};
    const uint64_t NA = AX.size (), NB = NA * NA * NA, NO = ex::ipow (OC.size (), 3), ND = ex::ipow (D.size (), 3);
    Tally total; std::mutex mu;
    bool ok = vf::parallel_chunks (2 * NB * OC.size (), 1, [&] (uint64_t lo, uint64_t hi, unsigned) {
        Tally tl;
        for (uint64_t k = lo; k < hi; ++k)
        {
            const uint64_t o0 = k % OC.size (), kb = k / OC.size ();
            const long double s = S[kb / NB];
            uint64_t x = kb % NB;
            long double mn[3], mx[3];
            for (int i = 0; i < 3; ++i) { auto& a = AX[x % NA]; x /= NA; mn[i] = a.first * s; mx[i] = a.second * s; }
            for (uint64_t oi = 0; oi < NO / OC.size (); ++oi)
            {
                int oc[2]; ex::decode (oi, (unsigned) OC.size (), 2, oc);
                long double p[3] = {OC[o0] * s, OC[oc[0]] * s, OC[oc[1]] * s};
                for (uint64_t di = 1; di < ND; ++di) // di = 0 is the zero direction: outside the property's domain
                {
                    int dc[3]; ex::decode (di, (unsigned) D.size (), 3, dc);
                    long double d[3] = {D[dc[0]], D[dc[1]], D[dc[2]]};
                    one_case<T, long double> (mn, mx, p, d, tl);
                }
            }
        }
        std::lock_guard<std::mutex> g (mu); total += tl;
    });
    auto& R = vf::R ();
    R.add ("states", total.cases); R.add ("evaluations", total.cases); R.add ("transitions", total.trans);
    R.add ("overflow-fallback_cases_outside_domain(t underflows)", total.excluded);
    R.add ("overflow-fallback_cases_outside_fallback_model_domain(sub-ulp difference of parameters)", total.fb_excluded);
    R.cls ("overflow-fallback.some-t-exceeds-max", total.overflow);
    R.cls ("overflow-fallback.every-t-exceeds-max", total.alloverflow);
    R.cls ("overflow-fallback.judged-against-documented-fallback", total.fb_judged);
    static const char* AXN[3] = {"x", "y", "z"};
    for (int a = 0; a < 3; ++a) for (int g = 0; g < 2; ++g) for (int o = 0; o < 2; ++o)
        R.cls (std::string ("overflow-fallback.block-dir.") + AXN[a] + (g ? "<0" : ">0") + (o ? ".origin-outside-slab(miss by fallback)" : ".origin-inside-slab(no constraint)"), total.fb_blk[a][g][o]);
    R.cls ("overflow-fallback.ray.hit-from-outside", total.hit_outside); R.cls ("overflow-fallback.ray.origin-inside", total.inside);
    R.cls ("overflow-fallback.ray.box-behind-origin(line hits, ray misses)", total.behind); R.cls ("overflow-fallback.miss.generic", total.miss);
    return ok;
}

} // namespace c14
