// C13 extreme-bounds stage, integer element types
#include "c13_extreme.hpp"
namespace c13 {
template bool run_extremes<short> (bool);
template bool run_extremes<int> (bool);
template bool run_extremes<int64_t> (bool);
}
