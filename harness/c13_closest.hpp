// C13 — clip / closestPointInBox = nearest point of the box; closestPointOnBox = a nearest point of its surface.
// All coordinates are multiples of 1/2 (integers for the integer element types), so the oracle works in
// integers scaled by 2 and every comparison is exact.
#pragma once
#include "c13_common.hpp"

namespace c13 {

// nearest point of the closed interval [lo,hi] (scaled integers) to p: brute force over the half-lattice
inline int nearest1d (int p2, int lo2, int hi2)
{
    int best = lo2;
    for (int q = lo2; q <= hi2; ++q)
        if (std::abs (q - p2) < std::abs (best - p2)) best = q;
    return best;
}

template <class V> bool clip_one (bool)
{
    typedef Shape<V>        S;
    typedef typename S::T   T;
    typedef typename S::Box B;
    const int D = S::D;
    const bool halves = !std::is_integral<T>::value && D <= 3;
    const int  NPA = halves ? 11 : 6; // per-axis point alphabet: -1..4 in steps of 1/2 (floats) or 1
    const std::string K = S::kind ();
    std::atomic<long long> n (0), inside (0), outside (0), boundary (0);
    bool done = vf::parallel_chunks (ex::ipow (16, D), D == 4 ? 256 : 16, [&] (uint64_t blo, uint64_t bhi, unsigned) {
    long long l_n = 0, l_in = 0, l_out = 0, l_b = 0;
    for (uint64_t b = blo; b < bhi; ++b)
    {
        int mn[4], mx[4]; uint64_t x = b; bool ok = true;
        for (int i = 0; i < D; ++i) { int d = (int) (x % 16); x /= 16; mn[i] = d % 4; mx[i] = d / 4; ok = ok && mn[i] <= mx[i]; }
        if (!ok) continue; // "nearest point of the box" does not exist for the empty set: nothing is promised
        B bx = mkbox<V> (mn, mx);
        for (uint64_t p = 0; p < ex::ipow (NPA, D); ++p)
        {
            int c[4]; ex::decode (p, NPA, D, c);
            V pt; int p2[4], want2[4]; bool in = true, onb = false;
            for (int i = 0; i < D; ++i)
            {
                p2[i] = halves ? c[i] - 2 : 2 * (c[i] - 1);
                S::at (pt, i) = (T) (p2[i] / 2.0);
                want2[i] = nearest1d (p2[i], 2 * mn[i], 2 * mx[i]); // squared distance is separable over the axes
                in = in && want2[i] == p2[i];
                onb = onb || p2[i] == 2 * mn[i] || p2[i] == 2 * mx[i];
            }
            V q = clip (pt, bx), q2 = closestPointInBox (pt, bx);
            for (int i = 0; i < D; ++i)
            {
                if (S::at (q, i) != (T) (want2[i] / 2.0))
                { vf::R ().fail ("clip." + K, "p=" + vstr<V> (pt) + " box=" + bstr<V> (bx), "axis " + std::to_string (i) + " = " + std::to_string (want2[i] / 2.0), vstr<V> (q)); break; }
                if (!ex::same (S::at (q, i), S::at (q2, i)))
                { vf::R ().fail ("closestPointInBox." + K, "p=" + vstr<V> (pt) + " box=" + bstr<V> (bx), vstr<V> (q), vstr<V> (q2)); break; }
            }
            ++l_n;
            if (!in) ++l_out; else if (onb) ++l_b; else ++l_in;
        }
    }
    n += l_n; inside += l_in; outside += l_out; boundary += l_b;
    });
    vf::R ().add ("transitions", 2 * n.load ()); vf::R ().add ("evaluations", n.load ()); vf::R ().add ("states", n.load ());
    if (is_half<T>::value) vf::R ().cls ("half.clip.cases", n.load ());
    vf::R ().cls ("clip.point-outside", outside); vf::R ().cls ("clip.point-on-boundary", boundary); vf::R ().cls ("clip.point-strictly-inside.generic", inside);
    return done;
}

template <class T> bool onbox_one (bool)
{
    typedef Vec3<T> V; typedef Box<V> B;
    const bool halves = !std::is_integral<T>::value;
    const int  NPA = halves ? 11 : 6;
    std::atomic<long long> n (0), n_empty (0), n_in (0), n_on (0), n_out (0), n_tie (0);
    B canon; // canonical empty
    bool done = vf::parallel_chunks (4097, 16, [&] (uint64_t blo, uint64_t bhi, unsigned) {
    long long l_n = 0, l_empty = 0, l_in = 0, l_on = 0, l_out = 0, l_tie = 0;
    for (uint64_t b = blo; b < bhi; ++b)
    {
        int mn[3], mx[3]; uint64_t x = b; bool nonempty = true;
        for (int i = 0; i < 3; ++i) { int d = (int) (x % 16); x /= 16; mn[i] = d % 4; mx[i] = d / 4; nonempty = nonempty && mn[i] <= mx[i]; }
        B bx = b == 4096 ? canon : mkbox<V> (mn, mx);
        if (b == 4096) nonempty = false;
        for (uint64_t p = 0; p < ex::ipow (NPA, 3); ++p)
        {
            int c[3], p2[3]; ex::decode (p, NPA, 3, c);
            V pt;
            for (int i = 0; i < 3; ++i) { p2[i] = halves ? c[i] - 2 : 2 * (c[i] - 1); pt[i] = (T) (p2[i] / 2.0); }
            V q = closestPointOnBox (pt, bx);
            ++l_n;
            auto in = [&] { return "p=" + vstr<V> (pt) + " box=" + bstr<V> (bx); };
            if (!nonempty)
            {   // documented: "If the box is empty, return p"
                ++l_empty;
                if (!(ex::same (q.x, pt.x) && ex::same (q.y, pt.y) && ex::same (q.z, pt.z)))
                    vf::R ().fail ("closestPointOnBox.empty-box", in (), vstr<V> (pt), vstr<V> (q));
                continue;
            }
            // oracle: the surface is the union of the six face rectangles; the nearest point of a rectangle is the
            // per-axis nearest point with the face's own axis pinned; the answer is the minimum over the faces
            long long dmin = -1; int nmin = 0;
            for (int ax = 0; ax < 3; ++ax)
                for (int side = 0; side < 2; ++side)
                {
                    long long d = 0;
                    for (int i = 0; i < 3; ++i)
                    {
                        int lo = 2 * mn[i], hi = 2 * mx[i];
                        if (i == ax) lo = hi = side ? 2 * mx[i] : 2 * mn[i];
                        int w = nearest1d (p2[i], lo, hi);
                        d += (long long) (w - p2[i]) * (w - p2[i]);
                    }
                    if (dmin < 0 || d < dmin) { dmin = d; nmin = 1; } else if (d == dmin) ++nmin;
                }
            // implementation's answer: on the half-lattice, inside the box, on the surface, at the minimal distance
            long long dq = 0; bool lattice = true, inbox = true, onsurf = false;
            for (int i = 0; i < 3; ++i)
            {
                double q2 = 2.0 * (double) q[i];
                if (q2 != (double) (long long) q2) { lattice = false; break; }
                long long w = (long long) q2;
                inbox  = inbox && 2 * mn[i] <= w && w <= 2 * mx[i];
                onsurf = onsurf || w == 2 * mn[i] || w == 2 * mx[i];
                dq += (w - p2[i]) * (w - p2[i]);
            }
            if (!lattice || !inbox || !onsurf)
                vf::R ().fail ("closestPointOnBox.on-surface", in (), "a point of the box surface", vstr<V> (q));
            else if (dq != dmin)
                vf::R ().fail ("closestPointOnBox.minimal-distance", in (), "squared distance " + std::to_string (dmin / 4.0), vstr<V> (q) + " at squared distance " + std::to_string (dq / 4.0));
            bool inside = true, onb = false;
            for (int i = 0; i < 3; ++i) { inside = inside && 2 * mn[i] <= p2[i] && p2[i] <= 2 * mx[i]; }
            if (inside) for (int i = 0; i < 3; ++i) onb = onb || p2[i] == 2 * mn[i] || p2[i] == 2 * mx[i];
            if (!inside) ++l_out; else if (onb) ++l_on; else { ++l_in; if (nmin > 1) ++l_tie; }
        }
    }
    n += l_n; n_empty += l_empty; n_in += l_in; n_on += l_on; n_out += l_out; n_tie += l_tie;
    });
    vf::R ().add ("transitions", n.load ()); vf::R ().add ("evaluations", n.load ()); vf::R ().add ("states", n.load ());
    if (is_half<T>::value) vf::R ().cls ("half.closestPointOnBox.cases", n.load ());
    vf::R ().cls ("onbox.empty-box", n_empty); vf::R ().cls ("onbox.point-strictly-inside", n_in); vf::R ().cls ("onbox.point-on-surface", n_on);
    vf::R ().cls ("onbox.point-outside.generic", n_out); vf::R ().cls ("onbox.equidistant-faces", n_tie);
    return done;
}

template <class T> bool run_closest (bool thorough)
{
    bool ok = true;
    ok &= clip_one<Vec2<T>> (thorough); ok &= clip_one<G2<T>> (thorough);
    ok &= clip_one<Vec3<T>> (thorough); ok &= clip_one<G3<T>> (thorough);
    ok &= clip_one<Vec4<T>> (thorough);
    ok &= onbox_one<T> (thorough);
    return ok;
}

} // namespace c13
