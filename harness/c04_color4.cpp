#include "c04.hpp"
namespace c04 {
void register_color4 (Jobs& jobs) { reg_color4<Color4<half>> (jobs); reg_color4<Color4<float>> (jobs); reg_color4<Color4<uchar>> (jobs); }
}
