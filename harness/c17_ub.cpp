// C17 — "no undefined behaviour in the evaluation" side-condition for divs / mods / divp / modp.
//
// This TU (and only this TU) is compiled with -fsanitize=signed-integer-overflow,integer-divide-by-zero
// (tools/props.d/C17.py "source_flags"); the sanitizer RUNTIME is not linked. Instead the five call-backs the
// instrumentation emits are defined here and merely record WHICH kind of signed operation left the int range, in
// a thread-local word that the driver (c17.cpp, stage int-div-ub) reads after every single library call.
//
// * The library header is included under a private inline-namespace name, so the instrumented inline functions
//   are distinct entities from the un-instrumented copies in the other TUs (at -O0 the linker would otherwise be
//   free to keep either copy of a COMDAT function).
// * The reset / call / read-back sequence lives in the *other* TU: gcc treats its internal overflow check as a
//   side-effect-free operation and would otherwise move it across the accesses to the flag word.
// * Nothing else is instrumented here: no engine headers, no arithmetic of our own.
#include <ImathConfig.h>
#undef IMATH_INTERNAL_NAMESPACE
#define IMATH_INTERNAL_NAMESPACE Imath_c17_ub_instrumented
#include <ImathFun.h>

namespace {
thread_local unsigned g_flags = 0;
}

extern "C" {
// ABI of the -fsanitize=undefined call-backs (same names and shapes in gcc and clang): (static data, operand values...)
void __ubsan_handle_add_overflow (void*, void*, void*) { g_flags |= 1u; }
void __ubsan_handle_sub_overflow (void*, void*, void*) { g_flags |= 2u; }
void __ubsan_handle_mul_overflow (void*, void*, void*) { g_flags |= 4u; }
void __ubsan_handle_negate_overflow (void*, void*) { g_flags |= 8u; }
void __ubsan_handle_divrem_overflow (void*, void*, void*) { g_flags |= 16u; }
}

namespace c17ub {

unsigned take ()
{
    unsigned f = g_flags;
    g_flags    = 0;
    return f;
}

int call (int which, int x, int y)
{
    switch (which)
    {
        case 0: return IMATH_NAMESPACE::divs (x, y);
        case 1: return IMATH_NAMESPACE::mods (x, y);
        case 2: return IMATH_NAMESPACE::divp (x, y);
        default: return IMATH_NAMESPACE::modp (x, y);
    }
}

// instrumentation self-checks: one operation of each kind on run-time operands
int probe (int kind, int a, int b)
{
    switch (kind)
    {
        case 0: return a + b;
        case 1: return a - b;
        case 2: return a * b;
        case 3: return -a;
        default: return a / b;
    }
}

} // namespace c17ub
