// C11 — Euler angles round-trip through matrices and quaternions in all 24 orders.
//
// Bounded exhaustive exploration on the real Euler<T> code, T in {float,double}:
//   orders-and-layout : 24 orders: order()/setOrder/set/legal/bit-field accessors/angleOrder, all 24x24
//                       setOrder histories, copies; XYZ-layout constructor / setXYZVector / toXYZVector on 60
//                       distinct-prime triples per non-repeated order (exact)
//   grid-T            : 24 orders x (k*pi/6)^3, k in [-12,12] (15 625 triples per order)
//   lock-T            : middle angle at and within 10^-j of gimbal lock, outer angles from the grid
//                       per case: toMatrix33 = toMatrix44 block bitwise; both = product of three elementary axis
//                       rotations in long double (static orders: letters of the name; rotating orders: the
//                       decoded bit-fields with the triple reversed); orthonormal, det +1; toQuat vs the
//                       reference quaternion and through toMatrix33; XYZ vs Matrix44::setEulerAngles (all 16 entries,
//                       also with setEulerAngles called on a Matrix44 pre-filled with primes / NaN in every slot:
//                       bitwise the fresh result); extract() on Euler objects that already hold angles;
//                       extract(M33) vs extract(M44) bitwise, constructors from matrices, rebuild within a flat
//                       16 eps; extract(Quat); extractEulerXYZ / extractEulerZYX rebuilt from the definition
//                       the same 4x4 with a non-zero translation row (affine input) must give numerically equal
//                       angles through Euler::extract(M44), Euler(M44,order), extractEulerXYZ, extractEulerZYX
//   reorder           : Euler(e, newOrder) for all 24x24 order pairs
//   extractEuler-2d   : Matrix22/Matrix33::setRotation -> extractEuler
//   angleMod          : k*pi/6 +- 10^-j up to 100 turns
//   makeNear-family   : simpleXYZRotation / nearestRotation / makeNear for the six fixed-axis non-repeated orders
//                       (makeNear with the target given in every one of the 24 orders)
// The oracle (c11_ref.hpp) never calls the library. Tolerances: see the heads of c11_cases.hpp / c11_near.cpp.
#include "c11.hpp"

int main (int argc, char** argv)
{
    vf::R ().property = "C11";
    vf::R ().parse (argc, argv);
    vf::R ().assume ("long double has a 64-bit significand (x86-64); sinl/cosl are accurate to ~1e-19 on |x| < 700");
    vf::R ().assume ("libm sin/cos/atan2/sqrt of float and double are accurate to 1 ulp (glibc)");
    c11::stage_orders ();
    c11::stage_cases_float ();
    c11::stage_cases_double ();
    c11::stage_reorder ();
    c11::stage_extract2d ();
    c11::stage_angleMod ();
    c11::stage_near ();
    return vf::R ().finish ();
}
