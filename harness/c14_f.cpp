// C14 float instantiations
#include "c14_ext.hpp"
namespace c14 { template bool run_lattice<float> (bool); template bool run_extreme<float> (bool); template bool run_rounding<float> (bool); template bool run_elongated<float> (bool); }
