// C13 — transform(box, m) / transform(box, m, result) for PROJECTIVE matrices whose perspective entries m[0..2][3] are
// non-zero but tiny: so small that their squares (and every product of two of them) underflow to zero in the matrix
// element type T, combined with box coordinates so large (~ 1/|entry|) that the homogeneous coordinate w of the corners is
// far from 1 (seed C13-u1: an "is the last column (0 0 0 1)?" test that works on squared magnitudes, norms or products
// classifies such a matrix as affine and skips the divide).
//
// The statement: transform returns the tight bound of the images of the box's corners; the library documents the fast
// affine path for "the last column of m is (0 0 0 1)" only. A non-zero entry of any magnitude makes m projective.
//
// Everything is a power-of-two scaling of the small-integer projective problem of c13_xform.hpp, so the oracle stays exact:
//   (uniform)  box = 2^K * lattice box, translation = 2^K * TQ, block = BLK (small integers), perspective entries
//              = 2^-K * d, d in {-1,0,1,2}^3 \ 0, m[3][3] in {1, 2}.  For a corner p = 2^K a:  w = a.d + m33 and the
//              numerators 2^K (a*BLK + TQ) are small integers times a power of two, hence exact in S and T; the only
//              rounding is the final division (correctly rounded, monotone): result = 2^K * (rational bound) within the
//              same a-priori 2 ulp as the unscaled stage.
//   (mixed)    only the axes in a mask (1..6) carry the 2^K scale, the others have ordinary coordinates (the form of the seed's
//              demo: box [(0,0,0),(3e30,1,1)]); monomial blocks (one non-zero entry per row and column) and zero translation, so
//              each numerator is a single exact product. The contribution a_j d_j 2^-K of an unscaled axis to w is below
//              2^-70 relative (float K >= 75: 9 * 2^-75; double K >= 537), is rounded away by the library's own sum
//              (|w| >= 1 integer, half an ulp is 2^-24 / 2^-53) and moves the exact bound by less than 2^-70 relative, i.e.
//              < 0.001 ulp: the reference drops it and keeps the 2 ulp bound (0.5 ulp division + that). Cases whose integer
//              part of w vanishes on a corner are outside the domain (w == 0 up to 2^-K: no finite image), as in c13_xform.hpp.
// K per (S,T): float x float {75, 100, 120}; double x float {75, 100, 126, 149 (float denorm_min)}; double x double
//   {538, 600, 1000}; controls with a representable square: 74 (float T: 2^-148 subnormal), 537 (double T: 2^-1074).
//   float boxes x double matrices are not in the class: 2^127 * 2^-538 is far below half an ulp of 1, w == 1 after rounding.
// Classes are counted by predicates on the input matrix computed in T: the sum of the squares of the three perspective
// entries is zero / non-zero.
#include "c13_xform.hpp"

namespace c13 {
namespace xf {
namespace {

struct TinyTally
{
    std::atomic<long long> trans{0}, cases{0}, sq_zero{0}, sq_nonzero{0}, w_pos{0}, w_neg{0}, w_mixed{0}, w_all_one{0}, mixed_scale{0}, skipped{0};
};

template <class T> inline bool squares_vanish (const Matrix44<T>& M)
{
    volatile T a = M[0][3] * M[0][3], b = M[1][3] * M[1][3], c = M[2][3] * M[2][3];
    volatile T s = a + b;
    s            = s + c;
    return s == 0;
}

// run the 5 calls of one (matrix, box) case against the exact bound  scale[i] * [rmn[i], rmx[i]]
template <class S, class T, class FIN>
inline void tiny_case (const Matrix44<T>& M, const Box<Vec3<S>>& bx, const Q* rmn, const Q* rmx, const long double* scale, const int* scale_exp, FIN in, long long& trans)
{
    typedef Box<Vec3<S>> B;
    auto want = [&] () {
        std::string s = "{min=(";
        for (int i = 0; i < 3; ++i) s += (i ? "," : "") + rmn[i].str () + "*2^" + std::to_string (scale_exp[i]);
        s += ") max=(";
        for (int i = 0; i < 3; ++i) s += (i ? "," : "") + rmx[i].str () + "*2^" + std::to_string (scale_exp[i]);
        return s + ")} within 2 ulp (bound of the 8 projected corners)";
    };
    auto close = [&] (const B& r) {
        for (int i = 0; i < 3; ++i)
        {
            long double u1 = ex::ulps<S> (r.min[i], rmn[i].ld () * scale[i]), u2 = ex::ulps<S> (r.max[i], rmx[i].ld () * scale[i]);
            if (!(u1 <= 2) || !(u2 <= 2)) return false;
        }
        return true;
    };
    B r1 = transform (bx, M);
    if (!close (r1)) fail_lazy ("transform(box,m).projective.tiny-perspective-entries", [&] { return in (""); }, want, [&] { return b3 (r1); });
    for (int pf = 0; pf < 3; ++pf)
    {
        B r2 = prefill<S> (pf);
        transform (bx, M, r2);
        if (!close (r2)) fail_lazy ("transform(box,m,result).projective.tiny-perspective-entries", [&] { return in (prefill_name (pf)); }, want, [&] { return b3 (r2); });
    }
    B a1 = bx;
    transform (a1, M, a1);
    if (!close (a1)) fail_lazy ("transform(box,m,result).result-aliases-box.tiny-perspective-entries", [&] { return in ("transform(b, m, b)"); }, want, [&] { return b3 (a1); });
    trans += 5;
}

template <class S, class T> inline std::string tiny_in (const Box<Vec3<S>>& bx, const IM& im, int K, unsigned mask, const char* extra)
{
    std::string s = tt<S, T> () + " box=" + b3 (bx) + " m = integer matrix " + mstr (im) + " with the perspective entries m[0..2][3] times 2^-" + std::to_string (K);
    if (mask == 7) s += ", box and translation times 2^" + std::to_string (K);
    else s += ", box axes in mask " + std::to_string (mask) + " times 2^" + std::to_string (K);
    if (*extra) s += std::string (" ") + extra;
    return s;
}

template <class S, class T> bool tiny_stage (bool thorough, const std::vector<int>& Ks, TinyTally& A)
{
    typedef Box<Vec3<S>> B;
    std::vector<LBox> boxes = thorough ? lattice_boxes (true, {0, 1, 2, 3}) : lattice_boxes (true, {0, 1, 3});
    for (auto& b : thorough ? lattice_boxes (true, {-2, -1, 1, 2}) : lattice_boxes (true, {-2, -1, 1})) boxes.push_back (b);
    // ---- uniform scale: 8 blocks x translations x 63 perspective rows x m33 in {1,2} ----
    const int      NT = thorough ? 3 : 2;
    const uint64_t NU = (uint64_t) Ks.size () * 8 * NT * 64 * 2;
    bool ok = vf::parallel_chunks (NU, 4, [&] (uint64_t lo, uint64_t hi, unsigned) {
        long long l_trans = 0, l_cases = 0, l_z = 0, l_nz = 0, l_pos = 0, l_neg = 0, l_mix = 0, l_skip = 0;
        for (uint64_t k = lo; k < hi; ++k)
        {
            uint64_t  x = k;
            const int blk = (int) (x % 8); x /= 8;
            const int ti = (int) (x % NT); x /= NT;
            const int wc = (int) (x % 64); x /= 64;
            const int w3 = (int) (x % 2); x /= 2;
            const int K  = Ks[(size_t) x];
            if (!thorough && w3 == 1 && !(blk == 3 && ti == 1)) continue; // quick: m33 = 2 with the generic full block only
            if (ti != 0 && K + 2 > std::numeric_limits<T>::max_exponent) continue; // 2^K * TQ is not representable in T (float matrices, K = 149): zero translation only
            IM im;
            for (int j = 0; j < 3; ++j) for (int i = 0; i < 3; ++i) im.a[j][i] = BLK[blk][j][i];
            for (int i = 0; i < 3; ++i) im.t[i] = TQ[ti][i];
            int d[3]; ex::decode ((uint64_t) wc, 4, 3, d, -1);
            if (!d[0] && !d[1] && !d[2]) continue; // no perspective entry: other stages
            im.w[0] = d[0]; im.w[1] = d[1]; im.w[2] = d[2]; im.w[3] = w3 ? 2 : 1;
            Matrix44<T> M = mk<T> (im);
            for (int j = 0; j < 3; ++j) M[j][3] = (T) ldexpl ((long double) d[j], -K);
            for (int i = 0; i < 3; ++i) M[3][i] = (T) ldexpl ((long double) im.t[i], K);
            const bool sqz = squares_vanish (M);
            const long double sc[3] = {ldexpl (1.0L, K), ldexpl (1.0L, K), ldexpl (1.0L, K)};
            const int         se[3] = {K, K, K};
            for (auto& lb : boxes)
            {
                Q rmn[3], rmx[3]; bool wzero = false; int npos = 0, nneg = 0;
                for (int c = 0; c < 8; ++c)
                {
                    int p[3] = {(c & 1) ? lb.mx[0] : lb.mn[0], (c & 2) ? lb.mx[1] : lb.mn[1], (c & 4) ? lb.mx[2] : lb.mn[2]};
                    int w = p[0] * im.w[0] + p[1] * im.w[1] + p[2] * im.w[2] + im.w[3];
                    if (w == 0) { wzero = true; break; }
                    if (w > 0) ++npos; else ++nneg;
                    for (int i = 0; i < 3; ++i)
                    {
                        Q v (p[0] * im.a[0][i] + p[1] * im.a[1][i] + p[2] * im.a[2][i] + im.t[i], w);
                        if (c == 0 || v < rmn[i]) rmn[i] = v;
                        if (c == 0 || v > rmx[i]) rmx[i] = v;
                    }
                }
                if (wzero) { ++l_skip; continue; }
                ++l_cases; (sqz ? l_z : l_nz)++; (nneg == 0 ? l_pos : npos == 0 ? l_neg : l_mix)++;
                B bx (Vec3<S> ((S) ldexpl ((long double) lb.mn[0], K), (S) ldexpl ((long double) lb.mn[1], K), (S) ldexpl ((long double) lb.mn[2], K)),
                      Vec3<S> ((S) ldexpl ((long double) lb.mx[0], K), (S) ldexpl ((long double) lb.mx[1], K), (S) ldexpl ((long double) lb.mx[2], K)));
                tiny_case<S, T> (M, bx, rmn, rmx, sc, se, [&] (const char* e) { return tiny_in<S, T> (bx, im, K, 7, e); }, l_trans);
            }
        }
        A.trans += l_trans; A.cases += l_cases; A.sq_zero += l_z; A.sq_nonzero += l_nz; A.w_pos += l_pos; A.w_neg += l_neg; A.w_mixed += l_mix; A.skipped += l_skip;
    });
    if (!ok) return false;
    // ---- mixed scale: monomial blocks BLK[0..2], zero translation, axis masks 1..6, 63 perspective rows, m33 = 1 ----
    const uint64_t NMX = (uint64_t) Ks.size () * 3 * 6 * 64;
    ok = vf::parallel_chunks (NMX, 4, [&] (uint64_t lo, uint64_t hi, unsigned) {
        long long l_trans = 0, l_cases = 0, l_z = 0, l_nz = 0, l_pos = 0, l_neg = 0, l_mix = 0, l_skip = 0, l_one = 0;
        for (uint64_t k = lo; k < hi; ++k)
        {
            uint64_t       x = k;
            const int      blk = (int) (x % 3); x /= 3;
            const unsigned mask = (unsigned) (x % 6) + 1; x /= 6;
            const int      wc = (int) (x % 64); x /= 64;
            const int      K  = Ks[(size_t) x];
            IM im;
            for (int j = 0; j < 3; ++j) for (int i = 0; i < 3; ++i) im.a[j][i] = BLK[blk][j][i];
            for (int i = 0; i < 3; ++i) im.t[i] = 0;
            int d[3]; ex::decode ((uint64_t) wc, 4, 3, d, -1);
            if (!d[0] && !d[1] && !d[2]) continue;
            im.w[0] = d[0]; im.w[1] = d[1]; im.w[2] = d[2]; im.w[3] = 1;
            Matrix44<T> M = mk<T> (im);
            for (int j = 0; j < 3; ++j) M[j][3] = (T) ldexpl ((long double) d[j], -K);
            const bool sqz = squares_vanish (M);
            // output axis i takes its value from the single input axis src[i]
            int src[3] = {0, 0, 0};
            for (int i = 0; i < 3; ++i) for (int j = 0; j < 3; ++j) if (im.a[j][i]) src[i] = j;
            long double sc[3]; int se[3];
            for (int i = 0; i < 3; ++i) { se[i] = (mask >> src[i] & 1) ? K : 0; sc[i] = ldexpl (1.0L, se[i]); }
            for (auto& lb : boxes)
            {
                Q rmn[3], rmx[3]; bool wzero = false, allone = true; int npos = 0, nneg = 0;
                for (int c = 0; c < 8; ++c)
                {
                    int p[3] = {(c & 1) ? lb.mx[0] : lb.mn[0], (c & 2) ? lb.mx[1] : lb.mn[1], (c & 4) ? lb.mx[2] : lb.mn[2]};
                    int w = 1;
                    for (int j = 0; j < 3; ++j) if (mask >> j & 1) w += p[j] * im.w[j]; // unscaled axes contribute < 2^-70: dropped (see header)
                    if (w == 0) { wzero = true; break; }
                    if (w != 1) allone = false;
                    if (w > 0) ++npos; else ++nneg;
                    for (int i = 0; i < 3; ++i)
                    {
                        Q v (p[src[i]] * im.a[src[i]][i], w);
                        if (c == 0 || v < rmn[i]) rmn[i] = v;
                        if (c == 0 || v > rmx[i]) rmx[i] = v;
                    }
                }
                if (wzero) { ++l_skip; continue; }
                ++l_cases; (sqz ? l_z : l_nz)++; (nneg == 0 ? l_pos : npos == 0 ? l_neg : l_mix)++; if (allone) ++l_one;
                int e[3];
                for (int j = 0; j < 3; ++j) e[j] = (mask >> j & 1) ? K : 0;
                B bx (Vec3<S> ((S) ldexpl ((long double) lb.mn[0], e[0]), (S) ldexpl ((long double) lb.mn[1], e[1]), (S) ldexpl ((long double) lb.mn[2], e[2])),
                      Vec3<S> ((S) ldexpl ((long double) lb.mx[0], e[0]), (S) ldexpl ((long double) lb.mx[1], e[1]), (S) ldexpl ((long double) lb.mx[2], e[2])));
                tiny_case<S, T> (M, bx, rmn, rmx, sc, se, [&] (const char* ex_) { return tiny_in<S, T> (bx, im, K, mask, ex_); }, l_trans);
            }
        }
        A.trans += l_trans; A.cases += l_cases; A.mixed_scale += l_cases; A.sq_zero += l_z; A.sq_nonzero += l_nz; A.w_pos += l_pos; A.w_neg += l_neg; A.w_mixed += l_mix;
        A.skipped += l_skip; A.w_all_one += l_one;
    });
    return ok;
}

} // namespace
} // namespace xf

bool run_transforms_tiny (bool thorough)
{
    xf::TinyTally A;
    bool ok = true;
    ok = ok && xf::tiny_stage<float, float> (thorough, {74, 75, 100, 120}, A);
    ok = ok && xf::tiny_stage<double, float> (thorough, {74, 75, 100, 126, 149}, A);
    ok = ok && xf::tiny_stage<double, double> (thorough, {537, 538, 600, 1000}, A);
    vf::R ().add ("transitions", A.trans.load ()); vf::R ().add ("evaluations", A.cases.load ()); vf::R ().add ("states", A.cases.load ());
    vf::R ().add ("tiny_perspective_cases_outside_domain(w==0 on a corner)", A.skipped.load ());
    vf::R ().cls ("projective.tiny-perspective.sum-of-squares-underflows-to-zero", A.sq_zero.load ());
    vf::R ().cls ("projective.tiny-perspective.sum-of-squares-representable(control)", A.sq_nonzero.load ());
    vf::R ().cls ("projective.tiny-perspective.w-positive-on-all-corners", A.w_pos.load ());
    vf::R ().cls ("projective.tiny-perspective.w-negative-on-all-corners", A.w_neg.load ());
    vf::R ().cls ("projective.tiny-perspective.w-mixed-sign-no-zero-corner", A.w_mixed.load ());
    vf::R ().cls ("projective.tiny-perspective.only-some-axes-large(mixed-scale)", A.mixed_scale.load ());
    vf::R ().cls ("projective.tiny-perspective.w=1-on-all-corners(large-axes-have-no-entry)", A.w_all_one.load ());
    return ok;
}

} // namespace c13
