// Reference models shared by the C11 (Euler angles) and C12 (factorisations) harnesses.
// Everything here is written from the textbook definition in `long double` (64-bit significand)
// and never calls the library: small dense matrices, elementary axis rotations in the library's
// row-vector convention (v' = v*M, first factor applied first), the 24 Euler orders decoded from
// the documented bit-field legend of the Order enum, matrix -> quaternion, a cyclic Jacobi
// eigen-solver, exact integer rank.
#pragma once
#include "../engine/exact.hpp"
#include "../engine/report.hpp"
#include <algorithm>
#include <cmath>
#include <string>

namespace ref {

typedef long double LD;
static const LD PI_LD = 3.14159265358979323846264338327950288L;

template <int N> struct Mat
{
    LD m[N][N];
    Mat () { for (int i = 0; i < N; ++i) for (int j = 0; j < N; ++j) m[i][j] = (i == j) ? 1.0L : 0.0L; }
    LD*       operator[] (int i) { return m[i]; }
    const LD* operator[] (int i) const { return m[i]; }
};
typedef Mat<2> M2;
typedef Mat<3> M3;
typedef Mat<4> M4;

template <int N> inline Mat<N> mul (const Mat<N>& a, const Mat<N>& b)
{
    Mat<N> r;
    for (int i = 0; i < N; ++i)
        for (int j = 0; j < N; ++j)
        {
            LD s = 0;
            for (int k = 0; k < N; ++k) s += a.m[i][k] * b.m[k][j];
            r.m[i][j] = s;
        }
    return r;
}
template <int N> inline Mat<N> transpose (const Mat<N>& a)
{
    Mat<N> r;
    for (int i = 0; i < N; ++i) for (int j = 0; j < N; ++j) r.m[i][j] = a.m[j][i];
    return r;
}
template <int N> inline LD maxabs (const Mat<N>& a)
{
    LD r = 0;
    for (int i = 0; i < N; ++i) for (int j = 0; j < N; ++j) r = std::max (r, fabsl (a.m[i][j]));
    return r;
}
template <int N> inline LD frob (const Mat<N>& a)
{
    LD r = 0;
    for (int i = 0; i < N; ++i) for (int j = 0; j < N; ++j) r += a.m[i][j] * a.m[i][j];
    return sqrtl (r);
}
// max |a-b|; NaN anywhere -> +inf (so that `d <= tol` is false)
template <int N> inline LD maxdiff (const Mat<N>& a, const Mat<N>& b)
{
    LD r = 0;
    for (int i = 0; i < N; ++i)
        for (int j = 0; j < N; ++j)
        {
            LD d = fabsl (a.m[i][j] - b.m[i][j]);
            if (!(d == d)) return INFINITY;
            r = std::max (r, d);
        }
    return r;
}
// max |A*A^T - I|
template <int N> inline LD orthoErr (const Mat<N>& a)
{
    Mat<N> p = mul (a, transpose (a)), id;
    return maxdiff (p, id);
}
inline LD det (const M2& a) { return a.m[0][0] * a.m[1][1] - a.m[0][1] * a.m[1][0]; }
inline LD det (const M3& a)
{
    return a.m[0][0] * (a.m[1][1] * a.m[2][2] - a.m[1][2] * a.m[2][1]) -
           a.m[0][1] * (a.m[1][0] * a.m[2][2] - a.m[1][2] * a.m[2][0]) +
           a.m[0][2] * (a.m[1][0] * a.m[2][1] - a.m[1][1] * a.m[2][0]);
}
inline LD det (const M4& a)
{
    LD r = 0;
    for (int c = 0; c < 4; ++c)
    {
        M3 s;
        for (int i = 1; i < 4; ++i)
        {
            int k = 0;
            for (int j = 0; j < 4; ++j)
                if (j != c) s.m[i - 1][k++] = a.m[i][j];
        }
        LD t = a.m[0][c] * det (s);
        r += (c & 1) ? -t : t;
    }
    return r;
}

// conversions from library matrices (anything with operator[][]): upper-left NxN block
template <int N, class LM> inline Mat<N> fromLib (const LM& x)
{
    Mat<N> r;
    for (int i = 0; i < N; ++i) for (int j = 0; j < N; ++j) r.m[i][j] = (LD) x[i][j];
    return r;
}

// Elementary rotation by `th` about axis a (0=x,1=y,2=z), row-vector convention: with (a,b,c)
// cyclic, e_b -> cos e_b + sin e_c, e_c -> -sin e_b + cos e_c (a right-handed rotation).
inline M3 axisRot (int a, LD th)
{
    M3 r;
    int b = (a + 1) % 3, c = (a + 2) % 3;
    LD  cs = cosl (th), sn = sinl (th);
    r.m[b][b] = cs; r.m[b][c] = sn;
    r.m[c][b] = -sn; r.m[c][c] = cs;
    return r;
}
inline M2 rot2 (LD th)
{
    M2 r;
    LD cs = cosl (th), sn = sinl (th);
    r.m[0][0] = cs; r.m[0][1] = sn; r.m[1][0] = -sn; r.m[1][1] = cs;
    return r;
}
// rotation about ax1 by a1, then about ax2 by a2, then about ax3 by a3 (fixed axes)
inline M3 compose (int ax1, int ax2, int ax3, LD a1, LD a2, LD a3)
{
    return mul (mul (axisRot (ax1, a1), axisRot (ax2, a2)), axisRot (ax3, a3));
}

// ---- the 24 orders --------------------------------------------------------------------------
// value = the enumerator's numeric value taken from the real header by the including TU;
// name  = the enumerator's spelling. Bit-fields per the legend in ImathEuler.h:
//   0xA000 initial axis, 0x0B00 parity even, 0x00C0 initial repeated, 0x000D frame static.
struct OrderInfo
{
    int         value;
    const char* name;
    int  axis () const { return (value >> 12) & 3; }
    bool parityEven () const { return (value >> 8) & 1; }
    bool repeated () const { return (value >> 4) & 1; }
    bool frameStatic () const { return value & 1; }
    // the three fixed axes of the *static* order that carries these fields
    void staticAxes (int ax[3]) const
    {
        int i = axis ();
        int nx = (i + 1) % 3, pv = (i + 2) % 3;
        ax[0] = i;
        ax[1] = parityEven () ? nx : pv;
        ax[2] = repeated () ? i : (parityEven () ? pv : nx);
    }
    // axes spelled by the name ("XZYr" -> 0,2,1)
    void nameAxes (int ax[3]) const { for (int n = 0; n < 3; ++n) ax[n] = name[n] - 'X'; }
    const char* cls () const
    {
        return frameStatic () ? (repeated () ? "static-repeated" : "static-nonrepeated")
                              : (repeated () ? "rotating-repeated" : "rotating-nonrepeated");
    }
};

// Reference rotation of an order for the angle triple (a1,a2,a3) stored in slots x,y,z.
//  static orders  : fixed-axis product along the letters of the order's name;
//  rotating orders: the static order carrying the same (axis, parity, repetition) fields with
//                   the triple reversed (Shoemake's definition of the frame bit).
inline M3 eulerRef (const OrderInfo& o, LD a1, LD a2, LD a3)
{
    int ax[3];
    if (o.frameStatic ())
    {
        o.nameAxes (ax);
        return compose (ax[0], ax[1], ax[2], a1, a2, a3);
    }
    o.staticAxes (ax);
    return compose (ax[0], ax[1], ax[2], a3, a2, a1);
}

// unit quaternion (w,x,y,z) of a rotation matrix in the library's convention
// (M[0][1] = 2(xy+zw), M[1][0] = 2(xy-zw), ...), largest-component branch
inline void quatOf (const M3& M, LD q[4])
{
    LD tr = M[0][0] + M[1][1] + M[2][2];
    LD c[4] = {1 + tr, 1 + M[0][0] - M[1][1] - M[2][2], 1 - M[0][0] + M[1][1] - M[2][2], 1 - M[0][0] - M[1][1] + M[2][2]};
    int b = 0;
    for (int i = 1; i < 4; ++i) if (c[i] > c[b]) b = i;
    LD r = sqrtl (c[b]) / 2, f = 1 / (4 * r);
    switch (b)
    {
        case 0: q[0] = r; q[1] = (M[1][2] - M[2][1]) * f; q[2] = (M[2][0] - M[0][2]) * f; q[3] = (M[0][1] - M[1][0]) * f; break;
        case 1: q[1] = r; q[0] = (M[1][2] - M[2][1]) * f; q[2] = (M[0][1] + M[1][0]) * f; q[3] = (M[0][2] + M[2][0]) * f; break;
        case 2: q[2] = r; q[0] = (M[2][0] - M[0][2]) * f; q[1] = (M[0][1] + M[1][0]) * f; q[3] = (M[1][2] + M[2][1]) * f; break;
        default: q[3] = r; q[0] = (M[0][1] - M[1][0]) * f; q[1] = (M[0][2] + M[2][0]) * f; q[2] = (M[1][2] + M[2][1]) * f; break;
    }
}
// rotation matrix of a (not necessarily unit) quaternion (w,x,y,z), normalised first
inline M3 matOfQuat (LD w, LD x, LD y, LD z)
{
    LD n = sqrtl (w * w + x * x + y * y + z * z);
    w /= n; x /= n; y /= n; z /= n;
    M3 r;
    r[0][0] = 1 - 2 * (y * y + z * z); r[0][1] = 2 * (x * y + z * w);     r[0][2] = 2 * (z * x - y * w);
    r[1][0] = 2 * (x * y - z * w);     r[1][1] = 1 - 2 * (z * z + x * x); r[1][2] = 2 * (y * z + x * w);
    r[2][0] = 2 * (z * x + y * w);     r[2][1] = 2 * (y * z - x * w);     r[2][2] = 1 - 2 * (y * y + x * x);
    return r;
}

// ---- cyclic Jacobi eigenvalue iteration for a symmetric NxN matrix (textbook, Golub & Van Loan
// 8.5): returns eigenvalues sorted descending; V's columns are the eigenvectors.
template <int N> inline void symEigen (Mat<N> a, LD ev[N], Mat<N>* Vout = nullptr)
{
    Mat<N> v;
    LD     scale = frob (a);
    for (int sweep = 0; sweep < 100 && scale > 0; ++sweep)
    {
        LD off = 0;
        for (int p = 0; p < N; ++p) for (int q = p + 1; q < N; ++q) off += a.m[p][q] * a.m[p][q];
        if (sqrtl (off) <= 1e-21L * scale) break;
        for (int p = 0; p < N; ++p)
            for (int q = p + 1; q < N; ++q)
            {
                if (a.m[p][q] == 0) continue;
                LD theta = (a.m[q][q] - a.m[p][p]) / (2 * a.m[p][q]);
                LD t = (theta >= 0 ? 1.0L : -1.0L) / (fabsl (theta) + sqrtl (theta * theta + 1));
                LD c = 1 / sqrtl (t * t + 1), s = t * c;
                // a <- J^T a J, v <- v J with J[p][p]=c, J[p][q]=s, J[q][p]=-s, J[q][q]=c (columns, then rows)
                for (int r = 0; r < N; ++r)
                {
                    LD x = a.m[r][p], y = a.m[r][q];
                    a.m[r][p] = c * x - s * y;
                    a.m[r][q] = s * x + c * y;
                    LD u = v.m[r][p], w = v.m[r][q];
                    v.m[r][p] = c * u - s * w;
                    v.m[r][q] = s * u + c * w;
                }
                for (int r = 0; r < N; ++r)
                {
                    LD x = a.m[p][r], y = a.m[q][r];
                    a.m[p][r] = c * x - s * y;
                    a.m[q][r] = s * x + c * y;
                }
                a.m[p][q] = a.m[q][p] = 0;
            }
    }
    int idx[N];
    for (int i = 0; i < N; ++i) idx[i] = i;
    std::sort (idx, idx + N, [&] (int x, int y) { return a.m[x][x] > a.m[y][y]; });
    Mat<N> vs;
    for (int i = 0; i < N; ++i)
    {
        ev[i] = a.m[idx[i]][idx[i]];
        for (int r = 0; r < N; ++r) vs.m[r][i] = v.m[r][idx[i]];
    }
    if (Vout) *Vout = vs;
}

// exact rank of an integer matrix (rows x cols, row-major), fraction-free elimination in i128
inline int rankExact (const long long* a, int rows, int cols)
{
    ex::i128 m[8][8];
    for (int i = 0; i < rows; ++i) for (int j = 0; j < cols; ++j) m[i][j] = a[i * cols + j];
    int rank = 0; // (no division: at most 4 elimination steps on small integers, far inside i128)
    for (int c = 0; c < cols && rank < rows; ++c)
    {
        int p = -1;
        for (int i = rank; i < rows; ++i) if (m[i][c] != 0) { p = i; break; }
        if (p < 0) continue;
        if (p != rank) for (int j = 0; j < cols; ++j) std::swap (m[p][j], m[rank][j]);
        for (int i = rank + 1; i < rows; ++i)
        {
            for (int j = c + 1; j < cols; ++j) m[i][j] = m[i][j] * m[rank][c] - m[i][c] * m[rank][j];
            m[i][c] = 0;
        }
        ++rank;
    }
    return rank;
}

// ---- small formatting helpers --------------------------------------------------------------------
template <class T> inline const char* tname ();
template <> inline const char* tname<float> () { return "float"; }
template <> inline const char* tname<double> () { return "double"; }

template <int N, class LM> inline std::string fmtLib (const LM& x)
{
    vf::Msg m;
    m << "[";
    for (int i = 0; i < N; ++i)
        for (int j = 0; j < N; ++j) m << (i || j ? " " : "") << x[i][j];
    m << "]";
    return m.str ();
}
inline std::string fmtE (LD v)
{
    char b[48];
    snprintf (b, sizeof b, "%.4Lg", v);
    return b;
}

} // namespace ref
