// C09, stages "inplace-exact" and "set-action": integer alphabets, exact oracle.
//
// inplace-exact: for every current matrix M of the alphabet (identity, identity+7*E_ij, three generic
//   NON-AFFINE prime matrices, lattice affine matrices) and every parameter of the alphabet, the in-place
//   translate / scale / shear (all overloads, Matrix22/33/44, argument base type equal to and different
//   from the matrix base type) must equal  D * M  where D is the documented matrix of the corresponding
//   set* call written out by hand here, the product being formed in integer arithmetic. All operands are
//   small integers (|entry| < 2^13), every product and sum is exactly representable in float, so the
//   comparison is an equality. The set* result itself must equal D in all N*N entries (starting from a
//   matrix none of whose entries equals the expected one), and the library's own product set*(..) * M
//   must give the same matrix.
// set-action: p * set*(param) for every lattice point p in L(2)^3 (L(2)^2 for the 2-D classes) equals
//   p+t, the per-axis scaled p, the documented shear of p; translation() returns the translation row.
#include "c09_common.hpp"

namespace c09 {
namespace {
using vf::R;

struct Tally
{
    long long states = 0, trans = 0;
    long long cur_identity = 0, cur_single = 0, cur_nonaffine = 0, cur_affine = 0;
    long long par_zero = 0, par_generic = 0, sh6_onehot = 0, sh6_generic = 0, mixed_base = 0;
    void flush ()
    {
        R ().add ("states", states); R ().add ("transitions", trans); R ().add ("evaluations", states);
        R ().cls ("current-matrix.identity", cur_identity);
        R ().cls ("current-matrix.identity+7*E_ij", cur_single);
        R ().cls ("current-matrix.non-affine-primes", cur_nonaffine);
        R ().cls ("current-matrix.lattice-affine", cur_affine);
        R ().cls ("parameter.has-zero-component", par_zero);
        R ().cls ("parameter.all-nonzero.generic", par_generic);
        R ().cls ("shear6.one-hot", sh6_onehot);
        R ().cls ("shear6.two-or-more-slots", sh6_generic);
        R ().cls ("argument-base-type-differs-from-matrix", mixed_base);
    }
};

void count_current (Tally& tl, const IM& m, long long k)
{
    if (m.name == "I") tl.cur_identity += k;
    else if (m.name[0] == 'I') tl.cur_single += k;
    else if (m.name[0] == 'G') tl.cur_nonaffine += k;
    else tl.cur_affine += k;
}

template <class T, class S> std::string argsuffix ()
{
    return std::is_same<T, S>::value ? std::string () : std::string ("[arg base ") + TN<S>::n () + "]";
}

// One in-place application compared with D*M (exact), plus the library's own product Dlib * M.
template <class T, int N, class Mat, class Apply, class Desc>
inline void chk_inplace (Tally& tl, const std::string& st, const IM& cm, const Mat& M0, const IM& D, const Mat& Dlib, Apply apply, Desc desc)
{
    IM         e = im_mul (D, cm);
    Mat        A (M0);
    const Mat& ret = apply (A);
    tl.trans += 2;
    ++tl.states;
    if (&ret != &A) R ().fail (st + ".returns-this", desc () + " M=" + im_str (cm), "reference to *this", "another object");
    if (!eq_int<T, N> (A.x, e)) R ().fail (st, desc () + " M=" + im_str (cm), im_str (e), mat_str (A.x));
    Mat P = Dlib * M0;
    if (!eq_int<T, N> (P.x, e)) R ().fail (st + ".library-product-set*M", desc () + " M=" + im_str (cm), im_str (e), mat_str (P.x));
}

template <class T, int N, class Mat> inline void chk_set (Tally& tl, const std::string& st, const Mat& B, const Mat* ret, const IM& D, const std::string& desc)
{
    ++tl.trans;
    if (ret != &B) R ().fail (st + ".returns-this", desc, "reference to *this", "another object");
    if (!eq_int<T, N> (B.x, D)) R ().fail (st, desc, im_str (D), mat_str (B.x));
}

// ---- the documented matrices, written out by hand (row-vector convention: p' = p * M) ----------------
IM doc_translation3 (const int* t) { IM d = im_identity (4); d.a[3][0] = t[0]; d.a[3][1] = t[1]; d.a[3][2] = t[2]; return d; }
IM doc_scale3 (const int* s) { IM d = im_identity (4); d.a[0][0] = s[0]; d.a[1][1] = s[1]; d.a[2][2] = s[2]; return d; }
// "shear x for each y coord. by h[0]; x for each z coord. by h[1]; y for each z coord. by h[2]":
//   x' = x + h0*y + h1*z ; y' = y + h2*z ; z' = z
IM doc_shear3 (const int* h) { IM d = im_identity (4); d.a[1][0] = h[0]; d.a[2][0] = h[1]; d.a[2][1] = h[2]; return d; }
// Shear6 (xy,xz,yz,yx,zx,zy): x' = x + xy*y + xz*z ; y' = y + yx*x + yz*z ; z' = z + zx*x + zy*y
IM doc_shear6 (const int* h)
{
    IM d = im_identity (4);
    d.a[1][0] = h[0]; d.a[2][0] = h[1]; d.a[2][1] = h[2]; d.a[0][1] = h[3]; d.a[0][2] = h[4]; d.a[1][2] = h[5];
    return d;
}
IM doc_translation2 (const int* t) { IM d = im_identity (3); d.a[2][0] = t[0]; d.a[2][1] = t[1]; return d; }
IM doc_scale2h (const int* s) { IM d = im_identity (3); d.a[0][0] = s[0]; d.a[1][1] = s[1]; return d; }
// 2-D: "shear x for each y coord. by xy" (and "y for each x coord. by h.y"): x' = x + h0*y ; y' = y + h1*x
IM doc_shear2h (const int* h) { IM d = im_identity (3); d.a[1][0] = h[0]; d.a[0][1] = h[1]; return d; }
IM doc_scale22 (const int* s) { IM d = im_identity (2); d.a[0][0] = s[0]; d.a[1][1] = s[1]; return d; }

std::vector<std::vector<int>> shear6_params ()
{
    std::vector<std::vector<int>> v;
    for (int i = 0; i < 729; ++i) // L(1)^6: zero, all one-hot +-1, all pairs ...
    {
        int h[6];
        ex::decode ((uint64_t) i, 3, 6, h, -1);
        v.push_back (std::vector<int> (h, h + 6));
    }
    for (int s = 0; s < 6; ++s)
        for (int val : {-2, 2, 5})
        {
            std::vector<int> h (6, 0);
            h[s] = val;
            v.push_back (h);
        }
    v.push_back ({2, 3, 5, 7, 11, 13});
    v.push_back ({-3, 5, -7, 11, -13, 17});
    v.push_back ({19, -2, 3, -5, 7, -11});
    return v;
}
std::string i6 (const std::vector<int>& h)
{
    std::string s = "Shear6(xy,xz,yz,yx,zx,zy)=(";
    for (int i = 0; i < 6; ++i) s += (i ? "," : "") + std::to_string (h[i]);
    return s + ")";
}

template <class T, class S> void inplace44 (Tally& tl, bool thorough)
{
    const std::string sfx = argsuffix<T, S> ();
    const std::string sT = site<T> ("Matrix44", "translate=setTranslation*M" + sfx), sS = site<T> ("Matrix44", "scale=setScale*M" + sfx),
                      sH = site<T> ("Matrix44", "shear(Vec3)=setShear*M" + sfx), sH6 = site<T> ("Matrix44", "shear(Shear6)=setShear*M" + sfx);
    const bool mixed = !std::is_same<T, S>::value;
    auto       mats  = current_matrices (4, thorough || !mixed);
    auto       sh6   = shear6_params ();
    long long  before = tl.states;
    for (const IM& cm : mats)
    {
        long long         s0 = tl.states;
        const Matrix44<T> M0 = mk44<T> (cm);
        for (int idx = 0; idx < 125; ++idx)
        {
            int v[3];
            ex::decode ((uint64_t) idx, 5, 3, v, -2);
            Vec3<S> vs ((S) v[0], (S) v[1], (S) v[2]);
            if (v[0] == 0 || v[1] == 0 || v[2] == 0) tl.par_zero += 3; else tl.par_generic += 3;
            {
                IM D = doc_translation3 (v);
                chk_inplace<T, 4> (tl, sT, cm, M0, D, Matrix44<T> ().setTranslation (vs), [&] (Matrix44<T>& A) -> const Matrix44<T>& { return A.translate (vs); },
                                   [&] () { return "t=" + i3 (v); });
            }
            {
                IM D = doc_scale3 (v);
                chk_inplace<T, 4> (tl, sS, cm, M0, D, Matrix44<T> ().setScale (vs), [&] (Matrix44<T>& A) -> const Matrix44<T>& { return A.scale (vs); },
                                   [&] () { return "s=" + i3 (v); });
            }
            {
                IM D = doc_shear3 (v);
                chk_inplace<T, 4> (tl, sH, cm, M0, D, Matrix44<T> ().setShear (vs), [&] (Matrix44<T>& A) -> const Matrix44<T>& { return A.shear (vs); },
                                   [&] () { return "h=" + i3 (v); });
            }
        }
        for (auto& h : sh6)
        {
            int nz = 0;
            for (int x : h) nz += (x != 0);
            if (nz == 1) ++tl.sh6_onehot; else if (nz >= 2) ++tl.sh6_generic;
            Shear6<S> hs ((S) h[0], (S) h[1], (S) h[2], (S) h[3], (S) h[4], (S) h[5]);
            IM        D = doc_shear6 (h.data ());
            chk_inplace<T, 4> (tl, sH6, cm, M0, D, Matrix44<T> ().setShear (hs), [&] (Matrix44<T>& A) -> const Matrix44<T>& { return A.shear (hs); },
                               [&] () { return i6 (h); });
        }
        count_current (tl, cm, tl.states - s0);
    }
    if (mixed) tl.mixed_base += tl.states - before;
}

template <class T, class S> void inplace33 (Tally& tl, bool thorough)
{
    const std::string sfx = argsuffix<T, S> ();
    const std::string sT = site<T> ("Matrix33", "translate=setTranslation*M" + sfx), sS = site<T> ("Matrix33", "scale=setScale*M" + sfx),
                      sH1 = site<T> ("Matrix33", "shear(scalar)=setShear*M" + sfx), sH2 = site<T> ("Matrix33", "shear(Vec2)=setShear*M" + sfx);
    const bool mixed = !std::is_same<T, S>::value;
    auto       mats  = current_matrices (3, thorough || !mixed);
    long long  before = tl.states;
    for (const IM& cm : mats)
    {
        long long         s0 = tl.states;
        const Matrix33<T> M0 = mk33<T> (cm);
        for (int idx = 0; idx < 25; ++idx)
        {
            int v[2];
            ex::decode ((uint64_t) idx, 5, 2, v, -2);
            Vec2<S> vs ((S) v[0], (S) v[1]);
            if (v[0] == 0 || v[1] == 0) tl.par_zero += 3; else tl.par_generic += 3;
            {
                IM D = doc_translation2 (v);
                chk_inplace<T, 3> (tl, sT, cm, M0, D, Matrix33<T> ().setTranslation (vs), [&] (Matrix33<T>& A) -> const Matrix33<T>& { return A.translate (vs); },
                                   [&] () { return "t=" + i2 (v); });
            }
            {
                IM D = doc_scale2h (v);
                chk_inplace<T, 3> (tl, sS, cm, M0, D, Matrix33<T> ().setScale (vs), [&] (Matrix33<T>& A) -> const Matrix33<T>& { return A.scale (vs); },
                                   [&] () { return "s=" + i2 (v); });
            }
            {
                IM D = doc_shear2h (v);
                chk_inplace<T, 3> (tl, sH2, cm, M0, D, Matrix33<T> ().setShear (vs), [&] (Matrix33<T>& A) -> const Matrix33<T>& { return A.shear (vs); },
                                   [&] () { return "h=" + i2 (v); });
            }
        }
        for (int xy : {-11, -2, -1, 0, 1, 2, 7})
        {
            int h[2] = {xy, 0};
            S   hs   = (S) xy;
            if (xy == 0) ++tl.par_zero; else ++tl.par_generic;
            IM D = doc_shear2h (h);
            chk_inplace<T, 3> (tl, sH1, cm, M0, D, Matrix33<T> ().setShear (hs), [&] (Matrix33<T>& A) -> const Matrix33<T>& { return A.shear (hs); },
                               [&] () { return "xy=" + std::to_string (xy); });
        }
        count_current (tl, cm, tl.states - s0);
    }
    if (mixed) tl.mixed_base += tl.states - before;
}

template <class T, class S> void inplace22 (Tally& tl)
{
    const std::string sS    = site<T> ("Matrix22", "scale=setScale*M" + argsuffix<T, S> ());
    const bool        mixed = !std::is_same<T, S>::value;
    auto              mats  = current_matrices (2, true);
    long long         before = tl.states;
    for (const IM& cm : mats)
    {
        long long         s0 = tl.states;
        const Matrix22<T> M0 = mk22<T> (cm);
        for (int idx = 0; idx < 25; ++idx)
        {
            int v[2];
            ex::decode ((uint64_t) idx, 5, 2, v, -2);
            Vec2<S> vs ((S) v[0], (S) v[1]);
            if (v[0] == 0 || v[1] == 0) ++tl.par_zero; else ++tl.par_generic;
            IM D = doc_scale22 (v);
            chk_inplace<T, 2> (tl, sS, cm, M0, D, Matrix22<T> ().setScale (vs), [&] (Matrix22<T>& A) -> const Matrix22<T>& { return A.scale (vs); },
                               [&] () { return "s=" + i2 (v); });
        }
        count_current (tl, cm, tl.states - s0);
    }
    if (mixed) tl.mixed_base += tl.states - before;
}

// ---- set* matrices: entries and action on lattice points ---------------------------------------------
template <class T> inline bool veq (const Vec3<T>& g, long long x, long long y, long long z) { return g.x == (T) x && g.y == (T) y && g.z == (T) z; }
template <class T> inline bool veq (const Vec2<T>& g, long long x, long long y) { return g.x == (T) x && g.y == (T) y; }
inline std::string e3 (long long x, long long y, long long z) { return "(" + std::to_string (x) + "," + std::to_string (y) + "," + std::to_string (z) + ")"; }
inline std::string e2 (long long x, long long y) { return "(" + std::to_string (x) + "," + std::to_string (y) + ")"; }

template <class T, class S> void set_action44 (Tally& tl)
{
    const std::string sfx = argsuffix<T, S> ();
    // a matrix none of whose entries coincides with an entry of any documented matrix of the alphabet
    IM dirty = im_identity (4);
    for (int i = 0; i < 4; ++i)
        for (int j = 0; j < 4; ++j) dirty.a[i][j] = 100 + ex::PRIMES[i * 4 + j];
    const Matrix44<T> DIRTY = mk44<T> (dirty);
    {   // translation() returns the translation row, whatever the rest of the matrix is
        Vec3<T> t = DIRTY.translation ();
        ++tl.trans;
        if (!veq (t, dirty.a[3][0], dirty.a[3][1], dirty.a[3][2]))
            R ().fail (site<T> ("Matrix44", "translation"), "M=" + im_str (dirty), e3 (dirty.a[3][0], dirty.a[3][1], dirty.a[3][2]), v3 (t));
    }
    auto points = [&] (const Matrix44<T>& M, const char* rel, const std::string& par, const IM& D) {
        // documented action, evaluated from the documented matrix in integers (w stays 1)
        for (int pi = 0; pi < 125; ++pi)
        {
            int p[3];
            ex::decode ((uint64_t) pi, 5, 3, p, -2);
            long long e[3];
            for (int j = 0; j < 3; ++j) e[j] = p[0] * D.a[0][j] + p[1] * D.a[1][j] + p[2] * D.a[2][j] + D.a[3][j];
            Vec3<T> g = Vec3<T> ((T) p[0], (T) p[1], (T) p[2]) * M;
            ++tl.trans;
            if (!veq (g, e[0], e[1], e[2])) R ().fail (site<T> ("Matrix44", std::string (rel) + sfx), par + " p=" + i3 (p), e3 (e[0], e[1], e[2]), v3 (g));
        }
    };
    for (int idx = 0; idx < 125; ++idx)
    {
        int v[3];
        ex::decode ((uint64_t) idx, 5, 3, v, -2);
        Vec3<S> vs ((S) v[0], (S) v[1], (S) v[2]);
        tl.states += 3;
        if (v[0] == 0 || v[1] == 0 || v[2] == 0) tl.par_zero += 3; else tl.par_generic += 3;
        {
            Matrix44<T> B (DIRTY);
            const Matrix44<T>* r = &B.setTranslation (vs);
            IM D = doc_translation3 (v);
            chk_set<T, 4> (tl, site<T> ("Matrix44", "setTranslation.entries" + sfx), B, r, D, "t=" + i3 (v));
            // "p -> p + t": independent of D
            for (int pi = 0; pi < 125; ++pi)
            {
                int p[3];
                ex::decode ((uint64_t) pi, 5, 3, p, -2);
                Vec3<T> g = Vec3<T> ((T) p[0], (T) p[1], (T) p[2]) * B;
                ++tl.trans;
                if (!veq (g, p[0] + v[0], p[1] + v[1], p[2] + v[2]))
                    R ().fail (site<T> ("Matrix44", "setTranslation.p*M=p+t" + sfx), "t=" + i3 (v) + " p=" + i3 (p), e3 (p[0] + v[0], p[1] + v[1], p[2] + v[2]), v3 (g));
            }
            Vec3<T> tr = B.translation ();
            ++tl.trans;
            if (!veq (tr, v[0], v[1], v[2])) R ().fail (site<T> ("Matrix44", "translation" + sfx), "after setTranslation t=" + i3 (v), i3 (v), v3 (tr));
        }
        {
            Matrix44<T> B (DIRTY);
            const Matrix44<T>* r = &B.setScale (vs);
            IM D = doc_scale3 (v);
            chk_set<T, 4> (tl, site<T> ("Matrix44", "setScale(Vec3).entries" + sfx), B, r, D, "s=" + i3 (v));
            for (int pi = 0; pi < 125; ++pi)
            {
                int p[3];
                ex::decode ((uint64_t) pi, 5, 3, p, -2);
                Vec3<T> g = Vec3<T> ((T) p[0], (T) p[1], (T) p[2]) * B;
                ++tl.trans;
                if (!veq (g, p[0] * v[0], p[1] * v[1], p[2] * v[2]))
                    R ().fail (site<T> ("Matrix44", "setScale(Vec3).p*M=p.s" + sfx), "s=" + i3 (v) + " p=" + i3 (p), e3 (p[0] * v[0], p[1] * v[1], p[2] * v[2]), v3 (g));
            }
        }
        {
            Matrix44<T> B (DIRTY);
            const Matrix44<T>* r = &B.setShear (vs);
            IM D = doc_shear3 (v);
            chk_set<T, 4> (tl, site<T> ("Matrix44", "setShear(Vec3).entries" + sfx), B, r, D, "h=" + i3 (v));
            for (int pi = 0; pi < 125; ++pi)
            {
                int p[3];
                ex::decode ((uint64_t) pi, 5, 3, p, -2);
                long long ex_ = p[0] + (long long) v[0] * p[1] + (long long) v[1] * p[2], ey = p[1] + (long long) v[2] * p[2], ez = p[2];
                Vec3<T> g = Vec3<T> ((T) p[0], (T) p[1], (T) p[2]) * B;
                ++tl.trans;
                if (!veq (g, ex_, ey, ez)) R ().fail (site<T> ("Matrix44", "setShear(Vec3).p*M=documented-shear" + sfx), "h=" + i3 (v) + " p=" + i3 (p), e3 (ex_, ey, ez), v3 (g));
            }
        }
    }
    if (std::is_same<T, S>::value)
        for (int s : {-2, -1, 0, 1, 2, 7})
        {
            ++tl.states;
            if (s == 0) ++tl.par_zero; else ++tl.par_generic;
            Matrix44<T> B (DIRTY);
            const Matrix44<T>* r = &B.setScale ((T) s);
            int sv[3] = {s, s, s};
            IM  D     = doc_scale3 (sv);
            chk_set<T, 4> (tl, site<T> ("Matrix44", "setScale(T).entries"), B, r, D, "s=" + std::to_string (s));
            points (B, "setScale(T).p*M=s*p", "s=" + std::to_string (s), D);
        }
    for (auto& h : shear6_params ())
    {
        ++tl.states;
        int nz = 0;
        for (int x : h) nz += (x != 0);
        if (nz == 1) ++tl.sh6_onehot; else if (nz >= 2) ++tl.sh6_generic;
        Shear6<S>   hs ((S) h[0], (S) h[1], (S) h[2], (S) h[3], (S) h[4], (S) h[5]);
        Matrix44<T> B (DIRTY);
        const Matrix44<T>* r = &B.setShear (hs);
        IM D = doc_shear6 (h.data ());
        chk_set<T, 4> (tl, site<T> ("Matrix44", "setShear(Shear6).entries" + sfx), B, r, D, i6 (h));
        for (int pi = 0; pi < 125; ++pi)
        {
            int p[3];
            ex::decode ((uint64_t) pi, 5, 3, p, -2);
            long long X = p[0], Y = p[1], Z = p[2];
            long long ex_ = X + h[0] * Y + h[1] * Z, ey = Y + h[3] * X + h[2] * Z, ez = Z + h[4] * X + h[5] * Y;
            Vec3<T> g = Vec3<T> ((T) p[0], (T) p[1], (T) p[2]) * B;
            ++tl.trans;
            if (!veq (g, ex_, ey, ez)) R ().fail (site<T> ("Matrix44", "setShear(Shear6).p*M=documented-shear" + sfx), i6 (h) + " p=" + i3 (p), e3 (ex_, ey, ez), v3 (g));
        }
    }
    if (!std::is_same<T, S>::value) tl.mixed_base += 125 * 3;
}

template <class T, class S> void set_action33_22 (Tally& tl)
{
    const std::string sfx = argsuffix<T, S> ();
    IM d3 = im_identity (3), d2 = im_identity (2);
    for (int i = 0; i < 3; ++i)
        for (int j = 0; j < 3; ++j) d3.a[i][j] = 100 + ex::PRIMES[i * 3 + j];
    for (int i = 0; i < 2; ++i)
        for (int j = 0; j < 2; ++j) d2.a[i][j] = 100 + ex::PRIMES[i * 2 + j];
    const Matrix33<T> DIRTY3 = mk33<T> (d3);
    const Matrix22<T> DIRTY2 = mk22<T> (d2);
    {
        Vec2<T> t = DIRTY3.translation ();
        ++tl.trans;
        if (!veq (t, d3.a[2][0], d3.a[2][1])) R ().fail (site<T> ("Matrix33", "translation"), "M=" + im_str (d3), e2 (d3.a[2][0], d3.a[2][1]), "(" + vf::fmt (t.x) + "," + vf::fmt (t.y) + ")");
    }
    auto act3 = [&] (const Matrix33<T>& B, const std::string& st, const std::string& par, long long a, long long b, long long c, long long d, long long tx, long long ty) {
        // documented action x' = a*x + c*y + tx ; y' = b*x + d*y + ty
        for (int pi = 0; pi < 25; ++pi)
        {
            int p[2];
            ex::decode ((uint64_t) pi, 5, 2, p, -2);
            long long ex_ = a * p[0] + c * p[1] + tx, ey = b * p[0] + d * p[1] + ty;
            Vec2<T>   g   = Vec2<T> ((T) p[0], (T) p[1]) * B;
            ++tl.trans;
            if (!veq (g, ex_, ey)) R ().fail (st, par + " p=" + i2 (p), e2 (ex_, ey), "(" + vf::fmt (g.x) + "," + vf::fmt (g.y) + ")");
        }
    };
    for (int idx = 0; idx < 25; ++idx)
    {
        int v[2];
        ex::decode ((uint64_t) idx, 5, 2, v, -2);
        Vec2<S> vs ((S) v[0], (S) v[1]);
        tl.states += 4;
        if (v[0] == 0 || v[1] == 0) tl.par_zero += 4; else tl.par_generic += 4;
        {
            Matrix33<T> B (DIRTY3);
            const Matrix33<T>* r = &B.setTranslation (vs);
            chk_set<T, 3> (tl, site<T> ("Matrix33", "setTranslation.entries" + sfx), B, r, doc_translation2 (v), "t=" + i2 (v));
            act3 (B, site<T> ("Matrix33", "setTranslation.p*M=p+t" + sfx), "t=" + i2 (v), 1, 0, 0, 1, v[0], v[1]);
            Vec2<T> tr = B.translation ();
            ++tl.trans;
            if (!veq (tr, v[0], v[1])) R ().fail (site<T> ("Matrix33", "translation" + sfx), "after setTranslation t=" + i2 (v), i2 (v), "(" + vf::fmt (tr.x) + "," + vf::fmt (tr.y) + ")");
        }
        {
            Matrix33<T> B (DIRTY3);
            const Matrix33<T>* r = &B.setScale (vs);
            chk_set<T, 3> (tl, site<T> ("Matrix33", "setScale(Vec2).entries" + sfx), B, r, doc_scale2h (v), "s=" + i2 (v));
            act3 (B, site<T> ("Matrix33", "setScale(Vec2).p*M=p.s" + sfx), "s=" + i2 (v), v[0], 0, 0, v[1], 0, 0);
        }
        {
            Matrix33<T> B (DIRTY3);
            const Matrix33<T>* r = &B.setShear (vs);
            chk_set<T, 3> (tl, site<T> ("Matrix33", "setShear(Vec2).entries" + sfx), B, r, doc_shear2h (v), "h=" + i2 (v));
            // x' = x + h.x*y ; y' = y + h.y*x
            act3 (B, site<T> ("Matrix33", "setShear(Vec2).p*M=documented-shear" + sfx), "h=" + i2 (v), 1, v[1], v[0], 1, 0, 0);
        }
        {
            Matrix22<T> B (DIRTY2);
            const Matrix22<T>* r = &B.setScale (vs);
            chk_set<T, 2> (tl, site<T> ("Matrix22", "setScale(Vec2).entries" + sfx), B, r, doc_scale22 (v), "s=" + i2 (v));
            for (int pi = 0; pi < 25; ++pi)
            {
                int p[2];
                ex::decode ((uint64_t) pi, 5, 2, p, -2);
                Vec2<T> g = Vec2<T> ((T) p[0], (T) p[1]) * B;
                ++tl.trans;
                if (!veq (g, p[0] * v[0], p[1] * v[1]))
                    R ().fail (site<T> ("Matrix22", "setScale(Vec2).p*M=p.s" + sfx), "s=" + i2 (v) + " p=" + i2 (p), e2 (p[0] * v[0], p[1] * v[1]), "(" + vf::fmt (g.x) + "," + vf::fmt (g.y) + ")");
            }
        }
    }
    for (int s : {-11, -2, -1, 0, 1, 2, 7})
    {
        tl.states += 3;
        if (s == 0) tl.par_zero += 3; else tl.par_generic += 3;
        int sv[2] = {s, s}, hv[2] = {s, 0};
        {
            Matrix33<T> B (DIRTY3);
            const Matrix33<T>* r = &B.setShear ((S) s);
            chk_set<T, 3> (tl, site<T> ("Matrix33", "setShear(scalar).entries" + sfx), B, r, doc_shear2h (hv), "xy=" + std::to_string (s));
            act3 (B, site<T> ("Matrix33", "setShear(scalar).p*M=documented-shear" + sfx), "xy=" + std::to_string (s), 1, 0, s, 1, 0, 0);
        }
        if (std::is_same<T, S>::value)
        {
            Matrix33<T> B (DIRTY3);
            const Matrix33<T>* r = &B.setScale ((T) s);
            chk_set<T, 3> (tl, site<T> ("Matrix33", "setScale(T).entries"), B, r, doc_scale2h (sv), "s=" + std::to_string (s));
            act3 (B, site<T> ("Matrix33", "setScale(T).p*M=s*p"), "s=" + std::to_string (s), s, 0, 0, s, 0, 0);
            Matrix22<T> C (DIRTY2);
            const Matrix22<T>* r2 = &C.setScale ((T) s);
            chk_set<T, 2> (tl, site<T> ("Matrix22", "setScale(T).entries"), C, r2, doc_scale22 (sv), "s=" + std::to_string (s));
        }
    }
}

} // namespace

void run_exact ()
{
    const bool th = R ().thorough ();
    if (R ().stage ("inplace-exact"))
    {
        Tally tl;
        inplace44<float, float> (tl, th);   inplace44<double, double> (tl, th);
        inplace44<float, double> (tl, th);  inplace44<double, float> (tl, th);
        inplace33<float, float> (tl, th);   inplace33<double, double> (tl, th);
        inplace33<float, double> (tl, th);  inplace33<double, float> (tl, th);
        inplace22<float, float> (tl);       inplace22<double, double> (tl);
        inplace22<float, double> (tl);      inplace22<double, float> (tl);
        tl.flush ();
        R ().sample ("Matrix44 G1(primes).translate((1,-2,2)) == [[1 0 0 0],[0 1 0 0],[0 0 1 0],[1 -2 2 1]] * G1 exactly (fourth column included)");
        R ().sample ("Matrix44 (I+7*E03).shear(Shear6 one-hot zx=2) == setShear*M exactly");
        R ().stage_done ("in-place translate/scale/shear(all overloads) of Matrix22/33/44 == documented set* matrix times M, exact, for M in {I, I+7E_ij, 3 non-affine prime "
                         "matrices, lattice affine} x parameters L(2)^3 / L(2)^2 / Shear6 in L(1)^6 + one-hot + generic; float, double and mixed argument base types");
    }
    if (R ().stage ("set-action"))
    {
        Tally tl;
        set_action44<float, float> (tl);  set_action44<double, double> (tl);
        set_action44<float, double> (tl); set_action44<double, float> (tl);
        set_action33_22<float, float> (tl);  set_action33_22<double, double> (tl);
        set_action33_22<float, double> (tl); set_action33_22<double, float> (tl);
        tl.flush ();
        R ().sample ("(1,2,-2) * setShear(Shear6(2,3,5,7,11,13)) == (1+2*2+3*-2, 2+7*1+5*-2, -2+11*1+13*2)");
        R ().stage_done ("set* entries (all N*N overwritten) and p*set* on all p in L(2)^3 (L(2)^2): p+t, p.s, documented shears; translation() == translation row");
    }
}

} // namespace c09
