// C09 — transform builders act as documented; in-place forms pre-multiply.
//
// Bounded exhaustive exploration of the real Matrix22/33/44 builders and of the frame builders in
// ImathMatrixAlgo.h / ImathFrame.h, float and double:
//   c09_exact.cpp   stages inplace-exact, set-action   (integer alphabets, oracle = exact integer algebra)
//   c09_rot.cpp     stage  rotations                    (angle alphabet, oracle = long double, 8 eps Sum|terms|)
//   c09_frames.cpp  stage  frames                       (lattice directions / point triples)
//   c09_scaled.cpp  stages frames-scaled, nextframe-general (operands x 2^k, exactly parallel non-lattice pairs; nextFrame from a general frame)
//   c09_ext.cpp     stages aliased-arguments, rotations-mixed-base, rotations-big-angles
//   c09_dirty.cpp   stage  set-on-dirty-object          (every set* builder on objects pre-filled with primes / NaN: bitwise the fresh result)
// The oracles are written from the documentation of each function (the matrix written out by hand,
// "send p to p+t", Rodrigues' formula, "rotate the z axis into targetDir", ...), never from the
// library's expressions.
#include "c09_common.hpp"

namespace c09 {

std::vector<IM> current_matrices (int n, bool all_affine)
{
    std::vector<IM> v;
    v.push_back (im_identity (n));
    for (int i = 0; i < n; ++i)
        for (int j = 0; j < n; ++j)
        {
            IM m = im_identity (n);
            m.a[i][j] += 7;
            m.name = "I+7*E" + std::to_string (i) + std::to_string (j);
            v.push_back (m);
        }
    // three generic matrices of distinct primes: every row and column is "non-affine" (last column
    // is not (0,..,0,1)), every pairwise product of a parameter with an entry is distinct
    {
        IM g1 = im_identity (n), g2 = im_identity (n), g3 = im_identity (n);
        for (int i = 0; i < n; ++i)
            for (int j = 0; j < n; ++j)
            {
                int idx    = i * n + j;
                g1.a[i][j] = ex::PRIMES[idx];
                g2.a[i][j] = ex::PRIMES[16 + (n * n - 1 - idx)] * (((i + j) & 1) ? -1 : 1);
                g3.a[i][j] = ex::PRIMES[(7 * idx + 3) % 36] * ((idx % 3 == 0) ? -1 : 1);
            }
        g1.name = "G1(primes)"; g2.name = "G2(primes,+-)"; g3.name = "G3(primes,+-)";
        v.push_back (g1); v.push_back (g2); v.push_back (g3);
    }
    if (n == 4)
    {
        auto rots = ex::cube_rotations ();
        int  cnt  = 0;
        for (auto& r : rots)
            for (int t = 0; t < 27; ++t)
            {
                int tv[3];
                ex::decode ((uint64_t) t, 3, 3, tv, -1);
                ++cnt;
                if (!all_affine && (cnt % 81) != 5) continue;
                IM m = im_identity (4);
                for (int i = 0; i < 3; ++i)
                    for (int j = 0; j < 3; ++j) m.a[i][j] = r[i * 3 + j];
                for (int j = 0; j < 3; ++j) m.a[3][j] = tv[j] * (j + 1);
                m.name = "affine(cuberot,t)";
                v.push_back (m);
            }
    }
    else if (n == 3)
    {
        int cnt = 0;
        for (int l = 0; l < 81; ++l)
            for (int t = 0; t < 9; ++t)
            {
                int lv[4], tv[2];
                ex::decode ((uint64_t) l, 3, 4, lv, -1);
                ex::decode ((uint64_t) t, 3, 2, tv, -1);
                ++cnt;
                if (!all_affine && (cnt % 91) != 5) continue;
                IM m = im_identity (3);
                m.a[0][0] = lv[0]; m.a[0][1] = lv[1]; m.a[1][0] = lv[2]; m.a[1][1] = lv[3];
                m.a[2][0] = tv[0] * 2; m.a[2][1] = tv[1] * 3;
                m.name = "affine(L1 2x2,t)";
                v.push_back (m);
            }
    }
    else
    {
        int cnt = 0;
        for (int l = 0; l < 81; ++l)
        {
            int lv[4];
            ex::decode ((uint64_t) l, 3, 4, lv, -1);
            ++cnt;
            if (!all_affine && (cnt % 10) != 5) continue;
            IM m = im_identity (2);
            m.a[0][0] = lv[0]; m.a[0][1] = lv[1]; m.a[1][0] = lv[2]; m.a[1][1] = lv[3];
            m.name = "L1 2x2";
            v.push_back (m);
        }
    }
    return v;
}

} // namespace c09

int main (int argc, char** argv)
{
    vf::R ().property = "C09";
    vf::R ().parse (argc, argv);
    c09::run_exact ();
    c09::run_rotations ();
    c09::run_frames ();
    c09::run_frames_scaled ();
    c09::run_ext ();
    c09::run_dirty ();
    return vf::R ().finish ();
}
