// C05 — explicit instantiation of the 'exact' stages for float (one TU per scalar type to keep the build parallel)
#include "c05_exact.hpp"
namespace c05 { template void run_exact<float> (); }
